(* Catalogue, part 2: the catalogue as a property of the acknowledged log.
   A log is a list of event buffers as written to the segments (client entries followed by
   catalogue entries).  [seg_ok pre full]: the buffer [full] is what ingest_efficient writes when
   the catalogue so far is that of [pre]: for every client table it touches, catalogue rows for
   exactly the names of the entry that the catalogue of [pre] does not list yet.  From [log_ok]
   alone: the catalogue of every table lists every column ever mentioned for it, each once. *)
From Coq Require Import NArith ZArith List Bool Lia.
From LV Require Import Model.TableSM Model.Catalogue Model.WalSM
     Proofs.TableSM Proofs.WalSMBase Proofs.WalSM Proofs.WalSMLog Proofs.Catalogue.
Import ListNotations.
Open Scope N_scope.

(* ---------------------------------------------------------------------------------------------- *)
(* catalogue rows *)

Definition cat_row (r : row) : Prop := exists c, r = [(s_column_name, CStr c)].

Definition names_of (rows : list row) : list name :=
  flat_map (fun r => match get r s_column_name with CStr s => [s] | _ => [] end) rows.

Lemma names_of_app : forall a b, names_of (a ++ b) = names_of a ++ names_of b.
Proof. intros. unfold names_of. apply flat_map_app. Qed.

Lemma string_column_cat_rows : forall rows,
  Forall cat_row rows -> string_column s_column_name rows = Some (names_of rows).
Proof.
  induction rows as [|r rows IH]; intro H; [reflexivity|].
  inversion H as [|? ? [c ->] H']; subst. cbn [string_column names_of flat_map].
  change (get [(s_column_name, CStr c)] s_column_name) with (CStr c).
  rewrite (IH H'). reflexivity.
Qed.

Lemma names_of_cat_map : forall l, names_of (map (fun c => [(s_column_name, CStr c)]) l) = l.
Proof. induction l as [|x l IH]; [reflexivity|]. cbn [map]. unfold names_of in *. cbn [flat_map].
  change (get [(s_column_name, CStr x)] s_column_name) with (CStr x). cbn. f_equal. exact IH. Qed.

Lemma cat_rows_map : forall l, Forall cat_row (map (fun c => [(s_column_name, CStr c)]) l).
Proof. intro l. apply Forall_forall. intros r H. apply in_map_iff in H. destruct H as [c [<- _]]. exists c. reflexivity. Qed.

(* ---------------------------------------------------------------------------------------------- *)
(* sets of names as lists *)

Definition same_names (a b : list name) : Prop := forall x, In x a <-> In x b.

Lemma new_names_in : forall s l x, In x (new_names s l) <-> In x l /\ ~ In x s.
Proof.
  intros s l x. unfold new_names. rewrite filter_In, negb_true_iff. split; intros [H1 H2]; split; auto.
  - intro HI. apply mem_name_In in HI. congruence.
  - destruct (mem_name x s) eqn:E; auto. apply mem_name_In in E. contradiction.
Qed.

Lemma new_names_ext : forall s s' l, same_names s s' -> new_names s l = new_names s' l.
Proof.
  intros s s' l H. unfold new_names. apply filter_ext. intro c.
  destruct (mem_name c s) eqn:E, (mem_name c s') eqn:E'; auto.
  - apply mem_name_In in E. apply H in E. apply mem_name_In in E. congruence.
  - apply mem_name_In in E'. apply H in E'. apply mem_name_In in E'. congruence.
Qed.

Lemma new_names_nodup : forall s l, NoDup l -> NoDup (new_names s l).
Proof. intros. unfold new_names. apply NoDup_filter. assumption. Qed.

Lemma add_names_in : forall l s x, In x (add_names s l) <-> In x s \/ In x l.
Proof.
  induction l as [|c l IH]; intros s x; cbn [add_names].
  - cbn. tauto.
  - destruct (mem_name c s) eqn:E.
    + rewrite IH. cbn. apply mem_name_In in E. split; intros [H|H]; auto.
      destruct H as [<-|H]; auto.
    + rewrite IH, in_app_iff. cbn. tauto.
Qed.

Lemma nodup_app_new : forall s l, NoDup s -> NoDup l -> NoDup (s ++ new_names s l).
Proof.
  intros s l Hs Hl. apply nodup_app_comm.
  assert (Hn : NoDup (new_names s l)) by (apply new_names_nodup; auto).
  assert (D : forall x, In x (new_names s l) -> ~ In x s) by (intros x H; apply new_names_in in H; tauto).
  induction (new_names s l) as [|x xs IH]; cbn; auto.
  inversion Hn; subst. constructor.
  - intro HI. apply in_app_or in HI. destruct HI as [HI|HI]; [contradiction|].
    apply (D x); [left; reflexivity|exact HI].
  - apply IH; auto. intros y Hy. apply D. right. exact Hy.
Qed.

(* ---------------------------------------------------------------------------------------------- *)
(* well-formed client buffers *)

Record wf_batch (b : batch) : Prop := {
  wb_names : NoDup (map tb_name b);
  wb_user : Forall (fun tb => user_table (tb_name tb) = true) b;
  wb_rows : Forall wf_tbatch b;
  wb_cols : Forall (fun tb => NoDup (tb_cols tb)) b;
  wb_nonempty : Forall (fun tb => tb_cols tb <> [] /\ tb_rows tb <> []) b
}.

Definition find_tb (t : name) (b : batch) : option tbatch :=
  find (fun tb => name_eqb (tb_name tb) t) b.

Lemma batch_rows_find : forall b t, NoDup (map tb_name b) ->
  batch_rows t b = match find_tb t b with Some tb => tb_rows tb | None => [] end.
Proof.
  induction b as [|tb b IH]; intros t ND; [reflexivity|].
  inversion ND as [|? ? Hn ND']; subst. rewrite batch_rows_cons. unfold find_tb. cbn [find].
  destruct (name_eqb (tb_name tb) t) eqn:E.
  - apply name_eqb_eq in E. subst.
    assert (E' : batch_rows (tb_name tb) b = []).
    { clear - Hn. induction b as [|x b IH]; [reflexivity|]. rewrite batch_rows_cons.
      destruct (name_eqb (tb_name x) (tb_name tb)) eqn:E.
      - apply name_eqb_eq in E. exfalso. apply Hn. left. exact E.
      - cbn. apply IH. intro H. apply Hn. right. exact H. }
    rewrite E', app_nil_r. reflexivity.
  - cbn [app]. apply IH. exact ND'.
Qed.

Lemma find_tb_in : forall b t tb, find_tb t b = Some tb -> In tb b /\ tb_name tb = t.
Proof.
  intros b t tb H. unfold find_tb in H. apply find_some in H. destruct H as [H1 H2].
  apply name_eqb_eq in H2. auto.
Qed.

(* ---------------------------------------------------------------------------------------------- *)
(* the catalogue of a log *)

Definition log_names (log : list batch) (t : name) : list name :=
  names_of (acked_rows log (meta_columns_of t)).

Lemma acked_rows_snoc : forall log full n, acked_rows (log ++ [full]) n = acked_rows log n ++ batch_rows n full.
Proof. intros. unfold acked_rows. rewrite flat_map_app. cbn. rewrite app_nil_r. reflexivity. Qed.

Lemma log_names_snoc : forall log full t,
  log_names (log ++ [full]) t = log_names log t ++ names_of (batch_rows (meta_columns_of t) full).
Proof. intros. unfold log_names. rewrite acked_rows_snoc, names_of_app. reflexivity. Qed.

(* the entries ingest_efficient adds: rows for _meta_tables, catalogue rows for _meta_columns_<t> *)
Definition meta_row_ok (n : name) (r : row) : Prop :=
  (n = s_meta_tables /\ incl (row_cols r) [s_timestamp; s_name]) \/
  (is_meta_columns n = true /\ cat_row r).

Definition extra_ok (tb : tbatch) : Prop := Forall (meta_row_ok (tb_name tb)) (tb_rows tb).

Definition seg_ok (pre : list batch) (full : batch) : Prop :=
  exists b extra,
    full = b ++ extra /\ wf_batch b /\ meta_named extra /\ Forall extra_ok extra /\
    forall t, user_table t = true ->
      Forall cat_row (batch_rows (meta_columns_of t) full) /\
      names_of (batch_rows (meta_columns_of t) full) =
        match find_tb t b with
        | Some tb => new_names (log_names pre t) (tb_cols tb)
        | None => []
        end.

Inductive log_ok : list batch -> Prop :=
| log_ok_nil : log_ok []
| log_ok_snoc : forall log full, log_ok log -> seg_ok log full -> log_ok (log ++ [full]).

(* the rows a segment adds to a client table are those of its entry *)
Lemma seg_client_rows : forall pre full t, seg_ok pre full -> user_table t = true ->
  exists b, wf_batch b /\ batch_rows t full = match find_tb t b with Some tb => tb_rows tb | None => [] end /\
            names_of (batch_rows (meta_columns_of t) full) =
              match find_tb t b with Some tb => new_names (log_names pre t) (tb_cols tb) | None => [] end.
Proof.
  intros pre full t [b [extra [-> [W [M [_ H]]]]]] Hu. exists b. split; auto. split.
  - rewrite batch_rows_app, (meta_named_rows _ _ M Hu), app_nil_r. apply batch_rows_find. apply (wb_names _ W).
  - apply H. exact Hu.
Qed.

(* L2: each name once *)
Lemma log_names_nodup : forall log t, log_ok log -> user_table t = true -> NoDup (log_names log t).
Proof.
  intros log t H Hu. induction H as [|log full H IH S]; [constructor|].
  rewrite log_names_snoc. destruct (seg_client_rows _ _ _ S Hu) as [b [W [_ En]]]. rewrite En.
  destruct (find_tb t b) as [tb|] eqn:E; [|rewrite app_nil_r; exact IH].
  apply nodup_app_new; auto. destruct (find_tb_in _ _ _ E) as [HI _].
  pose proof (wb_cols _ W) as Hc. rewrite Forall_forall in Hc. apply Hc. exact HI.
Qed.

(* L4: the rows of a catalogue table are catalogue rows *)
Lemma log_cat_rows : forall log t, log_ok log -> user_table t = true ->
  Forall cat_row (acked_rows log (meta_columns_of t)).
Proof.
  intros log t H Hu. induction H as [|log full H IH S]; [constructor|].
  rewrite acked_rows_snoc. apply Forall_app. split; auto.
  destruct S as [b [extra [-> [W [M [_ Hs]]]]]]. apply Hs. exact Hu.
Qed.

Lemma log_string_column : forall log t, log_ok log -> user_table t = true ->
  string_column s_column_name (acked_rows log (meta_columns_of t)) = Some (log_names log t).
Proof. intros. apply string_column_cat_rows. apply log_cat_rows; auto. Qed.

(* the columns ever mentioned for a table *)
Definition mentioned (log : list batch) (t x : name) : Prop :=
  exists full tb, In full log /\ In tb full /\ tb_name tb = t /\ In x (tb_cols tb).

(* L3: the catalogue lists exactly the columns mentioned *)
Lemma log_names_exact : forall log t x, log_ok log -> user_table t = true ->
  (In x (log_names log t) <-> mentioned log t x).
Proof.
  intros log t x H Hu. induction H as [|log full H IH S].
  - split; [intros []|intros [f [tb [[] _]]]].
  - rewrite log_names_snoc, in_app_iff, IH.
    destruct S as [b [extra [Ef [W [M [_ Hs]]]]]]. destruct (Hs t Hu) as [_ En]. rewrite En. clear En.
    split.
    + intros [[f [tb [Hf Ht]]]|Hn].
      * exists f, tb. split; [apply in_or_app; left; exact Hf|exact Ht].
      * destruct (find_tb t b) as [tb|] eqn:E; [|destruct Hn].
        apply new_names_in in Hn. destruct (find_tb_in _ _ _ E) as [HI Hname].
        exists full, tb. split; [apply in_or_app; right; left; reflexivity|].
        split; [rewrite Ef; apply in_or_app; left; exact HI|]. tauto.
    + intros [f [tb [Hf [Htb [Hname Hx]]]]]. apply in_app_or in Hf. destruct Hf as [Hf|[<-|[]]].
      * left. exists f, tb. auto.
      * (* an entry of the new segment: it is the client entry for t *)
        rewrite Ef in Htb. apply in_app_or in Htb. destruct Htb as [Htb|Htb].
        -- assert (E : find_tb t b = Some tb).
           { pose proof (wb_names _ W) as ND. clear - ND Htb Hname. unfold find_tb.
             induction b as [|y b IHb]; [destruct Htb|]. inversion ND as [|? ? Hn ND']; subst. cbn [find].
             destruct Htb as [->|Htb].
             - rewrite name_eqb_refl. reflexivity.
             - destruct (name_eqb (tb_name y) (tb_name tb)) eqn:E.
               + apply name_eqb_eq in E. exfalso. apply Hn. rewrite E. apply in_map. exact Htb.
               + apply IHb; auto. }
           rewrite E. destruct (in_dec (list_eq_dec N.eq_dec) x (log_names log t)) as [Hin|Hnin].
           ++ left. apply IH. exact Hin.
           ++ right. apply new_names_in. auto.
        -- exfalso. unfold meta_named in M. rewrite Forall_forall in M. apply M in Htb. congruence.
Qed.

(* L1: every column a row of the table carries is catalogued *)
Lemma log_rows_catalogued : forall log t, log_ok log -> user_table t = true ->
  Forall (fun r => incl (row_cols r) (log_names log t)) (acked_rows log t).
Proof.
  intros log t H Hu. induction H as [|log full H IH S]; [constructor|].
  rewrite acked_rows_snoc, log_names_snoc. apply Forall_app. split.
  - eapply Forall_impl; [|exact IH]. cbn. intros r Hr x Hx. apply in_or_app. left. apply Hr. exact Hx.
  - destruct (seg_client_rows _ _ _ S Hu) as [b [W [Er En]]]. rewrite Er, En.
    destruct (find_tb t b) as [tb|] eqn:E; [|constructor].
    destruct (find_tb_in _ _ _ E) as [HI _].
    pose proof (wb_rows _ W) as Hw. rewrite Forall_forall in Hw. specialize (Hw _ HI).
    unfold wf_tbatch in Hw. eapply Forall_impl; [|exact Hw]. cbn. intros r Hr x Hx. apply Hr in Hx.
    destruct (in_dec (list_eq_dec N.eq_dec) x (log_names log t)) as [Hin|Hnin].
    + apply in_or_app. left. exact Hin.
    + apply in_or_app. right. apply new_names_in. auto.
Qed.

(* L5: a table with rows has a non-empty catalogue *)
Lemma log_rows_names : forall log t, log_ok log -> user_table t = true ->
  acked_rows log t <> [] -> log_names log t <> [].
Proof.
  intros log t H Hu. induction H as [|log full H IH S]; [intro Hn; exfalso; apply Hn; reflexivity|].
  rewrite acked_rows_snoc, log_names_snoc. intro Hne.
  destruct (seg_client_rows _ _ _ S Hu) as [b [W [Er En]]]. rewrite En.
  destruct (acked_rows log t) as [|r rs] eqn:Ea.
  - cbn [app] in Hne. rewrite Er in Hne. destruct (find_tb t b) as [tb|] eqn:E; [|exfalso; apply Hne; reflexivity].
    destruct (find_tb_in _ _ _ E) as [HI _].
    pose proof (wb_nonempty _ W) as Hc. rewrite Forall_forall in Hc. destruct (Hc _ HI) as [Hcols _].
    destruct (log_names log t) as [|n ns] eqn:El.
    + cbn [app]. unfold new_names. cbn. rewrite filter_all; auto.
    + discriminate.
  - assert (Hl : log_names log t <> []) by (apply IH; discriminate).
    destruct (log_names log t); [contradiction|discriminate].
Qed.

(* L6: what the rows of a catalogue table look like *)
Lemma batch_rows_forall : forall (P : name -> row -> Prop) b n,
  Forall (fun tb => Forall (P (tb_name tb)) (tb_rows tb)) b -> Forall (P n) (batch_rows n b).
Proof.
  intros P b n H. induction H as [|tb b H1 H2 IH]; [constructor|]. rewrite batch_rows_cons.
  apply Forall_app. split; auto. destruct (name_eqb (tb_name tb) n) eqn:E; [|constructor].
  apply name_eqb_eq in E. subst. exact H1.
Qed.

Lemma log_meta_rows : forall log n, log_ok log -> user_table n = false ->
  Forall (meta_row_ok n) (acked_rows log n).
Proof.
  intros log n H Hu. induction H as [|log full H IH S]; [constructor|].
  rewrite acked_rows_snoc. apply Forall_app. split; auto.
  destruct S as [b [extra [-> [W [M [Hx _]]]]]]. rewrite batch_rows_app. apply Forall_app. split.
  - assert (E : batch_rows n b = []).
    { pose proof (wb_user _ W) as Hb. clear - Hb Hu. induction b as [|tb b IH]; [reflexivity|].
      inversion Hb; subst. rewrite batch_rows_cons. destruct (name_eqb (tb_name tb) n) eqn:E.
      - apply name_eqb_eq in E. subst. congruence.
      - cbn. apply IH. assumption. }
    rewrite E. constructor.
  - apply (batch_rows_forall meta_row_ok). exact Hx.
Qed.

Lemma log_ok_prefix : forall a b, log_ok (a ++ b) -> log_ok a.
Proof.
  intros a b. revert a. induction b as [|x b IH] using rev_ind; intros a H.
  - rewrite app_nil_r in H. exact H.
  - rewrite app_assoc in H. remember ((a ++ b) ++ [x]) as l eqn:El.
    destruct H as [|log full H' S].
    + destruct (a ++ b); discriminate.
    + apply app_inj_tail in El. destruct El as [-> ->]. apply IH. exact H'.
Qed.
