(* Lemmas about the scheduler bookkeeping model (Model/PoolSM.v). *)
From Coq Require Import NArith List Bool Arith Lia.
From LV Require Import Model.PoolSM.
Import ListNotations.

(* ------------------------------------------------------------------------------------------- *)
(* 1. damage                                                                                    *)
(* ------------------------------------------------------------------------------------------- *)

Definition is_value (o : obs) : bool := match o with OOk | OErr => true | _ => false end.

Lemma apply_value : forall d r o, is_value o = true -> apply_obs d r o = d.
Proof. intros d r [] H; try discriminate; reflexivity. Qed.

Lemma apply_round_values : forall rd d,
  forallb (fun ro => is_value (snd ro)) rd = true -> apply_round d rd = d.
Proof.
  unfold apply_round. induction rd as [|[r o] rd IH]; intros d H; [reflexivity|].
  cbn in H. apply andb_true_iff in H as [Ho Hr]. cbn [fold_left fst snd].
  rewrite apply_value by assumption. auto.
Qed.

Lemma db_eta : forall d, {| alive := alive d; ingest_poisoned := ingest_poisoned d;
                            table_poisoned := table_poisoned d; flush_dead := flush_dead d |} = d.
Proof. destruct d; reflexivity. Qed.

Definition all_ok : list obs := [OOk; OOk; OOk; OOk].

Lemma healthy_canaries : forall d, healthy d = true -> run_canaries d canaries = (d, all_ok).
Proof.
  intros [a ip tp fd] H. unfold healthy in H. cbn in H.
  repeat (apply andb_true_iff in H as [H ?]).
  apply negb_true_iff in H. repeat match goal with X : negb _ = true |- _ => apply negb_true_iff in X end.
  subst. cbn. rewrite !H. cbn. rewrite ?H. reflexivity.
Qed.

(* the four canaries detect every modelled damage except a partially depleted pool *)
Lemma canaries_ok_healthy : forall d, snd (run_canaries d canaries) = all_ok -> healthy d = true.
Proof.
  intros [a ip tp fd]. unfold healthy. cbn.
  destruct a as [|a], ip, fd, tp; cbn; try discriminate. reflexivity.
Qed.

(* requests that return values (results or error values) leave the database exactly as it was,
   and every canary after every round succeeds *)
Lemma values_preserve : forall rounds d,
  healthy d = true ->
  forallb (forallb (fun ro => is_value (snd ro))) rounds = true ->
  run d rounds = (d, map (fun _ => all_ok) rounds).
Proof.
  induction rounds as [|rd rest IH]; intros d H V; [reflexivity|].
  cbn in V. apply andb_true_iff in V as [V1 V2].
  cbn [run map]. rewrite apply_round_values by assumption.
  rewrite healthy_canaries by assumption. cbn [existsb all_ok is_hang orb].
  rewrite IH by assumption. reflexivity.
Qed.

(* on consistent observations the checked run is the run *)
Lemma run_checked_run : forall rounds d,
  ~ In None (run_checked d rounds) -> run_checked d rounds = map Some (snd (run d rounds)).
Proof.
  induction rounds as [|rd rest IH]; intros d H; [reflexivity|].
  cbn [run_checked run] in *.
  destruct (forallb (fun ro => consistent d (fst ro) (snd ro)) rd); [|exfalso; apply H; left; reflexivity].
  destruct (run_canaries (apply_round d rd) canaries) as [d2 os].
  destruct (existsb is_hang os); [reflexivity|].
  destruct (run d2 rest) as [d3 oss] eqn:E. cbn [snd map]. f_equal.
  specialize (IH d2). rewrite E in IH. apply IH. intro I. apply H. right. exact I.
Qed.

(* damage is never repaired *)
Definition damage_le (d d' : db) : Prop :=
  alive d' <= alive d /\
  (ingest_poisoned d = true -> ingest_poisoned d' = true) /\
  (table_poisoned d = true -> table_poisoned d' = true) /\
  (flush_dead d = true -> flush_dead d' = true).

Lemma damage_le_refl : forall d, damage_le d d.
Proof. intro d. repeat split; auto. Qed.

Lemma damage_le_trans : forall a b c, damage_le a b -> damage_le b c -> damage_le a c.
Proof. intros a b c (A1 & A2 & A3 & A4) (B1 & B2 & B3 & B4). repeat split; auto; lia. Qed.

Lemma apply_monotone : forall d r o, damage_le d (apply_obs d r o).
Proof.
  intros [a ip tp fd] r o. destruct o as [| |h|n|n h|]; try (apply damage_le_refl).
  - destruct h; repeat split; cbn; auto.
  - repeat split; cbn; auto; lia.
  - destruct h, r; repeat split; cbn; auto; lia.
  - repeat split; cbn; auto.
Qed.

Lemma apply_round_monotone : forall rd d, damage_le d (apply_round d rd).
Proof.
  unfold apply_round. induction rd as [|[r o] rd IH]; intro d; [apply damage_le_refl|].
  cbn [fold_left]. eapply damage_le_trans; [apply apply_monotone|apply IH].
Qed.

Lemma run_canaries_monotone : forall l d, damage_le d (fst (run_canaries d l)).
Proof.
  induction l as [|r l IH]; intro d; [apply damage_le_refl|].
  cbn [run_canaries].
  destruct (is_hang (predict d r) && match r with RQuery => true | _ => false end).
  - cbn [fst]. apply apply_monotone.
  - destruct (run_canaries (apply_obs d r (predict d r)) l) as [d' os] eqn:E.
    cbn [fst]. eapply damage_le_trans; [apply apply_monotone|].
    specialize (IH (apply_obs d r (predict d r))). rewrite E in IH. exact IH.
Qed.

Lemma run_monotone : forall rounds d, damage_le d (fst (run d rounds)).
Proof.
  induction rounds as [|rd rest IH]; intro d; [apply damage_le_refl|].
  cbn [run]. destruct (run_canaries (apply_round d rd) canaries) as [d2 os] eqn:E.
  assert (M : damage_le d d2).
  { eapply damage_le_trans; [apply apply_round_monotone|].
    pose proof (run_canaries_monotone canaries (apply_round d rd)) as X. rewrite E in X. exact X. }
  destruct (existsb is_hang os); [exact M|].
  destruct (run d2 rest) as [d3 oss] eqn:E3. cbn [fst].
  eapply damage_le_trans; [exact M|]. specialize (IH d2). rewrite E3 in IH. exact IH.
Qed.

(* k pool-thread panics take k workers away *)
Lemma pool_panics_lose_workers : forall k d,
  alive (apply_round d (repeat (RQuery, OCanceled 1) k)) = alive d - k.
Proof.
  unfold apply_round. induction k as [|k IH]; intro d; cbn; [lia|].
  rewrite IH. cbn. lia.
Qed.

(* with no worker left every later query hangs, whatever else is fine *)
Lemma no_worker_hangs : forall d, alive d = 0 -> predict d RQuery = OHang 0 HNone /\ predict d RStats = OHang 0 HNone.
Proof. intros d H. unfold predict. rewrite H. split; reflexivity. Qed.

(* ------------------------------------------------------------------------------------------- *)
(* 2. the task queue                                                                            *)
(* ------------------------------------------------------------------------------------------- *)

Lemma pop_none : forall done q, pop done q = None -> forall t p, In (t, p) q -> mem t done = true.
Proof.
  induction q as [|[t p] r IH]; intros H t' p' I; [destruct I|].
  cbn in H. destruct (mem t done) eqn:M; [|discriminate].
  destruct I as [E|I]; [injection E as <- <-; exact M|eauto].
Qed.

Lemma pop_some : forall done q t q', pop done q = Some (t, q') ->
  measure q' < measure q /\
  mem t done = false /\
  (forall t' p', In (t', p') q -> t' = t \/ mem t' done = true \/ exists p'', In (t', p'') q') /\
  (forall t' p', In (t', p') q' -> exists p'', In (t', p'') q).
Proof.
  induction q as [|[t0 p0] r IH]; intros t q' H; [discriminate|].
  cbn in H. destruct (mem t0 done) eqn:M.
  - destruct (IH _ _ H) as (Hm & Hd & Hin & Hback). repeat split.
    + unfold measure in *. cbn [fold_right snd]. lia.
    + exact Hd.
    + intros t' p' [E|I]; [injection E as <- <-; auto|]. eauto.
    + intros t' p' I. destruct (Hback _ _ I) as (p'' & I'). exists p''. right. exact I'.
  - injection H as <- <-. repeat split.
    + unfold measure. destruct p0 as [|[|p0]]; cbn [fold_right snd Nat.ltb Nat.leb]; cbn; lia.
    + exact M.
    + intros t' p' [E|I]; [injection E as <- <-; auto|].
      right. right. exists p'. destruct p0 as [|[|p0]]; cbn; auto.
    + intros t' p' I. destruct p0 as [|[|p0]]; cbn in I.
      * exists p'. right. exact I.
      * exists p'. right. exact I.
      * destruct I as [E|I]; [injection E as <- <-; eexists; left; reflexivity|exists p'; right; exact I].
Qed.

Lemma mem_in : forall t l, mem t l = true <-> In t l.
Proof.
  intros t l. unfold mem. rewrite existsb_exists. split.
  - intros (x & I & E). apply Nat.eqb_eq in E. subst. exact I.
  - intro I. exists t. split; [exact I|apply Nat.eqb_refl].
Qed.

Lemma iter_succ_r : forall (A : Type) n (f : A -> A) x, Nat.iter (S n) f x = Nat.iter n f (f x).
Proof.
  induction n as [|n IH]; intros f x; [reflexivity|].
  change (Nat.iter (S (S n)) f x) with (f (Nat.iter (S n) f x)). rewrite IH. reflexivity.
Qed.

Lemma worker_iter_done_grows : forall s, incl (pdone s) (pdone (worker_iter s)).
Proof.
  intros s. unfold worker_iter. destruct (pop (pdone s) (pq s)) as [[t q']|]; cbn; [|apply incl_refl].
  apply incl_tl, incl_refl.
Qed.

Lemma iter_done_grows : forall n s, incl (pdone s) (pdone (Nat.iter n worker_iter s)).
Proof.
  induction n as [|n IH]; intro s; [apply incl_refl|].
  rewrite iter_succ_r. eapply incl_tran; [apply worker_iter_done_grows|apply IH].
Qed.

(* progress: as long as a live worker keeps iterating and no task panics, the queue drains and
   every scheduled task is answered; the number of iterations is bounded by the queue's measure *)
Lemma progress : forall fuel s, measure (pq s) <= fuel ->
  pq (Nat.iter fuel worker_iter s) = [] /\
  forall t p, In (t, p) (pq s) -> In t (pdone (Nat.iter fuel worker_iter s)).
Proof.
  induction fuel as [|fuel IH]; intros s M.
  - destruct (pq s) as [|[t p] r] eqn:Q; [split; [exact Q|intros ? ? []]|cbn in M; lia].
  - rewrite iter_succ_r. unfold worker_iter at 2 4.
    destruct (pop (pdone s) (pq s)) as [[t q']|] eqn:P.
    + destruct (pop_some _ _ _ _ P) as (Hm & Hd & Hin & Hback).
      specialize (IH {| pq := q'; pdone := t :: pdone s |}). cbn [pq pdone] in IH.
      destruct IH as [E D]; [lia|]. split; [exact E|].
      intros t' p' I. destruct (Hin _ _ I) as [->|[Md|(p'' & I')]].
      * apply (iter_done_grows fuel {| pq := q'; pdone := t :: pdone s |}). left. reflexivity.
      * apply (iter_done_grows fuel {| pq := q'; pdone := t :: pdone s |}). right. apply mem_in. exact Md.
      * eapply D. exact I'.
    + specialize (IH {| pq := []; pdone := pdone s |}). cbn [pq pdone] in IH.
      destruct IH as [E D]; [cbn; lia|]. split; [exact E|].
      intros t' p' I. apply (iter_done_grows fuel {| pq := []; pdone := pdone s |}).
      apply mem_in. eapply pop_none; eauto.
Qed.

(* a panicking task consumes its entry and answers nobody *)
Lemma panic_iter_answers_nobody : forall s, pdone (worker_iter_panic s) = pdone s.
Proof. intro s. unfold worker_iter_panic. destruct (pop (pdone s) (pq s)) as [[t q']|]; reflexivity. Qed.

(* ------------------------------------------------------------------------------------------- *)
(* 3. the force_flush hand-shake                                                                *)
(* ------------------------------------------------------------------------------------------- *)

Lemma flush_answers_pending : forall s forced, stuck s = false -> pending s <> [] ->
  let s' := flush_iter forced false s in
  pending s' = [] /\ flushes s' = S (flushes s) /\ stuck s' = false /\
  forall c, In c (pending s) -> In (c, S (flushes s)) (released s').
Proof.
  intros s forced St P. unfold flush_iter. rewrite St.
  destruct (pending s) as [|c0 r] eqn:E; [contradiction|]. cbn [pending flushes stuck released].
  repeat split; auto. intros c I. apply in_or_app. right.
  apply (in_map (fun c => (c, S (flushes s)))) in I. exact I.
Qed.

Lemma flush_keeps_released : forall s forced b c n, In (c, n) (released s) -> In (c, n) (released (flush_iter forced b s)).
Proof.
  intros s forced b c n I. unfold flush_iter. destruct (stuck s); [exact I|].
  destruct (pending s) as [|c0 r]; destruct forced, b; cbn; auto; apply in_or_app; left; exact I.
Qed.

(* a caller registering while a flush runs is not answered by that flush but by the next one *)
Lemma late_caller_waits_one_more : forall s c forced,
  stuck s = false -> pending s <> [] ->
  let s1 := trigger (flush_iter forced false s) c in
  pending s1 = [c] /\ In (c, S (S (flushes s))) (released (flush_iter false false s1)).
Proof.
  intros s c forced St P.
  destruct (flush_answers_pending s forced St P) as (E & F & St' & _).
  cbn zeta. remember (flush_iter forced false s) as s0 eqn:Es0. clear Es0.
  unfold trigger. cbn [pending]. rewrite E. cbn [app]. split; [reflexivity|].
  unfold flush_iter. cbn [stuck pending released flushes]. rewrite St'. cbn [map].
  rewrite F. apply in_or_app. right. left. reflexivity.
Qed.

(* once a flush job has panicked the flush thread never answers anybody again *)
Lemma stuck_is_forever : forall s forced b, stuck s = true -> flush_iter forced b s = s /\ shutdown s = s.
Proof. intros s forced b H. unfold flush_iter, shutdown. rewrite H. split; reflexivity. Qed.

Lemma job_panic_sticks : forall s forced, stuck s = false -> pending s <> [] ->
  stuck (flush_iter forced true s) = true /\ released (flush_iter forced true s) = released s.
Proof.
  intros s forced St P. unfold flush_iter. rewrite St.
  destruct (pending s) as [|c0 r]; [contradiction|]. cbn. split; reflexivity.
Qed.

Lemma shutdown_answers_all : forall s, stuck s = false ->
  pending (shutdown s) = [] /\ forall c, In c (pending s) -> exists n, In (c, n) (released (shutdown s)).
Proof.
  intros s St. unfold shutdown. rewrite St. cbn. split; [reflexivity|].
  intros c I. exists (flushes s). apply in_or_app. right. apply in_map_iff. exists c. auto.
Qed.
