(* The list functions of Model/QuerySpecList.v are the standard-library ones. *)
From Coq Require Import List.
From LV Require Import Model.QuerySpecList.

Lemma qmap_eq A B : @qmap A B = @map A B. Proof. reflexivity. Qed.
Lemma qnth_eq A : @qnth A = @nth A. Proof. reflexivity. Qed.
Lemma qrev_append_eq A : @qrev_append A = @rev_append A. Proof. reflexivity. Qed.
Lemma qrev_eq A (l : list A) : qrev l = rev l.
Proof. unfold qrev. rewrite qrev_append_eq. symmetry. apply rev_alt. Qed.
Lemma qcombine_eq A B : @qcombine A B = @combine A B. Proof. reflexivity. Qed.
Lemma qfirstn_eq A : @qfirstn A = @firstn A. Proof. reflexivity. Qed.
Lemma qskipn_eq A : @qskipn A = @skipn A. Proof. reflexivity. Qed.
Lemma qfold_left_eq A B : @qfold_left A B = @fold_left A B. Proof. reflexivity. Qed.
Lemma qfold_right_eq A B : @qfold_right A B = @fold_right A B. Proof. reflexivity. Qed.
Lemma qfilter_eq A : @qfilter A = @filter A. Proof. reflexivity. Qed.
Lemma qexistsb_eq A : @qexistsb A = @existsb A. Proof. reflexivity. Qed.
Lemma qforallb_eq A : @qforallb A = @forallb A. Proof. reflexivity. Qed.
Lemma qconcat_eq A : @qconcat A = @concat A. Proof. reflexivity. Qed.

Ltac qlist :=
  repeat first
    [ rewrite qmap_eq | rewrite qnth_eq | rewrite qrev_eq | rewrite qrev_append_eq
    | rewrite qcombine_eq | rewrite qfirstn_eq | rewrite qskipn_eq | rewrite qfold_left_eq
    | rewrite qfold_right_eq | rewrite qfilter_eq | rewrite qexistsb_eq | rewrite qforallb_eq
    | rewrite qconcat_eq ].
Ltac qlist_in H :=
  repeat first
    [ rewrite qmap_eq in H | rewrite qnth_eq in H | rewrite qrev_eq in H
    | rewrite qrev_append_eq in H | rewrite qcombine_eq in H | rewrite qfirstn_eq in H
    | rewrite qskipn_eq in H | rewrite qfold_left_eq in H | rewrite qfold_right_eq in H
    | rewrite qfilter_eq in H | rewrite qexistsb_eq in H | rewrite qforallb_eq in H
    | rewrite qconcat_eq in H ].
