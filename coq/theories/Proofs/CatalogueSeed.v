(* Catalogue, part 7: the column-name sets of the catalogue tables themselves.  Table::new seeds
   them by name; they are never unloaded and only ever grow, so in every reachable state the set
   of a _meta_columns_* table contains the seed literal and that of _meta_tables its two columns. *)
From Coq Require Import NArith ZArith List Bool Lia.
From LV Require Import Model.TableSM Model.Catalogue Model.WalSM
     Proofs.TableSM Proofs.WalSMBase Proofs.WalSM Proofs.WalSMLog Proofs.Catalogue
     Proofs.CatalogueLog Proofs.CatalogueInv Proofs.CatalogueFlush Proofs.CatalogueRecover.
Import ListNotations.
Open Scope N_scope.

Definition seeded (seed n : name) (cs : list name) : Prop :=
  (is_meta_columns n = true -> In seed cs) /\
  (n = s_meta_tables -> In s_timestamp cs /\ In s_name cs).

Definition SeededT (seed : name) (l : tabsT) : Prop :=
  forall n t, user_table n = false -> lookup n l = Some t -> exists cs, t_cols t = Some cs /\ seeded seed n cs.

Lemma seeded_add : forall seed n cs l, seeded seed n cs -> seeded seed n (add_names cs l).
Proof.
  intros seed n cs l [H1 H2]. split.
  - intro H. apply add_names_in. left. auto.
  - intro H. destruct (H2 H). split; apply add_names_in; left; auto.
Qed.

Lemma seed_cols_seeded : forall seed n d, user_table n = false ->
  exists cs, seed_cols seed n d = Some cs /\ seeded seed n cs.
Proof.
  intros seed n d H. unfold user_table in H. unfold seed_cols.
  destruct (is_meta_columns n) eqn:E1.
  - exists [seed]. split; auto. split; [intros _; left; reflexivity|]. intros ->. vm_compute in E1. discriminate E1.
  - destruct (is_meta_tables n) eqn:E2; [|cbn in H; discriminate].
    exists [s_timestamp; s_name]. split; auto. split; [intro Hc; congruence|]. intros _. cbn. auto.
Qed.

Lemma seededT_create : forall seed n l l' b,
  SeededT seed l -> create_if_empty seed n l = (l', b) -> SeededT seed l'.
Proof.
  intros seed n l l' b S E m t Hu L. destruct (create_if_empty_spec _ _ _ _ _ E) as [_ [H2 [H3 _]]].
  destruct (lookup m l) as [t0|] eqn:L0.
  - rewrite (H2 _ _ L0) in L. injection L as <-. eapply S; eauto.
  - destruct (list_eq_dec N.eq_dec m n) as [->|Hne]; [|rewrite (H3 _ L0 Hne) in L; discriminate].
    unfold create_if_empty in E. rewrite L0 in E. injection E as <- _.
    rewrite lookup_app_new, L0, name_eqb_refl in L. injection L as <-. cbn [t_cols empty_table].
    apply seed_cols_seeded. exact Hu.
Qed.

Lemma seededT_ensure : forall seed n l l', SeededT seed l -> ensure_cols n l = Val l' -> SeededT seed l'.
Proof.
  intros seed n l l' S E. unfold ensure_cols in E. destruct (lookup n l) as [t|] eqn:L; [|discriminate].
  destruct (t_cols t) eqn:Ec; [injection E as <-; exact S|].
  destruct (lookup (meta_columns_of n) l); [|discriminate].
  destruct (string_column s_column_name (table_content t0)); [|discriminate]. injection E as <-.
  intros m tm Hu Lm. destruct (list_eq_dec N.eq_dec m n) as [->|Hne].
  - destruct (S _ _ Hu L) as [cs [Hc _]]. congruence.
  - rewrite lookup_upd_other in Lm; auto.
Qed.

Lemma seededT_upd : forall seed l n t t',
  SeededT seed l -> lookup n l = Some t ->
  (user_table n = false -> forall cs, t_cols t = Some cs -> seeded seed n cs ->
     exists cs', t_cols t' = Some cs' /\ seeded seed n cs') ->
  SeededT seed (upd n t' l).
Proof.
  intros seed l n t t' S L H m tm Hu Lm. destruct (list_eq_dec N.eq_dec m n) as [->|Hne].
  - rewrite (lookup_upd_same _ _ _ _ L) in Lm. injection Lm as <-.
    destruct (S _ _ Hu L) as [cs [Hc Hs]]. eapply H; eauto.
  - rewrite lookup_upd_other in Lm; auto.
Qed.

Lemma seededT_ingest_rows : forall seed l n t cols rows t',
  SeededT seed l -> lookup n l = Some t -> ingest_rows t cols rows = Some t' -> SeededT seed (upd n t' l).
Proof.
  intros seed l n t cols rows t' S L E. eapply seededT_upd; eauto.
  intros Hu cs Hc Hs. unfold ingest_rows in E. rewrite Hc in E. injection E as <-.
  eexists. split; [reflexivity|]. apply seeded_add. exact Hs.
Qed.

Lemma seededT_apply_batch : forall seed b l l', SeededT seed l -> apply_batch b l = Val l' -> SeededT seed l'.
Proof.
  induction b as [|tb b IH]; cbn [apply_batch]; intros l l' S.
  - intro H. injection H as <-. exact S.
  - destruct (lookup (tb_name tb) l) as [t|] eqn:L; [|discriminate].
    destruct (ingest_rows t (tb_cols tb) (tb_rows tb)) as [t'|] eqn:E; [|discriminate].
    apply IH. eapply seededT_ingest_rows; eauto.
Qed.

Lemma seededT_replay_batch : forall seed b l l', SeededT seed l -> replay_batch seed b l = Val l' -> SeededT seed l'.
Proof.
  induction b as [|tb b IH]; cbn [replay_batch]; intros l l' S.
  - intro H. injection H as <-. exact S.
  - destruct (create_if_empty seed (tb_name tb) l) as [l1 c1] eqn:E1.
    destruct (ensure_cols (tb_name tb) l1) as [l2| | | |] eqn:E2; cbn [bind]; try discriminate.
    destruct (lookup (tb_name tb) l2) as [t|] eqn:L; [|discriminate].
    destruct (ingest_rows t (tb_cols tb) (tb_rows tb)) as [t'|] eqn:E; [|discriminate].
    apply IH. pose proof (seededT_create _ _ _ _ _ S E1) as S1.
    pose proof (seededT_ensure _ _ _ _ S1 E2) as S2. eapply seededT_ingest_rows; eauto.
Qed.

Lemma seededT_replay : forall seed w ex l l', SeededT seed l -> replay seed w ex l = Val l' -> SeededT seed l'.
Proof.
  induction w as [|[id sg] w IH]; cbn [replay]; intros ex l l' S.
  - intro H. injection H as <-. exact S.
  - destruct (match ex with Some e => id =? e | None => true end); [|discriminate].
    destruct (replay_batch seed (sg_data sg) l) as [l1| | | |] eqn:E; cbn [bind]; try discriminate.
    apply IH. eapply seededT_replay_batch; eauto.
Qed.

Lemma seededT_prepare : forall seed b l created colrows l' created' colrows',
  SeededT seed l -> prepare seed b l created colrows = Val (l', created', colrows') -> SeededT seed l'.
Proof.
  induction b as [|tb b IH]; cbn [prepare]; intros l created colrows l' created' colrows' S.
  - intro H. injection H as E _ _. subst. exact S.
  - destruct (create_if_empty seed (tb_name tb) l) as [l1 c1] eqn:E1.
    destruct (create_if_empty seed (meta_columns_of (tb_name tb)) l1) as [l2 c2] eqn:E2.
    destruct (ensure_cols (tb_name tb) l2) as [l3| | | |] eqn:E3; cbn [bind]; try discriminate.
    destruct (lookup (tb_name tb) l3); [|discriminate]. destruct (t_cols t); [|discriminate].
    apply IH. pose proof (seededT_create _ _ _ _ _ S E1) as S1. pose proof (seededT_create _ _ _ _ _ S1 E2) as S2.
    eapply seededT_ensure; eauto.
Qed.

Lemma seededT_map : forall seed st f l l',
  (forall t t', f t = Some t' -> t_cols t' = t_cols t) ->
  SeededT seed l -> map_tabs st f l = Val l' -> SeededT seed l'.
Proof.
  intros seed st f l l' Hf S E. apply map_tabs_spec in E. destruct E as [_ [Sp N]].
  intros n t' Hu L'. destruct (lookup n l) as [t|] eqn:L; [|rewrite (N _ L) in L'; discriminate].
  destruct (Sp _ _ L) as [t'' [F L'']]. rewrite L' in L''. injection L'' as <-.
  rewrite (Hf _ _ F). eapply S; eauto.
Qed.

Lemma seededT_flush_table : forall seed c o n l l',
  SeededT seed l -> flush_table true c o n l = Val l' -> SeededT seed l'.
Proof.
  intros seed c o n l l' S. unfold flush_table. destruct (lookup n l) as [t|] eqn:L; [|discriminate].
  set (t1 := batch_table (fst (sizes_for o n)) t).
  assert (S1 : SeededT seed (upd n t1 l)).
  { eapply seededT_upd; eauto. intros Hu cs Hc Hs. exists cs. split; auto. unfold t1.
    rewrite batch_table_cols. exact Hc. }
  destruct (plan_compaction (c_factor c) (t_parts t1)); try discriminate.
  - intro H. injection H as <-. exact S1.
  - destruct (ensure_cols n (upd n t1 l)) as [l1| | | |] eqn:Ee; cbn [bind]; try discriminate.
    pose proof (seededT_ensure _ _ _ _ S1 Ee) as S2.
    destruct (lookup n l1) as [t2|] eqn:L2; [|discriminate].
    destruct (t_cols t2) as [cols|] eqn:Ec; [|discriminate].
    destruct (compact true (snd (sizes_for o n)) i cols t2) as [t3| |] eqn:Ecp; cbn [lift_t bind]; try discriminate.
    intro H. injection H as <-. destruct (compact_content _ _ _ _ _ Ecp) as [_ E2].
    eapply seededT_upd; eauto. intros Hu cs Hc Hs. exists cs. split; auto. congruence.
Qed.

Lemma seededT_flush_tables : forall seed c o names l l',
  SeededT seed l -> flush_tables true c o names l = Val l' -> SeededT seed l'.
Proof.
  induction names as [|n names IH]; cbn [flush_tables]; intros l l' S.
  - intro H. injection H as <-. exact S.
  - destruct (flush_table true c o n l) as [l1| | | |] eqn:E; cbn [bind]; try discriminate.
    apply IH. eapply seededT_flush_table; eauto.
Qed.

Lemma seededT_restore : forall seed l l0, restore_tables seed l = Val l0 -> SeededT seed l0.
Proof.
  intros seed l l0 E n t Hu L. rewrite (restore_tables_cols_gen seed l l0 E n t L).
  apply seed_cols_seeded. exact Hu.
Qed.

Lemma ensure_cols_shape_known : forall n (l : tabsT) k, ensure_cols n l = Known k -> False.
Proof.
  intros n l k. unfold ensure_cols. destruct (lookup n l); [|discriminate].
  destruct (t_cols t); [discriminate|]. destruct (lookup (meta_columns_of n) l); [|discriminate].
  destruct (string_column s_column_name (table_content t0)); discriminate.
Qed.
