(* Crash cuts, part 3: every prefix of the effects of a flush (and of a recovery) recovers to the
   acknowledged content. *)
From Coq Require Import NArith ZArith List Bool Lia.
From LV Require Import Model.TableSM Model.Catalogue Model.WalSM Model.CrashSM
     Proofs.TableSM Proofs.WalSMBase Proofs.WalSM Proofs.WalSMLog Proofs.CrashSM Proofs.CrashSMCuts.
Import ListNotations.
Open Scope N_scope.

Lemma flush_mid_spec : forall c o s l1, Inv s -> flush_mid true c o s = Val l1 ->
  keys l1 = keys (tabs s) /\
  forall n t, lookup n (tabs s) = Some t ->
    exists t0 t1, freeze t = Some t0 /\ lookup n l1 = Some t1 /\ flushed t0 t1.
Proof.
  intros c o s l1 I. unfold flush_mid.
  destruct (freeze_all (tabs s)) as [l0| | | |] eqn:E0; cbn [bind]; try discriminate.
  intro E1. unfold freeze_all in E0. apply map_tabs_spec in E0. destruct E0 as [K0 [S0 N0]].
  assert (ND0 : NoDup (keys l0)) by (rewrite K0; apply (i_keys _ I)).
  assert (Hpre : forall n, In n (map fst l0) -> exists t, lookup n l0 = Some t /\ tpre t).
  { intros n HI. fold (keys l0) in HI. rewrite K0 in HI.
    destruct (lookup_in_some _ _ HI) as [t Lt]. destruct (S0 _ _ Lt) as [t0 [F0 L0]].
    exists t0. split; auto.
    pose proof (i_tabs _ I n) as T. unfold view in T. rewrite Lt in T.
    destruct (freeze_spec _ T) as [t0' [F0' [_ [_ [Hp [Hi [Ho [_ [Hf [_ Hd]]]]]]]]]].
    rewrite F0 in F0'. injection F0' as <-.
    destruct T as [[T1 T2 T3] T4 _ _ T7].
    constructor; [constructor|..].
    - rewrite Hp, Ho. exact T1.
    - rewrite Hp, Hi. exact T2.
    - rewrite Hp. exact T3.
    - congruence.
    - congruence. }
  destruct (flush_tables_spec _ _ _ _ _ ND0 Hpre E1) as [K1 [_ F1]].
  split; [congruence|]. intros n t Lt. destruct (S0 _ _ Lt) as [t0 [F0 L0]].
  assert (HI : In n (map fst l0)) by (eapply lookup_some_in; eauto).
  destruct (F1 _ _ HI L0) as [t1 [L1 Fl]]. exists t0, t1. auto.
Qed.

(* per-table facts about the state after batching and compaction *)
Record mid_facts (t t1 : tstate) : Prop := {
  mf_meta : t_meta t1 = t_meta t;
  mf_files : exists added, t_files t1 = t_files t ++ added /\ added_files t1 = added /\
             Forall (fun f => t_next_id t <= fst f) added /\ NoDup (map fst added);
  mf_mid : tmid t1;
  mf_rows : part_rows (t_parts t1) = table_content t
}.

Lemma skipn_app_exact : forall {A} (a b : list A), skipn (length a) (a ++ b) = b.
Proof. induction a as [|x a IH]; cbn; auto. Qed.

Lemma mid_facts_of : forall t t0 t1, tinv t -> freeze t = Some t0 -> flushed t0 t1 -> mid_facts t t1.
Proof.
  intros t t0 t1 T F [Mid Hr Hb Hm [added [Ef [Fa [Na Ln]]]]].
  destruct (freeze_spec _ T) as [t0' [F' [Hb0 [Hf0 [Hp0 [Hi0 [Ho0 [_ [Hfi0 [Hm0 _]]]]]]]]]].
  rewrite F in F'. injection F' as <-.
  constructor; auto.
  - congruence.
  - exists added. rewrite Ef, Hfi0. split; [reflexivity|]. split.
    + unfold added_files. rewrite Ef, Hfi0, Hm, Hm0, (ti_meta _ T), (ti_files _ T), !map_length.
      rewrite <- (map_length file_of (t_parts t)). apply skipn_app_exact.
    + split; auto. eapply Forall_impl; [|exact Fa]. cbn. intros f [H _]. rewrite <- Hi0. exact H.
  - unfold table_content. rewrite Hr, Hp0, Hf0, (ti_frozen _ T). cbn [app]. reflexivity.
Qed.

Lemma in_find_file_map : forall id ps, In id (map p_id ps) -> exists r, find_file id (map file_of ps) = Some r.
Proof.
  induction ps as [|p ps IH]; cbn; intro H; [tauto|].
  destruct (p_id p =? id) eqn:E; eauto. apply N.eqb_neq in E. destruct H as [H|H]; [congruence|auto].
Qed.

Lemma dead_not_part : forall t1 id, tmid t1 -> In id (t_dead t1) -> ~ In id (map p_id (t_parts t1)).
Proof.
  intros t1 id [_ Hf _] HI HP. apply (delete_files_gone _ _ _ _ Hf) in HI.
  destruct (in_find_file_map _ _ HP) as [r E]. congruence.
Qed.

(* NoDup of the keys of the stores *)
Lemma nodup_store_keys : forall (l1 : tabsT),
  NoDup (keys l1) -> (forall n t1, In (n, t1) l1 -> NoDup (map fst (added_files t1))) ->
  NoDup (map store_key (part_stores l1)).
Proof.
  induction l1 as [|[n t1] l1 IH]; intros ND H; [constructor|].
  unfold part_stores. cbn [flat_map fst snd]. rewrite map_app.
  inversion ND as [|? ? Hn ND']; subst.
  assert (E : map store_key (map (fun f => EPartStore n (fst f) (snd f)) (added_files t1))
              = map (fun f => (n, fst f)) (added_files t1)).
  { rewrite map_map. reflexivity. }
  rewrite E. fold (part_stores l1).
  assert (N1 : NoDup (map (fun f : N * list row => (n, fst f)) (added_files t1))).
  { pose proof (H n t1 (or_introl eq_refl)) as Hd. clear - Hd.
    induction (added_files t1) as [|f fs IHf]; cbn in *; [constructor|].
    inversion Hd; subst. constructor; auto.
    intro HI. apply in_map_iff in HI. destruct HI as [g [Eg HI]]. injection Eg as Eg.
    apply H1. rewrite <- Eg. apply in_map. exact HI. }
  assert (N2 : NoDup (map store_key (part_stores l1))).
  { apply IH; auto. intros; eapply H; right; eauto. }
  assert (D : forall x, In x (map (fun f : N * list row => (n, fst f)) (added_files t1)) ->
                        In x (map store_key (part_stores l1)) -> False).
  { intros x H1 H2. apply in_map_iff in H1. destruct H1 as [f [<- _]].
    apply in_map_iff in H2. destruct H2 as [e [Ee He]]. unfold part_stores in He.
    apply in_flat_map in He. destruct He as [[n' t'] [Hl He]]. apply in_map_iff in He.
    destruct He as [g [<- _]]. cbn in Ee. injection Ee as En _. subst n'.
    apply Hn. change n with (fst (n, t')). apply in_map. exact Hl. }
  clear - N1 N2 D. induction (map (fun f : N * list row => (n, fst f)) (added_files t1)) as [|x xs IHx]; cbn; auto.
  inversion N1; subst. constructor.
  - intro HI. apply in_app_or in HI. destruct HI as [HI|HI]; [contradiction|].
    eapply D; [left; reflexivity|exact HI].
  - apply IHx; auto. intros y Hy. apply D. right. exact Hy.
Qed.

Lemma sublist_nodup_firstn : forall {A} (l : list A) k, NoDup l -> NoDup (firstn k l).
Proof.
  intros A l k H. rewrite <- (firstn_skipn k l) in H. eapply nodup_app_l. exact H.
Qed.

Lemma firstn_in : forall {A} (l : list A) k x, In x (firstn k l) -> In x l.
Proof. intros A l k x H. rewrite <- (firstn_skipn k l). apply in_or_app. left. exact H. Qed.

Lemma seq_ids_lt : forall k a x, In x (seq_ids a k) -> a <= x /\ x < a + N.of_nat k.
Proof.
  induction k as [|k IH]; cbn; intros a x H; [tauto|].
  destruct H as [<-|H]; [lia|]. apply IH in H. lia.
Qed.

(* recovery on a frame-B directory gives the content of [s] *)
Lemma recover_frame_b : forall c s l1 d, Inv s -> frame_b s l1 d ->
  NoDup (keys l1) -> keys l1 = keys (tabs s) ->
  (forall n t1, lookup n l1 = Some t1 -> part_rows (t_parts t1) = content s n) ->
  recovers (recover_c c d) (content s).
Proof.
  intros c s l1 d I [Bt Bk Bc Bw Ba] ND K HR. unfold recover_c.
  set (s1 := cd_db d).
  assert (Ekept : kept s1 = []).
  { unfold kept, cursor_of. fold s1 in Bc. rewrite Bc. rewrite filter_none; [reflexivity|].
    intros x HI. apply Bw in HI. apply N.leb_gt.
    assert (Hx : In (fst x) (seqN (earliest s) (length (d_wal s)))).
    { rewrite <- (i_ids _ I). apply in_map. exact HI. }
    rewrite (i_next _ I). clear - Hx. revert Hx. generalize (earliest s). induction (length (d_wal s)) as [|k IH]; cbn; intros a H; [tauto|].
    destruct H as [<-|H]; [lia|]. apply IH in H. lia. }
  destruct (recover_durable_nolog c s1) as [s' [R C]].
  - unfold s1. rewrite Bk. exact ND.
  - intros n t' L'. assert (HI : In n (keys l1)). { rewrite <- Bk. eapply lookup_some_in. exact L'. }
    destruct (lookup_in_some _ _ HI) as [t1 L1]. destruct (Ba _ _ L1) as [t'' [L'' [Hm Hf]]].
    fold s1 in L''. rewrite L' in L''. injection L'' as <-.
    exists (t_parts t1). rewrite Hm. apply restore_parts_spec. exact Hf.
  - exact Ekept.
  - exists s'. split; auto. intro n. rewrite C. unfold view.
    destruct (lookup n l1) as [t1|] eqn:L1.
    + destruct (Ba _ _ L1) as [t' [L' [Hm Hf]]]. fold s1 in L'. rewrite L'.
      rewrite durable_part_rows_meta, Hm, (meta_rows_parts _ _ Hf). apply HR. exact L1.
    + assert (L' : lookup n (tabs s1) = None).
      { apply lookup_none. unfold s1. rewrite Bk. apply lookup_none. exact L1. }
      rewrite L'. cbn. unfold content.
      assert (Ls : lookup n (tabs s) = None). { apply lookup_none. rewrite <- K. apply lookup_none. exact L1. }
      rewrite Ls. reflexivity.
Qed.

(* ---------------------------------------------------------------------------------------------- *)

(* the two kinds of directory a cut of a flush leaves *)
Definition frame_b_ok (s : db) (l1 : tabsT) (d : cdisk) : Prop :=
  frame_b s l1 d /\ NoDup (keys l1) /\ keys l1 = keys (tabs s) /\
  (forall n t1, lookup n l1 = Some t1 -> part_rows (t_parts t1) = content s n).

Definition flush_frame (s : db) (l1 : tabsT) (d : cdisk) : Prop := frame_a s d \/ frame_b_ok s l1 d.

Lemma recover_flush_frame : forall c s l1 d, Inv s -> flush_frame s l1 d ->
  good_recovery (recover_c c d) (content s).
Proof.
  intros c s l1 d I [FA|[FB [ND [K HR]]]].
  - apply recover_frame_a; auto.
  - left. eapply recover_frame_b; eauto.
Qed.

Theorem flush_cut_frame : forall c o s l1 k,
  Inv s -> flush_mid true c o s = Val l1 ->
  flush_frame s l1 (cut (at_rest s) (flush_effects s l1) k).
Proof.
  intros c o s l1 k I H.
  destruct (flush_mid_spec _ _ _ _ I H) as [K HF].
  assert (ND1 : NoDup (keys l1)) by (rewrite K; apply (i_keys _ I)).
  (* facts per table *)
  assert (MF : forall n t1, lookup n l1 = Some t1 ->
            exists t, lookup n (tabs s) = Some t /\ tinv t /\ mid_facts t t1).
  { intros n t1 L1. assert (HI : In n (keys (tabs s))). { rewrite <- K. eapply lookup_some_in; eauto. }
    destruct (lookup_in_some _ _ HI) as [t Lt]. destruct (HF _ _ Lt) as [t0 [t1' [F0 [L1' Fl]]]].
    rewrite L1 in L1'. injection L1' as <-.
    pose proof (i_tabs _ I n) as T. unfold view in T. rewrite Lt in T.
    exists t. split; auto. split; auto. eapply mid_facts_of; eauto. }
  assert (MFin : forall n t1, In (n, t1) l1 -> lookup n l1 = Some t1) by (intros; apply in_lookup; auto).
  (* the stores are fresh and pairwise distinct *)
  assert (Hfresh : forall e, In e (part_stores l1) -> fresh_store s e).
  { intros e He. unfold part_stores in He. apply in_flat_map in He. destruct He as [[n t1] [Hl He]].
    apply in_map_iff in He. destruct He as [f [<- Hf]]. cbn [fst snd] in *.
    destruct (MF _ _ (MFin _ _ Hl)) as [t [Lt [T [Mm [added [Ef [Ea [Fa Na]]]] _ _]]]].
    exists n, (fst f), (snd f), t. split; auto. split; auto.
    rewrite Ea in Hf. rewrite Forall_forall in Fa. apply Fa in Hf.
    rewrite (ti_meta _ T), map_map. cbn [pmeta_of pm_id]. intro HI.
    destruct T as [[_ Ti _] _ _ _ _]. apply in_map_iff in HI. destruct HI as [p [Ep HI]].
    rewrite Forall_forall in Ti. apply Ti in HI. lia. }
  assert (Hnd : NoDup (map store_key (part_stores l1))).
  { apply nodup_store_keys; auto. intros n t1 Hl.
    destruct (MF _ _ (MFin _ _ Hl)) as [t [_ [_ [_ [added [_ [Ea [_ Na]]]] _ _]]]]. rewrite Ea. exact Na. }
  unfold cut, flush_effects. rewrite firstn_app. unfold apply_effs. rewrite fold_left_app.
  fold (apply_effs (at_rest s) (firstn k (part_stores l1))).
  set (dA := apply_effs (at_rest s) (firstn k (part_stores l1))).
  (* the state after the stores applied so far *)
  destruct (apply_stores_frame s (firstn k (part_stores l1)) (at_rest s) [] (frame_a_rest s)) as [FA SA].
  { intros e []. }
  { cbn [app]. rewrite <- firstn_map. apply sublist_nodup_firstn. exact Hnd. }
  { intros e He. apply Hfresh. eapply firstn_in. exact He. }
  fold dA in FA, SA.
  remember (k - length (part_stores l1))%nat as j eqn:Ej.
  destruct j as [|j'].
  - (* not all stores done, or exactly all and nothing more *)
    cbn [firstn fold_left]. left. exact FA.
  - (* all stores done, the catalogue file replaced, some removals done *)
    assert (Hall : firstn k (part_stores l1) = part_stores l1).
    { apply firstn_all2. lia. }
    cbn [app firstn fold_left]. fold (apply_effs (apply_eff dA (EMetaStore (next_wal s) (new_metas l1)))
                                          (firstn j' (part_removes l1 ++ wal_removes (earliest s) (next_wal s)))).
    right. split; [|split; [exact ND1|split; [exact K|]]].
    + apply apply_removes_frame_b.
      * (* the state right after the catalogue file was replaced *)
        destruct FA as [Ft Fk Fc Fw Fa]. cbn [apply_eff].
        constructor; db_simpl; auto.
        -- rewrite (keys_map_tabs (fun n t => set_tmeta t (metas_for n (new_metas l1)))). congruence.
        -- intros x Hx. rewrite Fw in Hx. exact Hx.
        -- intros n t1 L1. destruct (MF _ _ L1) as [t [Lt [T [Mm [added [Ef [Ea [Fad Na]]]] Mid Mr]]]].
           destruct (Fa _ _ Lt) as [tA [LA [HmA HfA]]].
           rewrite (lookup_map_tabs (fun n t => set_tmeta t (metas_for n (new_metas l1)))), LA. cbn [option_map].
           eexists. split; [reflexivity|]. cbn [t_meta t_files set_tmeta].
           split; [rewrite metas_for_new_metas, L1; reflexivity|].
           intros p Hp.
           (* the file of p is in the directory of t1, i.e. an old file or an added one *)
           assert (Hin : In (file_of p) (t_files t1)).
           { eapply delete_files_incl; [apply (tm_files _ Mid)|]. apply in_map. exact Hp. }
           rewrite Ef in Hin. apply in_app_or in Hin. destruct Hin as [Hin|Hin].
           ++ rewrite (ti_files _ T) in Hin. apply in_map_iff in Hin. destruct Hin as [q [Eq Hq]].
              unfold file_of in Eq. injection Eq as Eid Erows.
              assert (Hm : In (pmeta_of q) (t_meta t)) by (rewrite (ti_meta _ T); apply in_map; exact Hq).
              specialize (HfA _ Hm). cbn [pmeta_of pm_id] in HfA. rewrite <- Eid, HfA, (ti_files _ T), <- Erows.
              apply find_file_map; auto. apply (tc_nodup _ (ti_core _ T)).
           ++ assert (He : In (EPartStore n (p_id p) (p_rows p)) (part_stores l1)).
              { unfold part_stores. apply in_flat_map. exists (n, t1). split.
                - clear - L1. induction l1 as [|[k v] l1 IH]; cbn in *; [discriminate|].
                  destruct (name_eqb n k) eqn:E; [apply name_eqb_eq in E; subst; injection L1 as ->; auto|auto].
                - cbn [fst snd]. rewrite Ea. apply in_map_iff. exists (file_of p). split; auto. }
              rewrite <- Hall in He. specialize (SA _ He). cbn [stored] in SA.
              destruct SA as [tA' [LA' FA']]. rewrite LA in LA'. injection LA' as <-. exact FA'.
      * intros e He. apply firstn_in in He. apply in_app_or in He. destruct He as [He|He].
        -- unfold part_removes in He. apply in_flat_map in He. destruct He as [[n t1] [Hl He]].
           apply in_map_iff in He. destruct He as [id [<- Hid]]. cbn [fst snd] in *.
           exists t1. split; [apply MFin; exact Hl|].
           destruct (MF _ _ (MFin _ _ Hl)) as [t [_ [_ [_ _ Mid _]]]]. apply dead_not_part; auto.
        -- unfold wal_removes in He. apply in_map_iff in He. destruct He as [id [<- _]]. exact Logic.I.
    + intros n t1 L1. destruct (MF _ _ L1) as [t [Lt [_ [_ _ _ Mr]]]]. rewrite Mr. unfold content. rewrite Lt. reflexivity.
Qed.

Theorem flush_cuts : forall c o s l1 k,
  Inv s -> flush_mid true c o s = Val l1 ->
  good_recovery (recover_c c (cut (at_rest s) (flush_effects s l1) k)) (content s).
Proof.
  intros c o s l1 k I H. eapply recover_flush_frame; [exact I|]. eapply flush_cut_frame; eauto.
Qed.

(* ---------------------------------------------------------------------------------------------- *)
(* recovery's own effects: the removal of a leftover log temp file, then of the segments below the
   cursor.  A crash during a recovery leaves a directory from which recovery gives the same. *)

Lemma recover_effects_none : forall s w,
  Inv s -> (forall x, In x w -> earliest s <= fst x) ->
  recover_effects (with_wal s w) = [].
Proof.
  intros s w I H. unfold recover_effects. db_simpl. rewrite filter_none; [reflexivity|].
  intros x HI. apply N.ltb_ge.
  assert (Ecur : match d_cursor s with Some k => k | None => 0 end = earliest s).
  { pose proof (i_cursor _ I) as Hc. destruct (d_cursor s); congruence. }
  rewrite Ecur. apply H. exact HI.
Qed.

Lemma with_wal_same : forall s, with_wal s (d_wal s) = s.
Proof. intro s. destruct s. reflexivity. Qed.

Lemma wal_above_earliest : forall s x, Inv s -> In x (d_wal s) -> earliest s <= fst x.
Proof. intros s x I HI. eapply seqN_ge. rewrite <- (i_ids _ I). apply in_map. exact HI. Qed.

Lemma recover_effects_rest : forall s, Inv s -> recover_effects s = [].
Proof.
  intros s I. rewrite <- (with_wal_same s). apply recover_effects_none; auto.
  intros x HI. apply wal_above_earliest; auto.
Qed.

(* from a state at rest recovery has nothing to remove *)
Theorem recovery_cuts : forall c s k,
  Inv s -> good_recovery (recover_c c (cut (at_rest s) (recover_effects_c (at_rest s)) k)) (content s).
Proof.
  intros c s k I. unfold recover_effects_c. cbn [at_rest cd_tmp cd_db app]. rewrite (recover_effects_rest _ I).
  unfold cut. replace (firstn k []) with (@nil eff) by (destruct k; reflexivity).
  cbn. apply (recover_frame_a c s (at_rest s) I (frame_a_rest s)).
Qed.

(* from a cut of an ingestion it removes the temp file, if there is one: what recovery returns does
   not depend on how far that got *)
Theorem recovery_cuts_ingest : forall c s sg k j,
  Inv s ->
  let d := cut (at_rest s) [EWalTmpCreate (next_wal s); EWalTmpWrite (next_wal s) sg; EWalRename (next_wal s) sg] k in
  recover_c c (cut d (recover_effects_c d) j) = recover_c c d.
Proof.
  intros c s sg k j I d.
  assert (E : recover_effects (cd_db d) = []).
  { destruct (ingest_cut_shape s (next_wal s) sg k) as [[_ E]|[_ [E _]]]; fold d in E; rewrite E.
    - apply recover_effects_rest. exact I.
    - apply recover_effects_none; auto. intros x HI. apply in_app_or in HI. destruct HI as [HI|[<-|[]]].
      + apply wal_above_earliest; auto.
      + cbn [fst]. rewrite (i_next _ I). lia. }
  unfold recover_effects_c. rewrite E, app_nil_r. unfold recover_c. f_equal.
  destruct (cd_tmp d); unfold cut, apply_effs; destruct j as [|j]; cbn [firstn fold_left apply_eff cd_db]; auto;
    replace (firstn j []) with (@nil eff) by (destruct j; reflexivity); reflexivity.
Qed.

(* from a cut of a flush it removes the segments below the cursor: the directory stays one of the
   two kinds a cut of the flush itself leaves *)
Theorem recovery_cuts_flush : forall s l1 d j,
  Inv s -> flush_frame s l1 d -> flush_frame s l1 (cut d (recover_effects_c d) j).
Proof.
  intros s l1 d j I [FA|[FB R]].
  - left. unfold recover_effects_c. rewrite (fa_tmp _ _ FA). cbn [app].
    assert (E : recover_effects (cd_db d) = []).
    { unfold recover_effects. rewrite (fa_cursor _ _ FA), (fa_wal _ _ FA). apply (recover_effects_rest _ I). }
    rewrite E. unfold cut. replace (firstn j []) with (@nil eff) by (destruct j; reflexivity). exact FA.
  - right. split; [|exact R]. unfold recover_effects_c. rewrite (fb_tmp _ _ _ FB). cbn [app].
    unfold cut. apply apply_removes_frame_b; [exact FB|].
    intros e He. apply firstn_in in He. unfold recover_effects in He. apply in_map_iff in He.
    destruct He as [x [<- _]]. exact Logic.I.
Qed.
