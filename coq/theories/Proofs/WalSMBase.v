(* Database-level lemmas, part 1: the table map, "equal up to column_names", specifications of
   ensure_cols / prepare / apply_batch / replay_batch / map_tabs. *)
From Coq Require Import NArith ZArith List Bool Lia.
From LV Require Import Model.TableSM Model.Catalogue Model.WalSM Proofs.TableSM.
Import ListNotations.
Open Scope N_scope.

Definition tabsT := list (name * tstate).
Definition keys (l : tabsT) : list name := map fst l.

(* ---------------------------------------------------------------------------------------------- *)
(* lookup / upd *)

Lemma lookup_none : forall n (l : tabsT), lookup n l = None <-> ~ In n (keys l).
Proof.
  induction l as [|[k v] l IH]; cbn.
  - tauto.
  - destruct (name_eqb n k) eqn:E.
    + apply name_eqb_eq in E. subst. split; [discriminate|]. intro H. exfalso. apply H. auto.
    + apply name_eqb_neq in E. rewrite IH. split; intro H; [intros [H'|H']; [congruence|tauto]|tauto].
Qed.

Lemma lookup_some_in : forall n (l : tabsT) t, lookup n l = Some t -> In n (keys l).
Proof.
  intros n l t H. destruct (in_dec (list_eq_dec N.eq_dec) n (keys l)) as [HI|HI]; auto.
  apply lookup_none in HI. congruence.
Qed.

Lemma lookup_in_some : forall n (l : tabsT), In n (keys l) -> exists t, lookup n l = Some t.
Proof.
  intros n l H. destruct (lookup n l) eqn:E; eauto. apply lookup_none in E. contradiction.
Qed.

Lemma keys_upd : forall n v (l : tabsT), keys (upd n v l) = keys l.
Proof.
  induction l as [|[k w] l IH]; cbn; auto.
  destruct (name_eqb n k); cbn; [reflexivity|]. f_equal. exact IH.
Qed.

Lemma lookup_upd_same : forall n v (l : tabsT) t, lookup n l = Some t -> lookup n (upd n v l) = Some v.
Proof.
  induction l as [|[k w] l IH]; cbn; intros t H; [discriminate|].
  destruct (name_eqb n k) eqn:E; cbn; rewrite E; eauto.
Qed.

Lemma lookup_upd_other : forall n m v (l : tabsT), m <> n -> lookup m (upd n v l) = lookup m l.
Proof.
  induction l as [|[k w] l IH]; cbn; intro H; auto.
  destruct (name_eqb n k) eqn:E; cbn.
  - apply name_eqb_eq in E. subst k.
    destruct (name_eqb m n) eqn:E2; auto. apply name_eqb_eq in E2. congruence.
  - destruct (name_eqb m k); auto.
Qed.

Lemma lookup_app_new : forall m n v (l : tabsT),
  lookup m (l ++ [(n, v)]) =
  match lookup m l with Some t => Some t | None => if name_eqb m n then Some v else None end.
Proof.
  induction l as [|[k w] l IH]; cbn; auto.
  destruct (name_eqb m k); auto.
Qed.

Lemma keys_app : forall (a b : tabsT), keys (a ++ b) = keys a ++ keys b.
Proof. intros. unfold keys. apply map_app. Qed.

(* ---------------------------------------------------------------------------------------------- *)
(* setters *)

Lemma set_cols_id : forall t, set_cols t (t_cols t) = t.
Proof. destruct t; reflexivity. Qed.
Lemma set_cols_twice : forall t c c', set_cols (set_cols t c) c' = set_cols t c'.
Proof. reflexivity. Qed.
Lemma set_buf_cols : forall t b c, set_buf (set_cols t c) b = set_cols (set_buf t b) c.
Proof. reflexivity. Qed.
Lemma set_buf_twice : forall t b b', set_buf (set_buf t b) b' = set_buf t b'.
Proof. reflexivity. Qed.

(* t' is t up to column_names *)
Definition modc (t t' : tstate) : Prop := exists c, t' = set_cols t c.

Lemma modc_refl : forall t, modc t t.
Proof. intro t. exists (t_cols t). symmetry. apply set_cols_id. Qed.

Lemma modc_trans : forall a b c, modc a b -> modc b c -> modc a c.
Proof. intros a b c [x ->] [y ->]. exists y. reflexivity. Qed.

Lemma modc_fields : forall t t', modc t t' ->
  t_buf t' = t_buf t /\ t_frozen t' = t_frozen t /\ t_parts t' = t_parts t /\
  t_next_id t' = t_next_id t /\ t_next_off t' = t_next_off t /\ t_files t' = t_files t /\
  t_meta t' = t_meta t /\ t_dead t' = t_dead t.
Proof. intros t t' [c ->]. cbn. repeat split; reflexivity. Qed.

Lemma modc_content : forall t t', modc t t' -> table_content t' = table_content t.
Proof. intros t t' [c ->]. reflexivity. Qed.

Lemma tinv_modc : forall t t', modc t t' -> tinv t -> tinv t'.
Proof. intros t t' [c ->] H. apply tinv_set_cols. exact H. Qed.

Lemma tpre_modc : forall t t', modc t t' -> tpre t -> tpre t'.
Proof. intros t t' [c ->] [[H1 H2 H3] H4 H5]. constructor; cbn; auto. constructor; auto. Qed.

(* the table map l' is l up to column_names *)
Definition tabs_modc (l l' : tabsT) : Prop :=
  keys l' = keys l /\ forall m t, lookup m l = Some t -> exists t', lookup m l' = Some t' /\ modc t t'.

Lemma tabs_modc_refl : forall l, tabs_modc l l.
Proof. intro l. split; auto. intros m t H. exists t. split; auto. apply modc_refl. Qed.

Lemma tabs_modc_trans : forall a b c, tabs_modc a b -> tabs_modc b c -> tabs_modc a c.
Proof.
  intros a b c [K1 H1] [K2 H2]. split; [congruence|].
  intros m t H. destruct (H1 _ _ H) as [t1 [L1 M1]]. destruct (H2 _ _ L1) as [t2 [L2 M2]].
  exists t2. split; auto. eapply modc_trans; eauto.
Qed.

Lemma tabs_modc_none : forall l l' m, tabs_modc l l' -> lookup m l = None -> lookup m l' = None.
Proof. intros l l' m [K _] H. apply lookup_none. rewrite K. apply lookup_none. exact H. Qed.

Lemma tabs_modc_upd : forall l n t c,
  lookup n l = Some t -> tabs_modc l (upd n (set_cols t c) l).
Proof.
  intros l n t c H. split; [apply keys_upd|].
  intros m t0 H0. destruct (list_eq_dec N.eq_dec m n) as [->|Hne].
  - rewrite (lookup_upd_same _ _ _ _ H). exists (set_cols t c). split; auto.
    rewrite H in H0. injection H0 as <-. exists c. reflexivity.
  - rewrite lookup_upd_other; auto. exists t0. split; auto. apply modc_refl.
Qed.

(* ---------------------------------------------------------------------------------------------- *)
(* create_if_empty *)

Lemma create_if_empty_spec : forall seed n (l : tabsT) l' b,
  create_if_empty seed n l = (l', b) ->
  (exists t, lookup n l' = Some t) /\
  (forall m t, lookup m l = Some t -> lookup m l' = Some t) /\
  (forall m, lookup m l = None -> m <> n -> lookup m l' = None) /\
  (lookup n l = None -> exists c, lookup n l' = Some (empty_table c)) /\
  (NoDup (keys l) -> NoDup (keys l')) /\
  (forall m, In m (keys l') -> In m (keys l) \/ m = n).
Proof.
  intros seed n l l' b H. unfold create_if_empty in H.
  destruct (lookup n l) as [t|] eqn:E; injection H as <- <-.
  - repeat split; eauto; try congruence.
  - repeat split.
    + rewrite lookup_app_new, E, name_eqb_refl. eauto.
    + intros m t H. rewrite lookup_app_new, H. reflexivity.
    + intros m H Hne. rewrite lookup_app_new, H.
      destruct (name_eqb m n) eqn:E2; auto. apply name_eqb_eq in E2. congruence.
    + intros _. rewrite lookup_app_new, E, name_eqb_refl. eauto.
    + intro ND. rewrite keys_app. apply nodup_app_comm. cbn. constructor; auto.
      apply lookup_none. exact E.
    + intros m HI. rewrite keys_app in HI. apply in_app_or in HI. cbn in HI.
      destruct HI as [HI|[HI|[]]]; auto.
Qed.

(* ---------------------------------------------------------------------------------------------- *)
(* ensure_cols *)

Lemma ensure_cols_spec : forall n (l l' : tabsT),
  ensure_cols n l = Val l' ->
  tabs_modc l l' /\ exists t c, lookup n l' = Some t /\ t_cols t = Some c.
Proof.
  intros n l l' H. unfold ensure_cols in H.
  destruct (lookup n l) as [t|] eqn:E; [|discriminate].
  destruct (t_cols t) as [c|] eqn:Ec.
  - injection H as <-. split; [apply tabs_modc_refl|]. eauto.
  - destruct (lookup (meta_columns_of n) l) as [mc|]; [|discriminate].
    destruct (string_column s_column_name (table_content mc)) as [names|]; [|discriminate].
    injection H as <-. split.
    + apply tabs_modc_upd. exact E.
    + rewrite (lookup_upd_same _ _ _ _ E). eexists. eexists. split; [reflexivity|]. reflexivity.
Qed.

(* ---------------------------------------------------------------------------------------------- *)
(* a step that only creates empty tables and changes column_names *)

Definition grows (l l' : tabsT) : Prop :=
  (forall m t, lookup m l = Some t -> exists t', lookup m l' = Some t' /\ modc t t') /\
  (forall m t', lookup m l = None -> lookup m l' = Some t' -> modc (empty_table None) t') /\
  (NoDup (keys l) -> NoDup (keys l')).

Lemma grows_refl : forall l, grows l l.
Proof.
  intro l. repeat split; auto.
  - intros m t H. exists t. split; auto. apply modc_refl.
  - intros m t' H H'. congruence.
Qed.

Lemma grows_trans : forall a b c, grows a b -> grows b c -> grows a c.
Proof.
  intros a b c [A1 [A2 A3]] [B1 [B2 B3]]. repeat split; auto.
  - intros m t H. destruct (A1 _ _ H) as [t1 [L1 M1]]. destruct (B1 _ _ L1) as [t2 [L2 M2]].
    exists t2. split; auto. eapply modc_trans; eauto.
  - intros m t' H H'. destruct (lookup m b) as [tb|] eqn:Eb.
    + destruct (B1 _ _ Eb) as [t2 [L2 M2]]. rewrite L2 in H'. injection H' as <-.
      eapply modc_trans; [|exact M2]. eapply A2; eauto.
    + eapply B2; eauto.
Qed.

Lemma grows_of_modc : forall l l', tabs_modc l l' -> grows l l'.
Proof.
  intros l l' [K H]. repeat split; auto.
  - intros m t' Hn Hs. apply lookup_some_in in Hs. rewrite K in Hs. apply lookup_none in Hn. contradiction.
  - rewrite K. auto.
Qed.

Lemma grows_create : forall seed n l l' b, create_if_empty seed n l = (l', b) -> grows l l'.
Proof.
  intros seed n l l' b H. destruct (create_if_empty_spec _ _ _ _ _ H) as [_ [H2 [H3 [H4 [H5 _]]]]].
  repeat split; auto.
  - intros m t Hm. exists t. split; auto. apply modc_refl.
  - intros m t' Hn Hs. destruct (list_eq_dec N.eq_dec m n) as [->|Hne].
    + destruct (H4 Hn) as [c Hc]. rewrite Hc in Hs. injection Hs as <-. exists c. reflexivity.
    + rewrite (H3 _ Hn Hne) in Hs. discriminate.
Qed.

Lemma prepare_grows : forall seed b l created colrows l' created' colrows',
  prepare seed b l created colrows = Val (l', created', colrows') -> grows l l'.
Proof.
  induction b as [|tb rest IH]; cbn [prepare]; intros l created colrows l' created' colrows'.
  - intro H. injection H as E1 E2 E3. subst. apply grows_refl.
  - destruct (create_if_empty seed (tb_name tb) l) as [l1 c1] eqn:E1.
    destruct (create_if_empty seed (meta_columns_of (tb_name tb)) l1) as [l2 c2] eqn:E2.
    destruct (ensure_cols (tb_name tb) l2) as [l3| | | |] eqn:E3; cbn [bind]; try discriminate.
    destruct (lookup (tb_name tb) l3) as [t|]; [|discriminate].
    destruct (t_cols t); [|discriminate].
    intro H. apply IH in H.
    eapply grows_trans; [eapply grows_create; eauto|].
    eapply grows_trans; [eapply grows_create; eauto|].
    eapply grows_trans; [apply grows_of_modc; apply ensure_cols_spec in E3; apply E3|].
    exact H.
Qed.

(* ---------------------------------------------------------------------------------------------- *)
(* apply_batch: every table of the event buffer gets its rows appended *)

Lemma batch_rows_cons : forall n tb rest,
  batch_rows n (tb :: rest) = (if name_eqb (tb_name tb) n then tb_rows tb else []) ++ batch_rows n rest.
Proof. reflexivity. Qed.

Lemma batch_rows_app : forall n a b, batch_rows n (a ++ b) = batch_rows n a ++ batch_rows n b.
Proof. intros. unfold batch_rows. apply flat_map_app. Qed.

Definition appended (rows : list row) (t t' : tstate) : Prop :=
  exists c, t' = set_cols (set_buf t (t_buf t ++ rows)) c.

Lemma appended_nil : forall t t', modc t t' -> appended [] t t'.
Proof. intros t t' [c ->]. exists c. rewrite app_nil_r. destruct t; reflexivity. Qed.

Lemma appended_trans : forall r1 r2 a b c,
  appended r1 a b -> appended r2 b c -> appended (r1 ++ r2) a c.
Proof.
  intros r1 r2 a b c [x ->] [y ->]. exists y. cbn. rewrite app_assoc. reflexivity.
Qed.

Lemma apply_batch_spec : forall b (l l' : tabsT),
  apply_batch b l = Val l' ->
  keys l' = keys l /\
  forall m t, lookup m l = Some t -> exists t', lookup m l' = Some t' /\ appended (batch_rows m b) t t'.
Proof.
  induction b as [|tb rest IH]; cbn [apply_batch]; intros l l'.
  - intro H. injection H as <-. split; auto. intros m t Hm. exists t. split; auto.
    apply appended_nil. apply modc_refl.
  - destruct (lookup (tb_name tb) l) as [t0|] eqn:E0; [|discriminate].
    destruct (ingest_rows t0 (tb_cols tb) (tb_rows tb)) as [t1|] eqn:E1; [|discriminate].
    intro H. apply IH in H. destruct H as [K H]. split; [rewrite K; apply keys_upd|].
    intros m t Hm. rewrite batch_rows_cons.
    unfold ingest_rows in E1. destruct (t_cols t0) as [s|]; [|discriminate]. injection E1 as <-.
    destruct (list_eq_dec N.eq_dec m (tb_name tb)) as [->|Hne].
    + rewrite name_eqb_refl. rewrite E0 in Hm. injection Hm as <-.
      destruct (H (tb_name tb) _ (lookup_upd_same _ _ _ _ E0)) as [t' [L A]].
      exists t'. split; auto. eapply appended_trans; [|exact A]. eexists. reflexivity.
    + assert (E : name_eqb (tb_name tb) m = false) by (apply name_eqb_neq; congruence).
      rewrite E. cbn [app]. apply H. rewrite lookup_upd_other; auto.
Qed.

(* ---------------------------------------------------------------------------------------------- *)
(* replay_batch: tables are created on demand, then the same appends *)

Definition view (l : tabsT) (n : name) : tstate :=
  match lookup n l with Some t => t | None => empty_table None end.

Lemma replay_batch_spec : forall seed b (l l' : tabsT),
  replay_batch seed b l = Val l' ->
  (NoDup (keys l) -> NoDup (keys l')) /\
  (forall m, appended (batch_rows m b) (view l m) (view l' m)) /\
  (forall m, lookup m l' = None -> lookup m l = None) /\
  (forall m t, lookup m l = Some t -> exists t', lookup m l' = Some t').
Proof.
  induction b as [|tb rest IH]; cbn [replay_batch]; intros l l'.
  - intro H. injection H as <-. repeat split; auto.
    + intro m. apply appended_nil. apply modc_refl.
    + eauto.
  - destruct (create_if_empty seed (tb_name tb) l) as [l1 c1] eqn:E1.
    destruct (ensure_cols (tb_name tb) l1) as [l2| | | |] eqn:E2; cbn [bind]; try discriminate.
    destruct (lookup (tb_name tb) l2) as [t0|] eqn:E0; [|discriminate].
    destruct (ingest_rows t0 (tb_cols tb) (tb_rows tb)) as [t1|] eqn:Ei; [|discriminate].
    intro H. apply IH in H. destruct H as [HN [HA [Hnone Hsome]]].
    pose proof (grows_create _ _ _ _ _ E1) as G1.
    apply ensure_cols_spec in E2. destruct E2 as [M2 _].
    pose proof (grows_trans _ _ _ G1 (grows_of_modc _ _ M2)) as G.
    destruct G as [G1' [G2' G3']].
    unfold ingest_rows in Ei. destruct (t_cols t0) as [s|]; [|discriminate]. injection Ei as <-.
    repeat split.
    + intro ND. apply HN. rewrite keys_upd. auto.
    + intro m. rewrite batch_rows_cons.
      assert (Hv : modc (view l m) (view l2 m)).
      { unfold view. destruct (lookup m l) as [t|] eqn:El.
        - destruct (G1' _ _ El) as [t' [L M]]. rewrite L. exact M.
        - destruct (lookup m l2) as [t'|] eqn:El2; [eapply G2'; eauto|apply modc_refl]. }
      destruct (list_eq_dec N.eq_dec m (tb_name tb)) as [->|Hne].
      * rewrite name_eqb_refl.
        specialize (HA (tb_name tb)). unfold view in HA at 1.
        rewrite (lookup_upd_same _ _ _ _ E0) in HA.
        eapply appended_trans; [|exact HA].
        unfold view in Hv at 2. rewrite E0 in Hv. destruct Hv as [c ->].
        eexists. cbn. reflexivity.
      * assert (E : name_eqb (tb_name tb) m = false) by (apply name_eqb_neq; congruence).
        rewrite E. cbn [app]. specialize (HA m). unfold view in HA at 1.
        rewrite lookup_upd_other in HA; auto. fold (view l2 m) in HA.
        destruct Hv as [c Hc]. rewrite Hc in HA. destruct HA as [c' ->].
        exists c'. reflexivity.
    + intros m Hm. apply Hnone in Hm.
      destruct (list_eq_dec N.eq_dec m (tb_name tb)) as [->|Hne].
      * rewrite (lookup_upd_same _ _ _ _ E0) in Hm. discriminate.
      * rewrite lookup_upd_other in Hm; auto.
        destruct (lookup m l) as [t|] eqn:El; auto.
        destruct (G1' _ _ El) as [t' [L _]]. congruence.
    + intros m t Hm. destruct (G1' _ _ Hm) as [t' [L _]].
      destruct (list_eq_dec N.eq_dec m (tb_name tb)) as [->|Hne].
      * eapply Hsome. apply (lookup_upd_same _ _ _ _ E0).
      * eapply Hsome. rewrite lookup_upd_other; eauto.
Qed.

(* ---------------------------------------------------------------------------------------------- *)
(* map_tabs *)

Lemma map_tabs_spec : forall s f (l l' : tabsT),
  map_tabs s f l = Val l' ->
  keys l' = keys l /\
  (forall m t, lookup m l = Some t -> exists t', f t = Some t' /\ lookup m l' = Some t') /\
  (forall m, lookup m l = None -> lookup m l' = None).
Proof.
  induction l as [|[k v] l IH]; cbn [map_tabs]; intros l'.
  - intro H. injection H as <-. repeat split; auto. intros; discriminate.
  - destruct (f v) as [v'|] eqn:Ef; cbn [of_opt bind]; [|discriminate].
    destruct (map_tabs s f l) as [r| | | |] eqn:Er; cbn [bind]; try discriminate.
    intro H. injection H as <-. destruct (IH _ eq_refl) as [K [H1 H2]]. cbn. repeat split.
    + f_equal. exact K.
    + intros m t Hm. destruct (name_eqb m k); [injection Hm as <-; eauto|]. apply H1. exact Hm.
    + intros m Hm. destruct (name_eqb m k); [discriminate|]. apply H2. exact Hm.
Qed.

Lemma map_tabs_panic : forall s f (l : tabsT) s',
  map_tabs s f l = Panic s' -> s' = s /\ exists k v, In (k, v) l /\ f v = None.
Proof.
  induction l as [|[k v] l IH]; cbn [map_tabs]; intros s'; [discriminate|].
  destruct (f v) as [v'|] eqn:Ef; cbn [of_opt bind].
  - destruct (map_tabs s f l) as [r| | | |] eqn:Er; cbn [bind]; try discriminate.
    intro H. injection H as <-. destruct (IH _ eq_refl) as [E [k' [v'' [HI Hf]]]].
    split; auto. exists k', v''. split; auto. right. exact HI.
  - intro H. injection H as <-. split; auto. exists k, v. split; auto. left. reflexivity.
Qed.

Lemma map_tabs_total : forall s f (l : tabsT) r,
  map_tabs s f l = r -> (exists l', r = Val l') \/ r = Panic s.
Proof.
  induction l as [|[k v] l IH]; cbn [map_tabs]; intros r H.
  - left. eauto.
  - destruct (f v) as [v'|]; cbn [of_opt bind] in H.
    + destruct (IH _ eq_refl) as [[l' E]|E]; rewrite E in H; cbn [bind] in H; subst; eauto.
    + right. auto.
Qed.

Lemma in_lookup : forall k v (l : tabsT), NoDup (keys l) -> In (k, v) l -> lookup k l = Some v.
Proof.
  induction l as [|[k' v'] l IH]; cbn; intros ND HI; [tauto|].
  inversion ND as [|? ? Hn ND']; subst. destruct HI as [E|HI].
  - injection E as -> ->. rewrite name_eqb_refl. reflexivity.
  - destruct (name_eqb k k') eqn:E.
    + apply name_eqb_eq in E. subst. exfalso. apply Hn. change k' with (fst (k', v)).
      apply in_map. exact HI.
    + apply IH; auto.
Qed.
