(* Crash cuts, part 4: for histories of well-formed requests the recovery from every cut returns a
   database - the catalogue look-ups of the replay cannot fail - so [good_recovery] sharpens to
   [recovers].  The core is [recover_total_gen]: Proofs/CatalogueTotal.v's argument for a restart of
   a state at rest, redone for a directory that differs from the state's in files the catalogue
   file does not name and in log segments appended. *)
From Coq Require Import NArith ZArith List Bool Lia.
From LV Require Import Model.TableSM Model.Catalogue Model.WalSM Model.CrashSM
     Proofs.TableSM Proofs.WalSMBase Proofs.WalSM Proofs.WalSMLog Proofs.Catalogue
     Proofs.CatalogueLog Proofs.CatalogueInv Proofs.CatalogueFlush Proofs.CatalogueRecover
     Proofs.CatalogueMain Proofs.CatalogueSeed Proofs.CatalogueKF3 Proofs.CatalogueTotal
     Proofs.CrashSM Proofs.CrashSMCuts Proofs.CrashSMFlush.
Import ListNotations.
Open Scope N_scope.

(* what holds of every state a history of well-formed requests reaches *)
Record Reach (c : cfg) (s : db) : Prop := {
  r_inv : Inv s;
  r_cat : Cat s;
  r_seeded : Seeded c s;
  r_ne : NE (tabs s)
}.

Lemma reach_init : forall c, Reach c (init c).
Proof. intro c. constructor; [apply inv_init|apply cat_init|apply seeded_init|apply ne_init]. Qed.

Lemma reach_step : forall c s o s', Reach c s -> wf_op o -> step true c s o = Val s' -> Reach c s'.
Proof.
  intros c s o s' [I C S Hn] W H. constructor.
  - eapply step_inv; eauto.
  - eapply step_cat; eauto.
  - eapply step_seeded; eauto.
  - eapply step_ne; eauto.
Qed.

Lemma reach_run : forall c ops s0 s, Reach c s0 -> Forall wf_op ops -> run true c ops s0 = Val s -> Reach c s.
Proof.
  intros c ops. induction ops as [|o ops IH]; cbn [run]; intros s0 s R W H.
  - injection H as <-. exact R.
  - inversion W; subst. destruct (step true c s0 o) as [s2| | | |] eqn:E; cbn [bind] in H; try discriminate.
    eapply IH; [|eassumption|exact H]. eapply reach_step; eauto.
Qed.

Theorem reachable_reach : forall c ops s,
  Forall wf_op ops -> run true c ops (init c) = Val s -> Reach c s.
Proof. intros c ops s W H. eapply reach_run; [apply reach_init|exact W|exact H]. Qed.

(* ---------------------------------------------------------------------------------------------- *)

Theorem recover_total_gen : forall c s s1 pre k,
  Reach c s ->
  keys (tabs s1) = keys (tabs s) ->
  (forall n t, lookup n (tabs s) = Some t ->
     exists t', lookup n (tabs s1) = Some t' /\ t_meta t' = t_meta t /\
                forall m, In m (t_meta t) -> find_file (pm_id m) (t_files t') = find_file (pm_id m) (t_files t)) ->
  d_cursor s1 = d_cursor s ->
  map fst (d_wal s1) = seqN (earliest s) k ->
  acked s = pre ++ wal_log s ->
  log_ok (pre ++ map (fun x => sg_data (snd x)) (d_wal s1)) ->
  exists s', recover c s1 = Val s'.
Proof.
  intros c s s1 pre k [I C S Hne] Fk Fa Fc Hids Epre LOK. unfold recover.
  set (cursor := match d_cursor s1 with Some k => k | None => 0 end).
  assert (Ecur : cursor = earliest s).
  { unfold cursor. rewrite Fc. pose proof (i_cursor _ I) as H. destruct (d_cursor s); congruence. }
  assert (Ekeep : sort_segs (filter (fun x => cursor <=? fst x) (d_wal s1)) = d_wal s1).
  { rewrite filter_all.
    - eapply sort_segs_sorted. exact Hids.
    - intros x HI. apply N.leb_le. rewrite Ecur. eapply seqN_ge. rewrite <- Hids. apply in_map. exact HI. }
  rewrite Ekeep.
  assert (ND1 : NoDup (keys (tabs s1))) by (rewrite Fk; apply (i_keys _ I)).
  assert (Back : forall n t1, lookup n (tabs s1) = Some t1 ->
            exists t, lookup n (tabs s) = Some t /\ t_meta t1 = t_meta t /\
                      forall m, In m (t_meta t) -> find_file (pm_id m) (t_files t1) = find_file (pm_id m) (t_files t)).
  { intros n t1 L1. assert (HI : In n (keys (tabs s))). { rewrite <- Fk. eapply lookup_some_in. exact L1. }
    destruct (lookup_in_some _ _ HI) as [t L]. destruct (Fa _ _ L) as [t' [L' [Hm Hf]]].
    rewrite L1 in L'. injection L' as <-. exists t. auto. }
  assert (HR : forall n t, lookup n (tabs s1) = Some t -> exists ps, restore_parts (t_meta t) (t_files t) = Some ps).
  { intros n t1 L1. destruct (Back _ _ L1) as [t [L [Hm Hf]]].
    destruct (inv_restore_ok _ I _ _ L) as [ps E]. exists ps. rewrite Hm, (restore_parts_ext _ _ _ Hf). exact E. }
  destruct (restore_tables_gen code_seed (tabs s1) ND1 HR) as [l0 [E0 [ND0 H0]]]. rewrite E0. cbn [bind].
  destruct (create_if_empty code_seed s_meta_tables l0) as [l1 b1] eqn:E1.
  destruct (create_if_empty_spec _ _ _ _ _ E1) as [_ [C2 [C3 [C4 _]]]].
  pose proof (grows_view _ _ (grows_create _ _ _ _ _ E1)) as GV1.
  assert (Hview : forall n, durable_part_rows (view (tabs s1) n) = part_rows (t_parts (view (tabs s) n))).
  { intro n. rewrite <- (durable_part_rows_inv _ (i_tabs _ I n)). unfold view.
    destruct (lookup n (tabs s)) as [t|] eqn:L.
    - destruct (Fa _ _ L) as [t' [L' [Hm Hf]]]. rewrite L'.
      rewrite !durable_part_rows_meta, Hm. apply meta_rows_ext. exact Hf.
    - assert (L' : lookup n (tabs s1) = None).
      { apply lookup_none. rewrite Fk. apply lookup_none. exact L. }
      rewrite L'. reflexivity. }
  assert (Hparts : forall n, part_rows (t_parts (view (tabs s) n)) = acked_rows pre n).
  { intro n. pose proof (i_acked _ I n) as Ha. rewrite Epre, acked_rows_app in Ha.
    unfold wal_log in Ha. rewrite acked_rows_wal, <- (i_bufs _ I n), content_view in Ha.
    unfold table_content in Ha. rewrite (ti_frozen _ (i_tabs _ I n)) in Ha. cbn [app] in Ha.
    apply app_inv_tail in Ha. exact Ha. }
  assert (LOKpre : log_ok pre). { eapply log_ok_prefix. exact LOK. }
  assert (R1 : rec_rel pre l1).
  { constructor.
    - intro n. destruct (H0 n) as [Hp [Hb Hf]]. destruct (modc_fields _ _ (GV1 n)) as [Fb [Ff [Fp _]]].
      unfold table_content. rewrite Fp, Ff, Fb, Hp, Hb, Hf, !app_nil_r, Hview. apply Hparts.
    - intros t tt cs Hu L Hcs. exfalso. destruct (lookup t l0) as [t0|] eqn:L0.
      + rewrite (C2 _ _ L0) in L. injection L as <-.
        rewrite (restore_tables_cols _ _ _ E0 _ _ L0), (user_seed_none _ _ Hu) in Hcs. discriminate.
      + assert (Hne' : t <> s_meta_tables) by (intro; subst; discriminate).
        rewrite (C3 _ L0 Hne') in L. discriminate.
    - intros n tt Hu L. destruct (lookup n l0) as [t0|] eqn:L0.
      + rewrite (C2 _ _ L0) in L. injection L as <-.
        rewrite (restore_tables_cols _ _ _ E0 _ _ L0). apply meta_seed_restored. exact Hu.
      + destruct (list_eq_dec N.eq_dec n s_meta_tables) as [->|Hne'].
        * unfold create_if_empty in E1. rewrite L0 in E1. injection E1 as <- _.
          rewrite lookup_app_new, L0, name_eqb_refl in L. injection L as <-. cbn [t_cols empty_table]. apply seed_cols_some.
        * rewrite (C3 _ L0 Hne') in L. discriminate. }
  assert (S1 : SeededT code_seed l1).
  { eapply seededT_create; [|exact E1]. eapply seededT_restore; eauto. }
  assert (Hh : has_cat l1).
  { intros n t Hu L Hc.
    assert (L0 : lookup n l0 = Some t).
    { destruct (lookup n l0) as [t0|] eqn:L0; [rewrite (C2 _ _ L0) in L; exact L|].
      assert (Hne' : n <> s_meta_tables) by (intro; subst; discriminate).
      rewrite (C3 _ L0 Hne') in L. discriminate. }
    destruct (restore_tables_origin _ _ _ E0 _ _ L0) as [ts1 [HIn Hm1]].
    pose proof (in_lookup _ _ _ ND1 HIn) as Ls1.
    destruct (Back _ _ Ls1) as [ts [Ls [Hmeq _]]].
    assert (Hm : t_meta ts <> []) by (rewrite <- Hmeq; exact Hm1).
    pose proof (i_tabs _ I n) as Tn. unfold view in Tn. rewrite Ls in Tn.
    assert (Hrows : acked_rows pre n <> []).
    { rewrite <- Hparts. unfold view. rewrite Ls. rewrite (ti_meta _ Tn) in Hm.
      destruct (t_parts ts) as [|p ps] eqn:Ep; [exfalso; apply Hm; reflexivity|].
      pose proof (ne_lookup _ _ _ Hne Ls) as Hn1. unfold ne_parts in Hn1. rewrite Ep in Hn1.
      inversion Hn1; subst. unfold part_rows. cbn [flat_map]. destruct (p_rows p); [contradiction|discriminate]. }
    pose proof (log_rows_names _ _ LOKpre Hu Hrows) as Hnames.
    assert (Hmc : part_rows (t_parts (view (tabs s) (meta_columns_of n))) <> []).
    { rewrite Hparts. unfold log_names in Hnames. intro E. rewrite E in Hnames. apply Hnames. reflexivity. }
    unfold view in Hmc. destruct (lookup (meta_columns_of n) (tabs s)) as [tm|] eqn:Lm; [|exfalso; apply Hmc; reflexivity].
    pose proof (i_tabs _ I (meta_columns_of n)) as Tm. unfold view in Tm. rewrite Lm in Tm.
    assert (Hmeta : t_meta tm <> []).
    { rewrite (ti_meta _ Tm). destruct (t_parts tm); [exfalso; apply Hmc; reflexivity|discriminate]. }
    destruct (Fa _ _ Lm) as [tm1 [Lm1 [Hmm _]]].
    assert (Hmeta1 : t_meta tm1 <> []) by (rewrite Hmm; exact Hmeta).
    destruct (restore_tables_present _ _ _ E0 ND1 _ _ Lm1 Hmeta1) as [tm0 Lm0].
    exists tm0. apply C2. exact Lm0. }
  destruct (replay_total code_seed _ _ _ pre None l1 Hids (or_introl eq_refl) LOK R1 S1 Hh) as [l2 E2].
  rewrite E2. cbn [bind]. eauto.
Qed.

(* ---------------------------------------------------------------------------------------------- *)
(* the cuts *)

Lemma recover_total_frame_a : forall c s d, Reach c s -> frame_a s d -> exists s', recover_c c d = Val s'.
Proof.
  intros c s d R [Ft Fk Fc Fw Fa]. unfold recover_c.
  destruct (c_wal _ (r_cat _ _ R)) as [pre Epre].
  apply (recover_total_gen c s (cd_db d) pre (length (d_wal s))); auto.
  - rewrite Fw. apply (i_ids _ (r_inv _ _ R)).
  - rewrite Fw. fold (wal_log s). rewrite <- Epre. apply (c_log _ (r_cat _ _ R)).
Qed.

Lemma recover_total_flush_frame : forall c s l1 d, Reach c s -> flush_frame s l1 d ->
  recovers (recover_c c d) (content s).
Proof.
  intros c s l1 d R F. destruct F as [FA|[FB [ND [K HR]]]].
  - apply good_total; [apply recover_frame_a; [apply (r_inv _ _ R)|exact FA]|]. eapply recover_total_frame_a; eauto.
  - eapply recover_frame_b; eauto. apply (r_inv _ _ R).
Qed.

Theorem ingest_cuts_total : forall c b bytes s s' k,
  Reach c s -> wf_batch b -> ingest c b bytes s = Val s' ->
  let full := match rev (acked s') with x :: _ => x | [] => [] end in
  recovers (recover_c c (cut (at_rest s) (ingest_effects (next_wal s) bytes full) k))
           (if (k <? 3)%nat then content s else content s').
Proof.
  intros c b bytes s s' k R W H full. pose proof (r_inv _ _ R) as I.
  apply good_total; [apply (ingest_cuts c b bytes s s' k I H)|].
  fold full. unfold recover_c, ingest_effects.
  set (sg := {| sg_bytes := bytes; sg_data := full |}).
  destruct (ingest_cut_shape s (next_wal s) sg k) as [[_ ->]|[_ [-> _]]].
  - apply recover_total; [exact I|apply (r_cat _ _ R)|apply (r_seeded _ _ R)|apply (r_ne _ _ R)].
  - destruct (c_wal _ (r_cat _ _ R)) as [pre Epre].
    destruct (ingest_spec _ _ _ _ _ I H) as [_ [extra [Ea _]]].
    assert (Efull : full = b ++ extra). { unfold full. rewrite Ea, rev_app_distr. reflexivity. }
    assert (C' : Cat s') by (eapply ingest_cat; eauto; apply (r_cat _ _ R)).
    apply (recover_total_gen c s _ pre (S (length (d_wal s)))); auto; cbn [with_wal tabs d_cursor d_wal].
    + intros n t L. exists t. auto.
    + rewrite map_app. cbn [map fst]. rewrite (i_ids _ I), (i_next _ I). apply seqN_snoc.
    + rewrite map_app. unfold sg. cbn [map snd sg_data]. fold (wal_log s). rewrite app_assoc, <- Epre, Efull.
      pose proof (c_log _ C') as X. rewrite Ea in X. exact X.
Qed.

Theorem flush_cuts_total : forall c o s l1 k,
  Reach c s -> flush_mid true c o s = Val l1 ->
  recovers (recover_c c (cut (at_rest s) (flush_effects s l1) k)) (content s).
Proof.
  intros c o s l1 k R H. eapply recover_total_flush_frame; [exact R|].
  eapply flush_cut_frame; [apply (r_inv _ _ R)|exact H].
Qed.

(* second level: a crash during the recovery from a cut of a flush *)
Theorem flush_recovery_cuts_total : forall c o s l1 k j,
  Reach c s -> flush_mid true c o s = Val l1 ->
  let d := cut (at_rest s) (flush_effects s l1) k in
  recovers (recover_c c (cut d (recover_effects_c d) j)) (content s).
Proof.
  intros c o s l1 k j R H d. eapply recover_total_flush_frame; [exact R|].
  apply recovery_cuts_flush; [apply (r_inv _ _ R)|].
  eapply flush_cut_frame; [apply (r_inv _ _ R)|exact H].
Qed.
