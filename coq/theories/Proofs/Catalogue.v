(* Catalogue, part 1: absent columns read NULL; what a client table serves is what was sent to it;
   the catalogue rows of a request travel in the request's own log segment. *)
From Coq Require Import NArith ZArith List Bool Lia.
From LV Require Import Model.TableSM Model.Catalogue Model.WalSM
     Proofs.TableSM Proofs.WalSMBase Proofs.WalSM Proofs.WalSMLog.
Import ListNotations.
Open Scope N_scope.

(* the rows of an event-buffer entry mention only the entry's columns *)
Definition wf_tbatch (tb : tbatch) : Prop :=
  Forall (fun r => incl (row_cols r) (tb_cols tb)) (tb_rows tb).

Lemma get_absent : forall r c, ~ In c (row_cols r) -> get r c = CNull.
Proof.
  induction r as [|[k v] r IH]; cbn; intros c H; [reflexivity|].
  destruct (name_eqb c k) eqn:E.
  - apply name_eqb_eq in E. subst. exfalso. apply H. left. reflexivity.
  - apply IH. tauto.
Qed.

Lemma tbatch_missing_null : forall tb c,
  wf_tbatch tb -> ~ In c (tb_cols tb) -> Forall (fun r => get r c = CNull) (tb_rows tb).
Proof.
  intros tb c W H. unfold wf_tbatch in W. eapply Forall_impl; [|exact W]. cbn.
  intros r Hr. apply get_absent. intro HI. apply H. apply Hr. exact HI.
Qed.

(* in every reachable state a client table holds exactly the rows sent to it *)
Lemma content_is_ingested : forall c ops s n,
  run true c ops (init c) = Val s -> user_table n = true -> content s n = ingested ops n.
Proof.
  intros c ops s n H Hn. pose proof (reachable_inv _ _ _ H) as I.
  rewrite (i_acked _ I), (run_acked _ _ _ _ _ (inv_init c) H Hn). reflexivity.
Qed.
