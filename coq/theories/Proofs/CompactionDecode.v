(* C07, column level: the second decoder (free `column::decode`) against the first
   (Codec::decode_ops), and the column rebuild of compaction.

   What holds: on every column the C01 writer produces WITHOUT a null map and not hex-packed, the
   two decoders agree ([free_decode_int], [free_decode_float], [free_decode_str]), so re-pushing
   the decoded vector is an ordinary ingestion push and C01_roundtrip applies to the rebuilt column
   ([compact_single_int] spells this out for integer parts).
   What is refuted on the faithful model: NULLs survive the rebuild (F1: the supplied map is dropped
   by the first push into a buffer without bitmap; F1': ToI64 / Add / DictLookup after Nullable forget
   the map) and hex-packed columns can be rebuilt at all (F2: todo!()). *)
From Coq Require Import ZArith List Bool Lia.
From LV Require Import Model.CodecBase Model.IntEnc Model.FloatEnc Model.StrEnc Model.Codec
  Model.ColumnBuffer Model.Ingest Model.CompactionDecode
  Proofs.CodecBase Proofs.IntEnc Proofs.StrEnc Proofs.ColumnBuffer Proofs.Ingest.
Import ListNotations.
Open Scope Z_scope.

Lemma add64_comm a b : add64 a b = add64 b a.
Proof. unfold add64. now rewrite Z.add_comm. Qed.

Lemma prefix_sums_delta : forall l c, prefix_sums c l = delta_decode c l.
Proof.
  induction l as [|d l IH]; intros c; [reflexivity|].
  cbn [prefix_sums delta_decode]. rewrite add64_comm. destruct (add64 d c); cbn [bind]; [|reflexivity].
  now rewrite IH.
Qed.

Lemma etype_eqb_refl t : etype_eqb t t = true.
Proof. now destruct t. Qed.

(* ---------------------------------------------------------------------------------------------- *)
(* integers without a null map *)

Lemma free_int_codec t off delta es vs xs len range :
  (t = EU8 \/ t = EU16 \/ t = EU32) ->
  add_all off es = Val vs -> undelta delta vs xs ->
  decode_free (mk_column len range (int_codec t off delta false) [SInts t es]) = Val (Plain (DInts EI64 xs)).
Proof.
  intros Ht Ha Hd. unfold undelta in Hd. unfold int_codec, decode_free.
  destruct (off =? 0) eqn:Eo.
  - apply Z.eqb_eq in Eo. subst off. apply add_all_zero in Ha. subst vs.
    destruct delta; destruct Ht as [->|[->| ->]]; cbn; try rewrite prefix_sums_delta, Hd; cbn; subst; reflexivity.
  - destruct delta; destruct Ht as [->|[->| ->]]; cbn; rewrite Ha; cbn;
      try rewrite prefix_sums_delta, Hd; cbn; subst; reflexivity.
Qed.

Lemma choose_small mn mx iv t off : choose mn mx iv = Some (t, off) -> t = EU8 \/ t = EU16 \/ t = EU32.
Proof.
  unfold choose.
  repeat match goal with |- context [if ?c then _ else _] => destruct c end;
    intros E; try discriminate; injection E as <- _; auto.
Qed.

Theorem free_decode_int xs mn0 mx0 delta col :
  i64s xs -> new_boxed xs mn0 mx0 delta None = Val col ->
  decode_free col = Val (Plain (DInts EI64 xs)) /\ decode_free col = decode_column col.
Proof.
  intros Hx E. pose proof (new_boxed_decode _ _ _ _ _ _ Hx E) as Hq. cbn [int_sval] in Hq.
  rewrite Hq.
  cut (decode_free col = Val (Plain (DInts EI64 xs))); [intros Hc; split; exact Hc|].
  unfold new_boxed in E.
  apply bind_val in E as ([vs [mn mx]] & E1 & E).
  apply bind_val in E as (iv & _ & E).
  assert (Hd : undelta delta vs xs).
  { unfold undelta. destruct delta.
    - eapply delta_transform_decode; eassumption.
    - now injection E1 as <- _. }
  assert (Hvs : i64s vs).
  { destruct delta.
    - destruct xs as [|v0 r]; cbn in E1.
      + injection E1 as <- _. constructor.
      + apply bind_val in E1 as ([ds' mm'] & E1 & E2). injection E2 as <- _.
        inversion Hx; subst. constructor; [assumption|]. eapply delta_loop_i64s; eassumption.
    - injection E1 as <- _. exact Hx. }
  destruct (choose mn mx iv) as [[t off]|] eqn:Ec.
  - unfold create_col in E.
    apply bind_val in E as (es & E2 & E).
    apply bind_val in E as (lo & _ & E).
    apply bind_val in E as (hi & _ & E).
    injection E as <-. cbn [with_null].
    eapply free_int_codec; [eapply choose_small; exact Ec|eapply encode_vals_add; eassumption|exact Hd].
  - injection E as <-. unfold undelta in Hd. unfold decode_free, i64_codec. cbn [with_null].
    destruct delta; cbn; try rewrite prefix_sums_delta, Hd; cbn; subst; reflexivity.
Qed.

(* floats without a null map *)
Theorem free_decode_float fs :
  decode_free (float_new_boxed fs None) = Val (Plain (DF64 fs)) /\
  decode_free (float_new_boxed fs None) = decode_column (float_new_boxed fs None).
Proof. split; reflexivity. Qed.

(* strings without a null map, packed or dictionary (not hex-packed) *)
Theorem free_decode_str ss lhex uhex tbytes col :
  short_strings ss ->
  fast_build_string_column ss lhex uhex tbytes None = Val col ->
  (forall u n, ~ In (OpUnhex u n) (c_ops col)) ->
  decode_free col = Val (Plain (DStr ss)) /\ decode_free col = decode_column col.
Proof.
  intros Hshort E Hnohex.
  assert (Hq : (lhex = true -> forallb is_lowercase_hex ss = true) ->
               (uhex = true -> forallb is_uppercase_hex ss = true) ->
               decode_column col = Val (Plain (DStr ss))).
  { intros H1 H2. exact (fast_build_decode ss lhex uhex tbytes None col Hshort H1 H2 E). }
  unfold fast_build_string_column in E.
  destruct (scan_unique [] 0 (zlen ss / 2) ss) as [early seen] eqn:Es.
  destruct early.
  - apply bind_val in E as ([codec data] & E1 & E).
    destruct ((lhex || uhex) && (5 <? tbytes / zlen ss)) eqn:Eh.
    + apply bind_val in E1 as (bs & Eb & E1). injection E1 as <- <-. injection E as <-.
      exfalso. apply (Hnohex uhex tbytes). cbn. now left.
    + injection E1 as <- <-. injection E as <-.
      assert (Hf : decode_free (mk_column (zlen ss) None [OpUnpack] [SInts EU8 (pack_all ss)]) = Val (Plain (DStr ss))).
      { unfold decode_free. cbn. rewrite unpack_strings_pack_all. reflexivity. }
      split; [exact Hf|]. rewrite Hf. unfold decode_column. cbn. rewrite unpack_strings_pack_all. reflexivity.
  - apply bind_val in E as (idx & Ei & E). injection E as <-.
    assert (Hd : Forall (fun s => zlen s < 16777216) (sort_strs seen)).
    { apply Forall_forall. intros s Hs. apply (proj1 (sort_strs_In _ _)) in Hs.
      destruct (scan_unique_sub _ _ _ _ _ _ Es s Hs) as [[]|H].
      exact (proj1 (Forall_forall _ _) Hshort s H). }
    pose proof (dict_lookup_indices _ _ _ Hd Ei) as Hlook.
    assert (Ht : dict_index_type (zlen (sort_strs seen)) = EU8 \/ dict_index_type (zlen (sort_strs seen)) = EU16 \/
                 dict_index_type (zlen (sort_strs seen)) = EU32).
    { unfold dict_index_type. destruct (_ <=? 255); [auto|]. destruct (_ <=? 65535); auto. }
    split.
    + unfold decode_free. destruct Ht as [-> |[-> | ->]]; cbn; rewrite Hlook; reflexivity.
    + unfold decode_free, decode_column. destruct Ht as [-> |[-> | ->]]; cbn; rewrite Hlook; reflexivity.
Qed.

(* ---------------------------------------------------------------------------------------------- *)
(* the refuted part: content is NOT preserved by the rebuild *)

Definition compact_cells (f2s : Z -> str) (parts : list (list push_op)) : result (list cell) :=
  do cols <- mapM (fun ops => finalize f2s (run_pushes f2s (colbuf_null 0) ops)) parts ;
  do c <- compact_column f2s cols ;
  column_cells c.

Definition C07_column_statement : Prop :=
  forall (f2s : Z -> str) (parts : list (list push_op)),
    (forall f, zlen (f2s f) < 16777216) ->
    Forall (ops_ok KEmpty) parts ->
    Forall (fun ops => int_guard (run_pushes f2s (colbuf_null 0) ops)) parts ->
    compact_cells f2s parts = Val (concat (map (expected f2s) parts)).

(* F1: a nullable float part: the decoded null map is handed to push_floats, which ignores it because
   the fresh buffer has no bitmap; the NULL comes back as its neighbour's value *)
Lemma F1_witness :
  compact_cells no_display [[PFloats [1; 2] None; PNulls 1]] = Val [CFloat 1; CFloat 2; CFloat 2] /\
  expected no_display [PFloats [1; 2] None; PNulls 1] = [CFloat 1; CFloat 2; CNull].
Proof. split; reflexivity. Qed.

(* F1': a nullable integer part: ToI64 after Nullable returns a plain vector; NULL comes back as 0 *)
Lemma F1'_witness :
  compact_cells no_display [[PInts [1; 2] None; PNulls 1]] = Val [CInt 1; CInt 2; CInt 0] /\
  expected no_display [PInts [1; 2] None; PNulls 1] = [CInt 1; CInt 2; CNull].
Proof. split; reflexivity. Qed.

(* F2: a hex-packed part cannot be decoded by the second decoder at all *)
Lemma F2_witness :
  compact_cells no_display
    [[PStrs [[100;101;97;100;98;101;101;102;48;49;50;51]; [48;49;50;51;52;53;54;55;56;57;97;98]] None]]
  = Panic Unsupported.
Proof. reflexivity. Qed.

Lemma C07_column_statement_refuted : ~ C07_column_statement.
Proof.
  intros H. specialize (H no_display [[PFloats [1; 2] None; PNulls 1]]).
  destruct F1_witness as [W1 W2]. rewrite W1 in H. cbn [map concat] in H. rewrite W2 in H.
  assert (E : Val [CFloat 1; CFloat 2; CFloat 2] = Val ([CFloat 1; CFloat 2; CNull] ++ [])).
  { apply H.
    - intros f. cbn. lia.
    - constructor; [|constructor]. cbn. repeat split; lia.
    - repeat constructor. }
  discriminate E.
Qed.

(* ---------------------------------------------------------------------------------------------- *)
(* the guarded part, for one integer part without NULLs: the rebuild is an ordinary ingestion push of
   the decoded values, so C01_roundtrip gives the content of the rebuilt column *)

Theorem compact_single_int f2s (xs : list Z) (mn mx : Z) (delta : bool) (col : column) :
  (forall f, zlen (f2s f) < 16777216) ->
  i64s xs -> new_boxed xs mn mx delta None = Val col ->
  int_guard (run_pushes f2s (colbuf_null 0) [PInts xs None]) ->
  (do c <- compact_column f2s [col] ; column_cells c) = Val (map CInt xs).
Proof.
  intros Hf Hx E HG.
  destruct (free_decode_int _ _ _ _ _ Hx E) as [Hd _].
  unfold compact_column, compact_ops. cbn [mapM]. rewrite Hd. cbn [bind repush_op].
  pose proof (stored_expected f2s Hf [PInts xs None]) as H.
  unfold stored in H. rewrite H.
  - reflexivity.
  - cbn. repeat split; auto.
  - exact HG.
Qed.
