From Coq Require Import NArith Arith List Bool Lia.
From LV Require Import Model.Envelope.
Import ListNotations.
Open Scope N_scope.

Definition bytes_ok (l : list N) : Prop := Forall (fun b => b < 256) l.

Lemma be_length k : forall n, length (be k n) = k.
Proof.
  induction k as [|k IH]; intros n; cbn [be]; [reflexivity|].
  rewrite app_length, IH. cbn. lia.
Qed.

Lemma be_bytes_ok k : forall n, bytes_ok (be k n).
Proof.
  induction k as [|k IH]; intros n; cbn [be]; [constructor|].
  apply Forall_app. split; [apply IH|]. constructor; [|constructor].
  apply N.mod_lt. lia.
Qed.

Lemma be_decode_snoc l b : be_decode (l ++ [b]) = be_decode l * 256 + b.
Proof. unfold be_decode. rewrite fold_left_app. reflexivity. Qed.

Lemma be_decode_be k : forall n, n < 256 ^ N.of_nat k -> be_decode (be k n) = n.
Proof.
  induction k as [|k IH]; intros n Hn.
  - cbn in *. lia.
  - cbn [be]. rewrite be_decode_snoc, IH.
    + pose proof (N.div_mod n 256 ltac:(lia)). lia.
    + apply N.div_lt_upper_bound; [lia|].
      rewrite Nat2N.inj_succ, N.pow_succ_r' in Hn. lia.
Qed.

(* every k-byte string is the big-endian representation of the number it decodes to *)
Lemma be_of_decode : forall l, bytes_ok l -> be (length l) (be_decode l) = l /\ be_decode l < 256 ^ N.of_nat (length l).
Proof.
  intros l. induction l as [|b l IH] using rev_ind; intros Hok.
  - split; [reflexivity|cbn; lia].
  - apply Forall_app in Hok as [Hl Hb]. inversion Hb as [|? ? Hb256 _]; subst.
    destruct (IH Hl) as [IH1 IH2].
    rewrite app_length, be_decode_snoc. cbn [length]. rewrite Nat.add_1_r. cbn [be].
    replace ((be_decode l * 256 + b) / 256) with (be_decode l)
      by (apply N.div_unique with b; lia).
    replace ((be_decode l * 256 + b) mod 256) with b
      by (apply N.mod_unique with (be_decode l); lia).
    rewrite IH1. split; [reflexivity|].
    rewrite Nat2N.inj_succ, N.pow_succ_r'. lia.
Qed.

Lemma be_inj_decode l n :
  bytes_ok l -> be_decode l = n -> l = be (length l) n.
Proof. intros Hok <-. symmetry. apply be_of_decode. exact Hok. Qed.

Lemma forallb_combine_eq : forall (a b : list N),
  length a = length b ->
  forallb (fun xy => fst xy =? snd xy) (combine a b) = true -> a = b.
Proof.
  induction a as [|x a IH]; destruct b as [|y b]; cbn; intros Hl Hf; try discriminate; [reflexivity|].
  apply andb_prop in Hf as [Hxy Hf]. apply N.eqb_eq in Hxy. subst.
  f_equal. apply IH; [lia|exact Hf].
Qed.

Lemma forallb_combine_refl : forall (a : list N),
  forallb (fun xy => fst xy =? snd xy) (combine a a) = true.
Proof. induction a as [|x a IH]; cbn; [reflexivity|]. rewrite N.eqb_refl. exact IH. Qed.

Lemma firstn_app_exact {A} (a b : list A) n : length a = n -> firstn n (a ++ b) = a.
Proof. intros <-. rewrite firstn_app, Nat.sub_diag, firstn_O, app_nil_r. apply firstn_all. Qed.

Lemma Forall_firstn {A} (P : A -> Prop) n : forall l, Forall P l -> Forall P (firstn n l).
Proof.
  induction n as [|n IH]; intros l Hl; [constructor|].
  destruct l as [|x l]; [constructor|]. inversion Hl; subst. cbn [firstn]. constructor; auto.
Qed.

Lemma Forall_skipn {A} (P : A -> Prop) n : forall l, Forall P l -> Forall P (skipn n l).
Proof.
  induction n as [|n IH]; intros l Hl; [exact Hl|].
  destruct l as [|x l]; [constructor|]. inversion Hl; subst. cbn [skipn]. auto.
Qed.

Lemma skipn_skipn {A} : forall (m n : nat) (l : list A), skipn m (skipn n l) = skipn (m + n) l.
Proof.
  intros m n. revert m. induction n as [|n IH]; intros m l.
  - rewrite Nat.add_0_r. reflexivity.
  - destruct l as [|x l]; [rewrite !skipn_nil; reflexivity|].
    rewrite Nat.add_succ_r. cbn [skipn]. apply IH.
Qed.

Lemma skipn_app_exact {A} (a b : list A) n : length a = n -> skipn n (a ++ b) = b.
Proof. intros <-. rewrite skipn_app, Nat.sub_diag, skipn_all. reflexivity. Qed.

Section WithDigest.
  Variable H : list N -> list N.
  Hypothesis H_len : forall p, length (H p) = 32%nat.

  Lemma store_length p : length (store H p) = (48 + length p)%nat.
  Proof. unfold store. rewrite !app_length, !be_length, H_len. lia. Qed.

  Lemma store_f8 p : firstn 8 (store H p) = be 8 0.
  Proof. unfold store. apply firstn_app_exact, be_length. Qed.

  Lemma store_sk8 p : skipn 8 (store H p) = be 8 (N.of_nat (length p)) ++ H p ++ p.
  Proof. unfold store. apply skipn_app_exact, be_length. Qed.

  Lemma store_lenfield p : firstn 8 (skipn 8 (store H p)) = be 8 (N.of_nat (length p)).
  Proof. rewrite store_sk8. apply firstn_app_exact, be_length. Qed.

  Lemma store_sk16 p : skipn 16 (store H p) = H p ++ p.
  Proof.
    change 16%nat with (8 + 8)%nat. rewrite <- skipn_skipn, store_sk8.
    apply skipn_app_exact, be_length.
  Qed.

  Lemma store_sk48 p : skipn 48 (store H p) = p.
  Proof.
    change 48%nat with (32 + 16)%nat. rewrite <- skipn_skipn, store_sk16.
    apply skipn_app_exact, H_len.
  Qed.

  Lemma store_digest p : firstn 32 (skipn 16 (store H p)) = H p.
  Proof. rewrite store_sk16. apply firstn_app_exact, H_len. Qed.

  Lemma store_f48 p : firstn 48 (store H p) = be 8 0 ++ be 8 (N.of_nat (length p)) ++ H p.
  Proof.
    unfold store. rewrite !app_assoc. apply firstn_app_exact.
    rewrite !app_length, !be_length, H_len. reflexivity.
  Qed.

  Lemma store_f16 p : firstn 16 (store H p) = be 8 0 ++ be 8 (N.of_nat (length p)).
  Proof.
    unfold store. rewrite !app_assoc. rewrite <- app_assoc. apply firstn_app_exact.
    rewrite !app_length, !be_length. reflexivity.
  Qed.

  (* C14_envelope_roundtrip *)
  Theorem load_store p :
    N.of_nat (length p) <= u64_max - 48 ->
    load H (store H p) = Loaded p.
  Proof.
    intros Hlen. unfold load.
    rewrite store_f8, store_lenfield, store_digest, store_sk48, store_length.
    destruct (N.ltb_spec (N.of_nat (48 + length p)) 48) as [Hc|_]; [lia|].
    rewrite be_decode_be by (cbn; lia). cbn [N.eqb negb].
    unfold u64_max in *.
    rewrite be_decode_be by (change (256 ^ N.of_nat 8) with 18446744073709551616; lia).
    destruct (N.ltb_spec 18446744073709551615 (48 + N.of_nat (length p))) as [Hc|_]; [lia|].
    replace (N.of_nat (48 + length p) =? 48 + N.of_nat (length p)) with true
      by (symmetry; apply N.eqb_eq; lia).
    cbn [negb].
    rewrite forallb_combine_refl, Nat.eqb_refl. reflexivity.
  Qed.

  Lemma split3 (b : list N) : (48 <= length b)%nat ->
    b = firstn 8 b ++ firstn 8 (skipn 8 b) ++ firstn 32 (skipn 16 b) ++ skipn 48 b.
  Proof.
    intros Hl.
    rewrite <- (firstn_skipn 8 b) at 1. f_equal.
    rewrite <- (firstn_skipn 8 (skipn 8 b)) at 1. f_equal.
    rewrite skipn_skipn. cbn [Nat.add].
    rewrite <- (firstn_skipn 32 (skipn 16 b)) at 1. f_equal.
    rewrite skipn_skipn. reflexivity.
  Qed.

  (* C14_envelope_sound: whatever load accepts is exactly what store writes for that payload *)
  Theorem load_sound b p :
    bytes_ok b -> load H b = Loaded p -> b = store H p.
  Proof.
    intros Hok. unfold load.
    destruct (N.ltb_spec (N.of_nat (length b)) 48) as [|Hl48]; [discriminate|].
    destruct (N.eqb_spec (be_decode (firstn 8 b)) 0) as [Hv|]; [|discriminate]. cbn [negb].
    destruct (N.ltb_spec u64_max (48 + be_decode (firstn 8 (skipn 8 b)))) as [|Hov]; [discriminate|].
    destruct (N.eqb_spec (N.of_nat (length b)) (48 + be_decode (firstn 8 (skipn 8 b)))) as [Hlen|];
      [|discriminate]. cbn [negb].
    destruct (forallb _ _ && _) eqn:Hc; [|discriminate].
    intros E. assert (Ep : skipn 48 b = p) by congruence. clear E. subst p.
    apply andb_prop in Hc as [Hc1 Hc2]. apply Nat.eqb_eq in Hc2.
    apply forallb_combine_eq in Hc1; [|exact Hc2].
    assert (Hl : (48 <= length b)%nat) by lia.
    rewrite (split3 b Hl) at 1. unfold store.
    assert (Hok8 : bytes_ok (firstn 8 b)) by (apply Forall_firstn; exact Hok).
    assert (Hok8' : bytes_ok (firstn 8 (skipn 8 b))) by (apply Forall_firstn, Forall_skipn; exact Hok).
    f_equal; [|f_equal; [|f_equal]].
    - rewrite (be_inj_decode _ _ Hok8 Hv). rewrite firstn_length_le by lia. reflexivity.
    - rewrite (be_inj_decode _ _ Hok8' eq_refl) at 1.
      rewrite firstn_length_le by (rewrite skipn_length; lia).
      f_equal. rewrite skipn_length. lia.
    - exact Hc1.
  Qed.

  (* hence: a blob that is accepted but is not the stored one differs from it in the payload and
     collides under the digest, and has the same length *)
  Theorem tamper_rejected_or_collision p b p' :
    bytes_ok b -> b <> store H p -> load H b = Loaded p' ->
    p' <> p /\ (length b = length (store H p) -> length p' = length p /\
                (firstn 48 b = firstn 48 (store H p) -> H p' = H p)).
  Proof.
    intros Hok Hne Hl. pose proof (load_sound b p' Hok Hl) as E. subst b.
    split; [intros ->; apply Hne; reflexivity|].
    intros Hlen. rewrite !store_length in Hlen.
    assert (Hlp : length p' = length p) by lia. split; [exact Hlp|].
    intros Hpre. rewrite !store_f48, Hlp in Hpre.
    apply app_inv_head in Hpre. apply app_inv_head in Hpre. exact Hpre.
  Qed.

  (* truncations and extensions are rejected outright: no digest assumption needed *)
  Theorem wrong_length_rejected p b :
    N.of_nat (length p) <= u64_max - 48 ->
    bytes_ok b -> length b <> length (store H p) ->
    (exists n, b = firstn n (store H p)) \/ (exists s, b = store H p ++ s) ->
    forall p', load H b <> Loaded p'.
  Proof.
    intros Hpmax Hok Hlen Hshape p' Hl.
    pose proof (load_sound b p' Hok Hl) as E.
    assert (Hp' : length b = (48 + length p')%nat) by (rewrite E; apply store_length).
    assert (H16 : firstn 16 b = firstn 16 (store H p)).
    { destruct Hshape as [[n ->]|[s ->]].
      - rewrite firstn_firstn. rewrite firstn_length in Hp'.
        replace (Nat.min 16 n) with 16%nat by lia. reflexivity.
      - rewrite firstn_app. rewrite store_length.
        replace (16 - (48 + length p))%nat with 0%nat by lia. cbn [firstn]. apply app_nil_r. }
    rewrite E in H16. rewrite !store_f16 in H16. apply app_inv_head in H16.
    assert (Hb : N.of_nat (length p') < 256 ^ N.of_nat 8).
    { unfold load in Hl.
      destruct (N.ltb_spec (N.of_nat (length b)) 48); [discriminate|].
      destruct (negb _); [discriminate|].
      destruct (N.ltb_spec u64_max (48 + be_decode (firstn 8 (skipn 8 b)))) as [|Hov]; [discriminate|].
      destruct (N.eqb_spec (N.of_nat (length b)) (48 + be_decode (firstn 8 (skipn 8 b)))) as [Hl2|];
        [|discriminate].
      change (256 ^ N.of_nat 8) with 18446744073709551616. unfold u64_max in Hov. lia. }
    assert (Hd := f_equal be_decode H16).
    rewrite be_decode_be in Hd by exact Hb.
    rewrite be_decode_be in Hd
      by (change (256 ^ N.of_nat 8) with 18446744073709551616; unfold u64_max in Hpmax; lia).
    apply Hlen. rewrite store_length. lia.
  Qed.
End WithDigest.
