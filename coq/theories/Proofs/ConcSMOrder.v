(* C10 — consequences of the invariant: snapshots are clean prefixes, the flusher never panics,
   locks are acquired in one global order. *)
From Coq Require Import NArith List Bool Arith Lia.
From LV Require Import Model.ConcSM Proofs.ConcSMBase Proofs.ConcSMData Proofs.ConcSM.
Import ListNotations.

Definition reachable (st : state) : Prop :=
  exists ni nq sched, run sched (init ni nq) = Some st.

Lemma reachable_inv st : reachable st -> Inv st.
Proof. intros (ni & nq & sched & H). eapply inv_run; [apply inv_init|exact H]. Qed.

Lemma run_app s1 : forall s2 st, run (s1 ++ s2) st = match run s1 st with Some st1 => run s2 st1 | None => None end.
Proof.
  induction s1 as [|[t a] r IH]; simpl; intros s2 st; [reflexivity|].
  destruct (step t a st); [apply IH|reflexivity].
Qed.

Lemma reachable_step st t a st' : reachable st -> step t a st = Some st' -> reachable st'.
Proof.
  intros (ni & nq & sched & H) S. exists ni, nq, (sched ++ [(t, a)]).
  rewrite run_app, H. simpl. rewrite S. reflexivity.
Qed.

(* ---------------------------------------------------------------------------------------------- *)

Lemma concat_firstn_nodup {A} k (l : list (list A)) : NoDup (concat l) -> NoDup (concat (firstn k l)).
Proof.
  intro H. rewrite <- (firstn_skipn k l), concat_app in H. eapply NoDup_app_l. exact H.
Qed.

Lemma snapshot_prefix st n p k0 s :
  Inv st -> nth_error (qs st) n = Some p -> q_snapshot p = Some (k0, s) ->
  exists k, k0 <= k /\ k <= length (log (dat st)) /\
            s_batches s = firstn k (log (dat st)) /\
            snap_rows s = concat (firstn k (log (dat st))) /\
            (NoDup (concat (log (dat st))) -> NoDup (snap_rows s)).
Proof.
  intros (_ & _ & DI) Hn Hs. assert (HQ := di_q _ _ _ _ DI n p Hn).
  destruct p; simpl in Hs; try discriminate; injection Hs as <- <-; simpl in HQ;
    destruct HQ as ((j & J1 & J2 & J3) & _); exists j; unfold snap_rows; rewrite J3;
    (repeat split; [assumption|assumption|apply concat_firstn_nodup]).
Qed.

Lemma flusher_no_panic st : Inv st -> fl st <> F_panic.
Proof.
  intros (_ & _ & DI) E. assert (H := di_fl _ _ _ _ DI). rewrite E in H. exact H.
Qed.

(* ---------------------------------------------------------------------------------------------- *)
(* lock order                                                                                       *)

Definition held_by (st : state) (t : thr) (k : lk) : Prop := In t (holders (lks st) k).

Lemma apply_lockop_new t lo ls ls' k :
  apply_lockop t lo ls = Some ls' -> ~ In t (holders ls k) -> In t (holders ls' k) -> lo = Acq k.
Proof.
  destruct lo as [|k0|k0]; simpl.
  - intros H. injection H as <-. tauto.
  - destruct (can_acquire ls k0); [|discriminate]. intros H. injection H as <-.
    destruct (lk_eq_dec k0 k) as [->|N]; [reflexivity|].
    rewrite holders_set_other by exact N. tauto.
  - destruct (mem_thr t (holders ls k0)); [|discriminate]. intros H. injection H as <-.
    destruct (lk_eq_dec k0 k) as [->|N].
    + rewrite holders_set_same. intros _ I. apply in_remove_thr in I. tauto.
    + rewrite holders_set_other by exact N. tauto.
Qed.

Lemma lock_order st t a st' :
  Inv st -> step t a st = Some st' ->
  forall k, ~ held_by st t k -> held_by st' t k -> forall k', held_by st t k' -> rank k' < rank k.
Proof.
  intros (LI & _ & _) H k NH H' k' Hk'. unfold held_by in *.
  apply LI in Hk'.
  destruct t as [n| |n].
  - destruct (step_TI _ _ _ _ H) as (p & lo & p' & d' & Hn & Htr & Hal & _).
    rewrite (apply_lockop_new _ _ _ _ _ Hal NH H') in Htr.
    apply itrans_order in Htr. simpl in Htr, Hk'. rewrite Hn in Hk'. apply Htr. exact Hk'.
  - destruct (step_TF _ _ _ H) as (lo & p' & d' & Htr & Hal & _).
    rewrite (apply_lockop_new _ _ _ _ _ Hal NH H') in Htr.
    apply ftrans_order in Htr. simpl in Htr, Hk'. apply Htr. exact Hk'.
  - destruct (step_TQ _ _ _ _ H) as (p & lo & p' & d' & Hn & Htr & Hal & _).
    rewrite (apply_lockop_new _ _ _ _ _ Hal NH H') in Htr.
    apply qtrans_order in Htr. simpl in Htr, Hk'. rewrite Hn in Hk'. apply Htr. exact Hk'.
Qed.
