(* Catalogue, part 3: the state invariant - the in-memory column-name set of a client table, when
   loaded, is the catalogue of the acknowledged log - and its preservation by ingestion. *)
From Coq Require Import NArith ZArith List Bool Lia.
From LV Require Import Model.TableSM Model.Catalogue Model.WalSM
     Proofs.TableSM Proofs.WalSMBase Proofs.WalSM Proofs.WalSMLog Proofs.Catalogue Proofs.CatalogueLog.
Import ListNotations.
Open Scope N_scope.

Definition wal_log (s : db) : list batch := map (fun x => sg_data (snd x)) (d_wal s).

Record Cat (s : db) : Prop := {
  c_log : log_ok (acked s);
  c_wal : exists pre, acked s = pre ++ wal_log s;
  c_cols : forall t tt cs, user_table t = true -> lookup t (tabs s) = Some tt -> t_cols tt = Some cs ->
           same_names cs (log_names (acked s) t);
  c_nonempty : forall t tt, user_table t = true -> lookup t (tabs s) = Some tt -> content s t <> [];
  c_metacols : forall n t, user_table n = false -> lookup n (tabs s) = Some t -> t_cols t <> None
}.

Lemma user_table_seed : forall seed n d, user_table n = true -> seed_cols seed n d = d.
Proof.
  intros seed n d H. unfold user_table in H. apply andb_prop in H. destruct H as [H1 H2].
  apply negb_true_iff in H1, H2. unfold seed_cols. rewrite H1, H2. reflexivity.
Qed.

Lemma seed_cols_some : forall seed n d, seed_cols seed n (Some d) <> None.
Proof.
  intros seed n d. unfold seed_cols. destruct (is_meta_columns n); [discriminate|].
  destruct (is_meta_tables n); discriminate.
Qed.

Lemma cat_init : forall c, Cat (init c).
Proof.
  intro c. constructor; cbn [init acked tabs d_wal].
  - constructor.
  - exists []. reflexivity.
  - intros t tt cs Hu L. cbn in L. destruct (name_eqb t s_meta_tables) eqn:E; [|discriminate].
    apply name_eqb_eq in E. subst. discriminate.
  - intros t tt Hu L. cbn in L. destruct (name_eqb t s_meta_tables) eqn:E; [|discriminate].
    apply name_eqb_eq in E. subst. discriminate.
  - intros n t Hu L. cbn in L. destruct (name_eqb n s_meta_tables) eqn:E; [|discriminate].
    injection L as <-. cbn. discriminate.
Qed.

(* a client table that has no rows in the log has an empty catalogue *)
Lemma log_names_absent : forall log t, log_ok log -> user_table t = true ->
  acked_rows log t = [] -> log_names log t = [].
Proof.
  intros log t H Hu. induction H as [|log full H IH S]; [reflexivity|].
  rewrite acked_rows_snoc, log_names_snoc. intro E. apply app_eq_nil in E. destruct E as [E1 E2].
  rewrite (IH E1). cbn [app]. destruct (seg_client_rows _ _ _ S Hu) as [b [W [Er En]]]. rewrite En.
  destruct (find_tb t b) as [tb|] eqn:Ef; [|reflexivity]. exfalso.
  rewrite Er in E2. destruct (find_tb_in _ _ _ Ef) as [HI _].
  pose proof (wb_nonempty _ W) as Hc. rewrite Forall_forall in Hc. destruct (Hc _ HI) as [_ Hr]. contradiction.
Qed.

(* ---------------------------------------------------------------------------------------------- *)
(* apply_batch and the column-name sets *)

Lemma apply_batch_cols : forall b (l l' : tabsT),
  apply_batch b l = Val l' -> NoDup (map tb_name b) ->
  forall m t, lookup m l = Some t ->
    exists t', lookup m l' = Some t' /\
      match find_tb m b with
      | Some tb => exists cs, t_cols t = Some cs /\ t_cols t' = Some (add_names cs (tb_cols tb))
      | None => t_cols t' = t_cols t
      end.
Proof.
  induction b as [|tb rest IH]; cbn [apply_batch]; intros l l'.
  - intros H _ m t L. injection H as <-. exists t. split; auto. reflexivity.
  - destruct (lookup (tb_name tb) l) as [t0|] eqn:E0; [|discriminate].
    destruct (ingest_rows t0 (tb_cols tb) (tb_rows tb)) as [t1|] eqn:E1; [|discriminate].
    intros H ND m t L. inversion ND as [|? ? Hn ND']; subst.
    unfold ingest_rows in E1. destruct (t_cols t0) as [s0|] eqn:Ec; [|discriminate]. injection E1 as <-.
    unfold find_tb. cbn [find]. destruct (name_eqb (tb_name tb) m) eqn:E.
    + apply name_eqb_eq in E. subst m. rewrite E0 in L. injection L as <-.
      destruct (IH _ _ H ND' (tb_name tb) _ (lookup_upd_same _ _ _ _ E0)) as [t' [L' Hc]].
      exists t'. split; auto.
      assert (Ef : find_tb (tb_name tb) rest = None).
      { unfold find_tb. destruct (find _ rest) eqn:Ef; auto. apply find_some in Ef. destruct Ef as [HI He].
        apply name_eqb_eq in He. exfalso. apply Hn. rewrite <- He. apply in_map. exact HI. }
      rewrite Ef in Hc. exists s0. split; auto.
    + apply name_eqb_neq in E.
      apply (IH _ _ H ND' m t). rewrite lookup_upd_other; auto.
Qed.

(* ---------------------------------------------------------------------------------------------- *)
(* prepare: the catalogue entries it appends *)

Section Prepare.
  Variable s : db.
  Hypothesis I : Inv s.
  Hypothesis C : Cat s.
  Let LN := log_names (acked s).

  (* invariants of the table map while prepare runs *)
  Record prep_inv (l : tabsT) : Prop := {
    pi_grows : grows (tabs s) l;
    pi_cols : forall t tt cs, user_table t = true -> lookup t l = Some tt -> t_cols tt = Some cs ->
              same_names cs (LN t);
    pi_meta : forall n t, user_table n = false -> lookup n l = Some t -> t_cols t <> None
  }.

  Lemma prep_inv_start : prep_inv (tabs s).
  Proof.
    constructor; [apply grows_refl|apply (c_cols _ C)|apply (c_metacols _ C)].
  Qed.

  Lemma content_of_grown : forall l n t, grows (tabs s) l -> lookup n l = Some t -> table_content t = content s n.
  Proof.
    intros l n t G L. rewrite content_view. pose proof (grows_view _ _ G n) as M.
    unfold view in M at 2. rewrite L in M. apply modc_content. exact M.
  Qed.

  Lemma absent_in_grown : forall l n, grows (tabs s) l -> lookup n l = None -> lookup n (tabs s) = None.
  Proof.
    intros l n [G1 _] L. destruct (lookup n (tabs s)) as [t|] eqn:E; auto.
    destruct (G1 _ _ E) as [t' [L' _]]. congruence.
  Qed.

  Lemma ln_absent : forall n, user_table n = true -> lookup n (tabs s) = None -> LN n = [].
  Proof.
    intros n Hu L. unfold LN. apply log_names_absent; [apply (c_log _ C)|exact Hu|].
    rewrite <- (i_acked _ I). unfold content. rewrite L. reflexivity.
  Qed.

  Lemma prep_create : forall seed l n l' b,
    prep_inv l -> create_if_empty seed n l = (l', b) -> prep_inv l'.
  Proof.
    intros seed l n l' b [G Pc Pm] E. pose proof (grows_create _ _ _ _ _ E) as G'.
    destruct (create_if_empty_spec _ _ _ _ _ E) as [_ [H2 [H3 [H4 _]]]].
    constructor.
    - eapply grows_trans; eauto.
    - intros t tt cs Hu L Hc. destruct (lookup t l) as [t0|] eqn:L0.
      + rewrite (H2 _ _ L0) in L. injection L as <-. eapply Pc; eauto.
      + destruct (list_eq_dec N.eq_dec t n) as [->|Hne].
        * destruct (H4 L0) as [c0 Hc0]. unfold create_if_empty in E. rewrite L0 in E. injection E as <- _.
          rewrite lookup_app_new, L0, name_eqb_refl in L. injection L as <-. cbn in Hc.
          rewrite (user_table_seed _ _ _ Hu) in Hc. injection Hc as <-.
          rewrite (ln_absent n Hu (absent_in_grown _ _ G L0)). intro x. tauto.
        * rewrite (H3 _ L0 Hne) in L. discriminate.
    - intros m t Hu L. destruct (lookup m l) as [t0|] eqn:L0.
      + rewrite (H2 _ _ L0) in L. injection L as <-. eapply Pm; eauto.
      + destruct (list_eq_dec N.eq_dec m n) as [->|Hne].
        * unfold create_if_empty in E. rewrite L0 in E. injection E as <- _.
          rewrite lookup_app_new, L0, name_eqb_refl in L. injection L as <-. cbn.
          apply seed_cols_some.
        * rewrite (H3 _ L0 Hne) in L. discriminate.
  Qed.

  Lemma prep_ensure : forall l n l',
    prep_inv l -> user_table n = true -> ensure_cols n l = Val l' ->
    prep_inv l' /\ exists t cs, lookup n l' = Some t /\ t_cols t = Some cs /\ same_names cs (LN n).
  Proof.
    intros l n l' [G Pc Pm] Hu E. unfold ensure_cols in E.
    destruct (lookup n l) as [t|] eqn:L; [|discriminate].
    destruct (t_cols t) as [cs|] eqn:Ec.
    - injection E as <-. split; [constructor; auto|]. exists t, cs. split; auto. split; auto. eapply Pc; eauto.
    - destruct (lookup (meta_columns_of n) l) as [mc|] eqn:Lm; [|discriminate].
      destruct (string_column s_column_name (table_content mc)) as [names|] eqn:En; [|discriminate].
      injection E as <-.
      assert (Hn : names = LN n).
      { rewrite (content_of_grown _ _ _ G Lm), (i_acked _ I) in En.
        rewrite (log_string_column _ _ (c_log _ C) Hu) in En. injection En as <-. reflexivity. }
      assert (Hs : same_names (add_names [] names) (LN n)).
      { intro x. rewrite add_names_in, Hn. cbn. tauto. }
      split.
      + constructor.
        * eapply grows_trans; [exact G|]. apply grows_of_modc. apply tabs_modc_upd. exact L.
        * intros t0 tt cs Hu0 L0 Hc. destruct (list_eq_dec N.eq_dec t0 n) as [->|Hne].
          -- rewrite (lookup_upd_same _ _ _ _ L) in L0. injection L0 as <-. cbn in Hc. injection Hc as <-. exact Hs.
          -- rewrite lookup_upd_other in L0; auto. eapply Pc; eauto.
        * intros m t0 Hum L0. destruct (list_eq_dec N.eq_dec m n) as [->|Hne]; [congruence|].
          rewrite lookup_upd_other in L0; auto. eapply Pm; eauto.
      + exists (set_cols t (Some (add_names [] names))), (add_names [] names).
        split; [eapply lookup_upd_same; eauto|]. split; auto.
  Qed.

  Lemma prepare_spec : forall seed b l created colrows l' created' colrows',
    prep_inv l -> Forall (fun tb => user_table (tb_name tb) = true) b ->
    prepare seed b l created colrows = Val (l', created', colrows') ->
    prep_inv l' /\
    colrows' = colrows ++ flat_map (fun tb => meta_columns_batch (tb_name tb) (new_names (LN (tb_name tb)) (tb_cols tb))) b.
  Proof.
    induction b as [|tb rest IH]; cbn [prepare]; intros l created colrows l' created' colrows' P Hu.
    - intro H. injection H as E1 E2 E3. subst. split; auto. rewrite app_nil_r; reflexivity.
    - inversion Hu as [|? ? Hu1 Hu2]; subst.
      destruct (create_if_empty seed (tb_name tb) l) as [l1 c1] eqn:E1.
      destruct (create_if_empty seed (meta_columns_of (tb_name tb)) l1) as [l2 c2] eqn:E2.
      destruct (ensure_cols (tb_name tb) l2) as [l3| | | |] eqn:E3; cbn [bind]; try discriminate.
      destruct (lookup (tb_name tb) l3) as [t|] eqn:L3; [|discriminate].
      destruct (t_cols t) as [cs|] eqn:Ec; [|discriminate].
      intro H.
      pose proof (prep_create _ _ _ _ _ P E1) as P1.
      pose proof (prep_create _ _ _ _ _ P1 E2) as P2.
      destruct (prep_ensure _ _ _ P2 Hu1 E3) as [P3 [t' [cs' [L' [Ec' Hs]]]]].
      rewrite L3 in L'. injection L' as <-. rewrite Ec in Ec'. injection Ec' as <-.
      rewrite (new_names_ext _ _ (tb_cols tb) Hs) in H.
      destruct (IH _ _ _ _ _ _ P3 Hu2 H) as [P' Ecol].
      split; auto. rewrite Ecol; cbn [flat_map]; rewrite app_assoc; reflexivity.
  Qed.

End Prepare.

(* ---------------------------------------------------------------------------------------------- *)
(* the event buffer ingestion writes *)

Lemma user_rows_nil : forall b n, Forall (fun tb => user_table (tb_name tb) = true) b ->
  user_table n = false -> batch_rows n b = [].
Proof.
  induction b as [|tb b IH]; intros n H Hn; [reflexivity|]. inversion H; subst.
  rewrite batch_rows_cons. destruct (name_eqb (tb_name tb) n) eqn:E.
  - apply name_eqb_eq in E. subst. congruence.
  - cbn. apply IH; auto.
Qed.

Lemma meta_columns_of_inj : forall a b, meta_columns_of a = meta_columns_of b -> a = b.
Proof. intros a b H. unfold meta_columns_of in H. apply app_inv_head in H. exact H. Qed.

Lemma is_meta_columns_of : forall t, is_meta_columns (meta_columns_of t) = true.
Proof. intro t. unfold is_meta_columns, meta_columns_of. apply is_prefix_app. Qed.

Lemma meta_tables_not_columns : forall t, s_meta_tables <> meta_columns_of t.
Proof. intros t H. pose proof (is_meta_columns_of t) as E. rewrite <- H in E. discriminate. Qed.

Definition colrows_of (LN : name -> list name) (b : batch) : batch :=
  flat_map (fun tb => meta_columns_batch (tb_name tb) (new_names (LN (tb_name tb)) (tb_cols tb))) b.

Lemma colrows_meta : forall LN b, meta_named (colrows_of LN b).
Proof.
  intros LN b. unfold colrows_of. induction b as [|tb b IH]; [constructor|]. cbn [flat_map].
  apply meta_named_app; auto. apply meta_columns_batch_meta.
Qed.

Lemma meta_columns_batch_rows : forall t fresh n,
  batch_rows n (meta_columns_batch t fresh) =
  if name_eqb (meta_columns_of t) n then map (fun c => [(s_column_name, CStr c)]) fresh else [].
Proof.
  intros t fresh n. unfold meta_columns_batch. destruct fresh as [|f fs].
  - change (batch_rows n []) with (@nil row). destruct (name_eqb (meta_columns_of t) n); reflexivity.
  - rewrite batch_rows_cons. cbn [tb_name tb_rows]. change (batch_rows n []) with (@nil row).
    rewrite app_nil_r. destruct (name_eqb (meta_columns_of t) n); reflexivity.
Qed.

Lemma colrows_rows : forall LN b t, NoDup (map tb_name b) ->
  batch_rows (meta_columns_of t) (colrows_of LN b) =
  match find_tb t b with
  | Some tb => map (fun c => [(s_column_name, CStr c)]) (new_names (LN t) (tb_cols tb))
  | None => []
  end.
Proof.
  intros LN b t. unfold colrows_of. induction b as [|tb b IH]; intro ND; [reflexivity|].
  inversion ND as [|? ? Hn ND']; subst. cbn [flat_map]. rewrite batch_rows_app, meta_columns_batch_rows.
  unfold find_tb. cbn [find]. destruct (name_eqb (tb_name tb) t) eqn:E.
  - apply name_eqb_eq in E. subst t. rewrite name_eqb_refl.
    assert (E' : find_tb (tb_name tb) b = None).
    { unfold find_tb. destruct (find _ b) eqn:Ef; auto. apply find_some in Ef. destruct Ef as [HI He].
      apply name_eqb_eq in He. exfalso. apply Hn. rewrite <- He. apply in_map. exact HI. }
    rewrite (IH ND'), E', app_nil_r. reflexivity.
  - assert (E' : name_eqb (meta_columns_of (tb_name tb)) (meta_columns_of t) = false).
    { apply name_eqb_neq. intro H. apply meta_columns_of_inj in H. apply name_eqb_neq in E. contradiction. }
    rewrite E'. cbn [app]. apply IH. exact ND'.
Qed.

Lemma meta_tables_batch_rows_other : forall created n, n <> s_meta_tables -> batch_rows n (meta_tables_batch created) = [].
Proof.
  intros created n H. unfold meta_tables_batch. destruct created; [reflexivity|].
  rewrite batch_rows_cons. cbn [tb_name]. assert (E : name_eqb s_meta_tables n = false) by (apply name_eqb_neq; congruence).
  rewrite E. reflexivity.
Qed.

(* names of the entries of the written buffer are pairwise distinct *)
Lemma colrows_names : forall LN b, incl (map tb_name (colrows_of LN b)) (map meta_columns_of (map tb_name b)).
Proof.
  intros LN b. unfold colrows_of. induction b as [|tb b IH]; [intros x []|]. cbn [flat_map map].
  rewrite map_app. intros x Hx. apply in_app_or in Hx. destruct Hx as [Hx|Hx].
  - unfold meta_columns_batch in Hx. destruct (new_names _ _); [destruct Hx|]. cbn in Hx.
    destruct Hx as [<-|[]]. left. reflexivity.
  - right. apply IH. exact Hx.
Qed.

Lemma colrows_nodup : forall LN b, NoDup (map tb_name b) -> NoDup (map tb_name (colrows_of LN b)).
Proof.
  intros LN b. unfold colrows_of. induction b as [|tb b IH]; intro ND; [constructor|].
  inversion ND as [|? ? Hn ND']; subst. cbn [flat_map]. rewrite map_app.
  unfold meta_columns_batch at 1. destruct (new_names _ _) as [|f fs]; [cbn [map app]; apply IH; exact ND'|].
  cbn [map app tb_name]. constructor; [|apply IH; exact ND'].
  intro HI. apply (colrows_names LN b) in HI. apply in_map_iff in HI. destruct HI as [x [Ex Hx]].
  apply meta_columns_of_inj in Ex. subst. contradiction.
Qed.

Lemma full_nodup : forall LN b created, wf_batch b ->
  NoDup (map tb_name (b ++ meta_tables_batch created ++ colrows_of LN b)).
Proof.
  intros LN b created W. rewrite !map_app.
  assert (N3 : NoDup (map tb_name (colrows_of LN b))) by (apply colrows_nodup; apply (wb_names _ W)).
  assert (M3 : forall x, In x (map tb_name (colrows_of LN b)) -> user_table x = false /\ x <> s_meta_tables).
  { intros x Hx. apply colrows_names in Hx. apply in_map_iff in Hx. destruct Hx as [y [<- _]].
    split; [apply meta_columns_of_meta|]. intro E. symmetry in E. apply meta_tables_not_columns in E. exact E. }
  assert (N23 : NoDup (map tb_name (meta_tables_batch created) ++ map tb_name (colrows_of LN b))).
  { unfold meta_tables_batch. destruct created; cbn [map app]; auto. constructor; auto.
    intro HI. apply M3 in HI. destruct HI as [_ HI]. apply HI. reflexivity. }
  apply nodup_app_comm.
  assert (U : forall x, In x (map tb_name b) -> user_table x = true).
  { intros x Hx. apply in_map_iff in Hx. destruct Hx as [tb [<- Hx]].
    pose proof (wb_user _ W) as H. rewrite Forall_forall in H. apply H. exact Hx. }
  assert (M23 : forall x, In x (map tb_name (meta_tables_batch created) ++ map tb_name (colrows_of LN b)) -> user_table x = false).
  { intros x Hx. apply in_app_or in Hx. destruct Hx as [Hx|Hx]; [|apply M3; exact Hx].
    unfold meta_tables_batch in Hx. destruct created; [destruct Hx|]. cbn in Hx. destruct Hx as [<-|[]]. reflexivity. }
  revert N23 M23. generalize (map tb_name (meta_tables_batch created) ++ map tb_name (colrows_of LN b)).
  intros l Nl Ml. induction l as [|x l IH]; cbn [app]; [apply (wb_names _ W)|].
  inversion Nl; subst. constructor.
  - intro HI. apply in_app_or in HI. destruct HI as [HI|HI]; [contradiction|].
    apply U in HI. rewrite (Ml x (or_introl eq_refl)) in HI. discriminate.
  - apply IH; auto. intros y Hy. apply Ml. right. exact Hy.
Qed.

Lemma find_app' : forall {A} (f : A -> bool) a b,
  find f (a ++ b) = match find f a with Some x => Some x | None => find f b end.
Proof. induction a as [|x a IH]; cbn; intro b; auto. destruct (f x); auto. Qed.

Lemma find_tb_app_user : forall t b extra, user_table t = true -> meta_named extra ->
  find_tb t (b ++ extra) = find_tb t b.
Proof.
  intros t b extra Hu M. unfold find_tb. rewrite find_app'.
  destruct (find (fun tb => name_eqb (tb_name tb) t) b); [reflexivity|].
  destruct (find _ extra) eqn:E; auto. apply find_some in E. destruct E as [HI He].
  apply name_eqb_eq in He. unfold meta_named in M. rewrite Forall_forall in M. apply M in HI. congruence.
Qed.

(* keys created by prepare *)
Lemma prepare_keys : forall seed b l created colrows l' created' colrows',
  prepare seed b l created colrows = Val (l', created', colrows') ->
  forall m, In m (keys l') -> In m (keys l) \/ exists tb, In tb b /\ (m = tb_name tb \/ m = meta_columns_of (tb_name tb)).
Proof.
  induction b as [|tb rest IH]; cbn [prepare]; intros l created colrows l' created' colrows'.
  - intro H. injection H as E _ _. subst. auto.
  - destruct (create_if_empty seed (tb_name tb) l) as [l1 c1] eqn:E1.
    destruct (create_if_empty seed (meta_columns_of (tb_name tb)) l1) as [l2 c2] eqn:E2.
    destruct (ensure_cols (tb_name tb) l2) as [l3| | | |] eqn:E3; cbn [bind]; try discriminate.
    destruct (lookup (tb_name tb) l3) as [t|]; [|discriminate].
    destruct (t_cols t); [|discriminate].
    intros H m Hm. destruct (IH _ _ _ _ _ _ H m Hm) as [HI|[tb' [HI Hn]]].
    + pose proof (ensure_cols_spec _ _ _ E3) as [[K3 _] _]. rewrite K3 in HI.
      destruct (create_if_empty_spec _ _ _ _ _ E2) as [_ [_ [_ [_ [_ K2]]]]].
      destruct (create_if_empty_spec _ _ _ _ _ E1) as [_ [_ [_ [_ [_ K1]]]]].
      destruct (K2 _ HI) as [HI2|E]; [|subst m; right; exists tb; split; [left; reflexivity|auto]].
      destruct (K1 _ HI2) as [HI1|E]; [auto|subst m; right; exists tb; split; [left; reflexivity|auto]].
    + right. exists tb'. split; [right; exact HI|exact Hn].
Qed.

(* ---------------------------------------------------------------------------------------------- *)
(* ingestion preserves the catalogue invariant *)

Lemma ingest_cat : forall c b bytes s s',
  Inv s -> Cat s -> wf_batch b -> ingest c b bytes s = Val s' -> Cat s'.
Proof.
  intros c b bytes s s' I C W. unfold ingest.
  destruct (c_max_wal_bytes c <? wal_size s); [discriminate|].
  destruct (prepare code_seed b (tabs s) [] []) as [[[l1 created] colrows]| | | |] eqn:Ep;
    cbn [bind]; try discriminate.
  destruct (prepare_spec s I C _ _ _ _ _ _ _ _ (prep_inv_start s C) (wb_user _ W) Ep) as [P1 Ecol].
  cbn [app] in Ecol. fold (colrows_of (log_names (acked s)) b) in Ecol. subst colrows.
  set (LN := log_names (acked s)) in *.
  set (extra := meta_tables_batch created ++ colrows_of LN b).
  set (full := b ++ extra).
  destruct (apply_batch full l1) as [l2| | | |] eqn:Ea; cbn [bind]; try discriminate.
  intro H. injection H as <-.
  assert (Mextra : meta_named extra).
  { apply meta_named_app; [apply meta_tables_batch_meta|apply colrows_meta]. }
  assert (NDfull : NoDup (map tb_name full)) by (apply full_nodup; exact W).
  (* the catalogue rows of the written buffer *)
  assert (Hmc : forall t, user_table t = true ->
            batch_rows (meta_columns_of t) full =
            match find_tb t b with
            | Some tb => map (fun c => [(s_column_name, CStr c)]) (new_names (LN t) (tb_cols tb))
            | None => []
            end).
  { intros t Hu. unfold full, extra. rewrite !batch_rows_app.
    rewrite (user_rows_nil _ _ (wb_user _ W) (meta_columns_of_meta t)).
    rewrite meta_tables_batch_rows_other; [|intro E; symmetry in E; apply meta_tables_not_columns in E; exact E].
    cbn [app]. apply colrows_rows. apply (wb_names _ W). }
  assert (Sok : seg_ok (acked s) full).
  { exists b, extra. split; [reflexivity|]. split; [exact W|]. split; [exact Mextra|].
    split.
    { unfold extra. apply Forall_app. split.
      - unfold meta_tables_batch. destruct created; constructor; [|constructor].
        unfold extra_ok. cbn [tb_name tb_rows]. apply Forall_forall. intros r Hr.
        apply in_map_iff in Hr. destruct Hr as [x [<- _]]. left. split; [reflexivity|].
        unfold meta_tables_row. cbn. intros y Hy. exact Hy.
      - unfold colrows_of. clear. induction b as [|tb b IHb]; [constructor|]. cbn [flat_map].
        apply Forall_app. split; auto. unfold meta_columns_batch.
        destruct (new_names _ _); constructor; [|constructor].
        unfold extra_ok. cbn [tb_name tb_rows]. apply Forall_forall. intros r Hr.
        apply in_map_iff in Hr. destruct Hr as [x [<- _]]. right. split; [apply is_meta_columns_of|].
        exists x. reflexivity. }
    intros t Hu. rewrite (Hmc t Hu). destruct (find_tb t b); [|split; [constructor|reflexivity]].
    split; [apply cat_rows_map|apply names_of_cat_map]. }
  pose proof (apply_batch_spec _ _ _ Ea) as [K2 _].
  constructor; cbn [acked tabs d_wal].
  - apply log_ok_snoc; [apply (c_log _ C)|exact Sok].
  - destruct (c_wal _ C) as [pre Epre]. exists pre. unfold wal_log. cbn [d_wal].
    rewrite map_app. cbn [map snd sg_data]. rewrite app_assoc. f_equal. exact Epre.
  - intros t tt' cs' Hu L2 Hc.
    assert (L1 : exists tt1, lookup t l1 = Some tt1).
    { apply lookup_in_some. rewrite <- K2. eapply lookup_some_in. exact L2. }
    destruct L1 as [tt1 L1].
    destruct (apply_batch_cols _ _ _ Ea NDfull _ _ L1) as [tt2 [L2' Hcols]].
    rewrite L2 in L2'. injection L2' as <-.
    unfold full in Hcols. rewrite (find_tb_app_user _ _ _ Hu Mextra) in Hcols.
    rewrite log_names_snoc. fold (LN t). rewrite (Hmc t Hu).
    destruct (find_tb t b) as [tb|] eqn:Ef.
    + destruct Hcols as [cs [Ec1 Ec2]]. rewrite Hc in Ec2. injection Ec2 as ->.
      pose proof (pi_cols _ _ P1 _ _ _ Hu L1 Ec1) as Hs. fold LN in Hs.
      rewrite names_of_cat_map. intro x. rewrite add_names_in, in_app_iff, new_names_in, (Hs x).
      destruct (in_dec (list_eq_dec N.eq_dec) x (LN t)); tauto.
    + rewrite Hcols in Hc. pose proof (pi_cols _ _ P1 _ _ _ Hu L1 Hc) as Hs. fold LN in Hs.
      cbn [names_of flat_map]. rewrite app_nil_r. exact Hs.
  - intros t tt' Hu L2.
    assert (Hcont : content {| tabs := l2; next_wal := next_wal s + 1; earliest := earliest s;
                               wal_size := wal_size s + bytes; d_cursor := d_cursor s;
                               d_wal := d_wal s ++ [(next_wal s, {| sg_bytes := bytes; sg_data := full |})];
                               acked := acked s ++ [full] |} t = content s t ++ batch_rows t full).
    { rewrite !content_view. cbn [tabs]. apply table_content_appended.
      pose proof (grows_view _ _ (pi_grows _ _ P1) t) as [x Hx]. pose proof (apply_batch_view _ _ _ Ea t) as A.
      rewrite Hx in A. destruct A as [y ->]. exists y. reflexivity. }
    rewrite Hcont. destruct (lookup t (tabs s)) as [t0|] eqn:L0.
    + pose proof (c_nonempty _ C _ _ Hu L0) as Hn. destruct (content s t); [contradiction|discriminate].
    + (* created by this request: it carries rows for it *)
      assert (HI : In t (keys l1)). { rewrite <- K2. eapply lookup_some_in. exact L2. }
      destruct (prepare_keys _ _ _ _ _ _ _ _ Ep _ HI) as [HI0|[tb [Htb [->| ->]]]].
      * apply lookup_none in L0. contradiction.
      * unfold full. rewrite batch_rows_app, (batch_rows_find _ _ (wb_names _ W)).
        assert (Ef : find_tb (tb_name tb) b = Some tb).
        { pose proof (wb_names _ W) as ND. clear - ND Htb. unfold find_tb.
          induction b as [|y b IHb]; [destruct Htb|]. inversion ND as [|? ? Hn ND']; subst. cbn [find].
          destruct Htb as [->|Htb]; [rewrite name_eqb_refl; reflexivity|].
          destruct (name_eqb (tb_name y) (tb_name tb)) eqn:E.
          - apply name_eqb_eq in E. exfalso. apply Hn. rewrite E. apply in_map. exact Htb.
          - apply IHb; auto. }
        rewrite Ef. pose proof (wb_nonempty _ W) as Hne. rewrite Forall_forall in Hne.
        destruct (Hne _ Htb) as [_ Hr]. destruct (tb_rows tb); [contradiction|].
        destruct (content s (tb_name tb)); discriminate.
      * rewrite meta_columns_of_meta in Hu. discriminate.
  - intros n t' Hu L2.
    assert (L1 : exists t1, lookup n l1 = Some t1).
    { apply lookup_in_some. rewrite <- K2. eapply lookup_some_in. exact L2. }
    destruct L1 as [t1 L1].
    destruct (apply_batch_cols _ _ _ Ea NDfull _ _ L1) as [t2 [L2' Hcols]].
    rewrite L2 in L2'. injection L2' as <-.
    destruct (find_tb n full).
    + destruct Hcols as [cs [_ ->]]. discriminate.
    + rewrite Hcols. eapply (pi_meta _ _ P1); eauto.
Qed.
