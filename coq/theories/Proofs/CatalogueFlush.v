(* Catalogue, part 4: a flush preserves the catalogue invariant (column-name sets are only ever
   loaded from a catalogue table whose content is that of the state the flush started from). *)
From Coq Require Import NArith ZArith List Bool Lia.
From LV Require Import Model.TableSM Model.Catalogue Model.WalSM
     Proofs.TableSM Proofs.WalSMBase Proofs.WalSM Proofs.WalSMLog Proofs.Catalogue
     Proofs.CatalogueLog Proofs.CatalogueInv.
Import ListNotations.
Open Scope N_scope.

Section Rel.
  Variable s : db.
  Hypothesis I : Inv s.
  Hypothesis C : Cat s.
  Let LN := log_names (acked s).

  Record cat_rel (l : tabsT) : Prop := {
    cr_keys : keys l = keys (tabs s);
    cr_content : forall n tt, lookup n l = Some tt -> table_content tt = content s n;
    cr_cols : forall t tt cs, user_table t = true -> lookup t l = Some tt -> t_cols tt = Some cs ->
              same_names cs (LN t);
    cr_meta : forall n tt, user_table n = false -> lookup n l = Some tt -> t_cols tt <> None
  }.

  Lemma cat_rel_start : cat_rel (tabs s).
  Proof.
    constructor; auto.
    - intros n tt L. unfold content. rewrite L. reflexivity.
    - apply (c_cols _ C).
    - apply (c_metacols _ C).
  Qed.

  Lemma cat_rel_map : forall st f l l',
    (forall t t', f t = Some t' -> table_content t' = table_content t /\ t_cols t' = t_cols t) ->
    cat_rel l -> map_tabs st f l = Val l' -> cat_rel l'.
  Proof.
    intros st f l l' Hf [K Hc Hcol Hm] E. apply map_tabs_spec in E. destruct E as [K' [S N]].
    assert (Back : forall n t', lookup n l' = Some t' -> exists t, lookup n l = Some t /\ f t = Some t').
    { intros n t' L'. destruct (lookup n l) as [t|] eqn:L; [|rewrite (N _ L) in L'; discriminate].
      destruct (S _ _ L) as [t'' [F L'']]. rewrite L' in L''. injection L'' as <-. eauto. }
    constructor.
    - congruence.
    - intros n t' L'. destruct (Back _ _ L') as [t [L F]]. destruct (Hf _ _ F) as [E1 _]. rewrite E1. eauto.
    - intros t t' cs Hu L' Hcs. destruct (Back _ _ L') as [t0 [L F]]. destruct (Hf _ _ F) as [_ E2].
      rewrite E2 in Hcs. eauto.
    - intros n t' Hu L'. destruct (Back _ _ L') as [t0 [L F]]. destruct (Hf _ _ F) as [_ E2].
      rewrite E2. eauto.
  Qed.

  Lemma cat_rel_upd : forall l n t t',
    cat_rel l -> lookup n l = Some t -> table_content t' = table_content t ->
    (user_table n = true -> forall cs, t_cols t' = Some cs -> same_names cs (LN n)) ->
    (user_table n = false -> t_cols t' <> None) ->
    cat_rel (upd n t' l).
  Proof.
    intros l n t t' [K Hc Hcol Hm] L Ec Hu1 Hu2. constructor.
    - rewrite keys_upd. exact K.
    - intros m tt Lm. destruct (list_eq_dec N.eq_dec m n) as [->|Hne].
      + rewrite (lookup_upd_same _ _ _ _ L) in Lm. injection Lm as <-. rewrite Ec. eauto.
      + rewrite lookup_upd_other in Lm; auto.
    - intros m tt cs Hu Lm Hcs. destruct (list_eq_dec N.eq_dec m n) as [->|Hne].
      + rewrite (lookup_upd_same _ _ _ _ L) in Lm. injection Lm as <-. auto.
      + rewrite lookup_upd_other in Lm; auto. eauto.
    - intros m tt Hu Lm. destruct (list_eq_dec N.eq_dec m n) as [->|Hne].
      + rewrite (lookup_upd_same _ _ _ _ L) in Lm. injection Lm as <-. auto.
      + rewrite lookup_upd_other in Lm; auto. eauto.
  Qed.

  Lemma batch_table_content : forall sz t, table_content (batch_table sz t) = table_content t.
  Proof.
    intros sz t. unfold batch_table, table_content. destruct (t_frozen t) as [|r rows] eqn:E.
    - rewrite E. reflexivity.
    - cbn [t_parts t_frozen t_buf]. rewrite part_rows_app. unfold part_rows at 2. cbn [flat_map p_rows].
      rewrite app_nil_r, <- app_assoc. reflexivity.
  Qed.

  Lemma batch_table_cols : forall sz t, t_cols (batch_table sz t) = t_cols t.
  Proof. intros sz t. unfold batch_table. destruct (t_frozen t); reflexivity. Qed.

  Lemma compact_content : forall sz i cols t t',
    compact true sz i cols t = TVal t' -> table_content t' = table_content t /\ t_cols t' = t_cols t.
  Proof.
    intros sz i cols t t' H. unfold compact in H.
    destruct (skipn i (t_parts t)) as [|first rest] eqn:E; [discriminate|]. cbn [andb] in H.
    destruct (cols_complete cols (part_rows (first :: rest))) eqn:Ec; cbn [negb] in H; [|discriminate].
    destruct (f1_free cols (first :: rest)) eqn:Ef; cbn [negb] in H; [|discriminate].
    injection H as <-. split; [|reflexivity]. unfold table_content. cbn [t_parts t_frozen t_buf].
    rewrite (rebuild_rows_id _ _ Ec Ef), part_rows_app. unfold part_rows at 2. cbn [flat_map p_rows].
    rewrite app_nil_r. f_equal.
    pose proof (firstn_skipn i (t_parts t)) as Hs. rewrite E in Hs. rewrite <- Hs at 2.
    rewrite part_rows_app. reflexivity.
  Qed.

  Lemma cat_rel_ensure : forall l n l',
    cat_rel l -> ensure_cols n l = Val l' -> cat_rel l'.
  Proof.
    intros l n l' R E. unfold ensure_cols in E.
    destruct (lookup n l) as [t|] eqn:L; [|discriminate].
    destruct (t_cols t) as [cs|] eqn:Ec; [injection E as <-; exact R|].
    destruct (lookup (meta_columns_of n) l) as [mc|] eqn:Lm; [|discriminate].
    destruct (string_column s_column_name (table_content mc)) as [names|] eqn:En; [|discriminate].
    injection E as <-. eapply cat_rel_upd; eauto.
    - intros Hu cs Hcs. cbn in Hcs. injection Hcs as <-.
      rewrite (cr_content _ R _ _ Lm), (i_acked _ I), (log_string_column _ _ (c_log _ C) Hu) in En.
      injection En as <-. intro x. rewrite add_names_in. cbn. unfold LN. tauto.
    - intros Hu. exfalso. eapply (cr_meta _ R); eauto.
  Qed.

  Lemma cat_rel_flush_table : forall c o n l l',
    cat_rel l -> flush_table true c o n l = Val l' -> cat_rel l'.
  Proof.
    intros c o n l l' R. unfold flush_table.
    destruct (lookup n l) as [t|] eqn:L; [|discriminate].
    set (t1 := batch_table (fst (sizes_for o n)) t).
    assert (R1 : cat_rel (upd n t1 l)).
    { eapply cat_rel_upd; eauto.
      - apply batch_table_content.
      - intros Hu cs Hcs. unfold t1 in Hcs. rewrite batch_table_cols in Hcs. eapply (cr_cols _ R); eauto.
      - intro Hu. unfold t1. rewrite batch_table_cols. eapply (cr_meta _ R); eauto. }
    destruct (plan_compaction (c_factor c) (t_parts t1)); try discriminate.
    - intro H. injection H as <-. exact R1.
    - destruct (ensure_cols n (upd n t1 l)) as [l1| | | |] eqn:Ee; cbn [bind]; try discriminate.
      pose proof (cat_rel_ensure _ _ _ R1 Ee) as R2.
      destruct (lookup n l1) as [t2|] eqn:L2; [|discriminate].
      destruct (t_cols t2) as [cols|] eqn:Ec; [|discriminate].
      destruct (compact true (snd (sizes_for o n)) i cols t2) as [t3| |] eqn:Ecp; cbn [lift_t bind]; try discriminate.
      intro H. injection H as <-. destruct (compact_content _ _ _ _ _ Ecp) as [E1 E2].
      eapply cat_rel_upd; eauto.
      + intros Hu cs Hcs. rewrite E2 in Hcs. eapply (cr_cols _ R2); eauto.
      + intro Hu. rewrite E2. eapply (cr_meta _ R2); eauto.
  Qed.

  Lemma cat_rel_flush_tables : forall c o names l l',
    cat_rel l -> flush_tables true c o names l = Val l' -> cat_rel l'.
  Proof.
    induction names as [|n names IH]; cbn [flush_tables]; intros l l' R.
    - intro H. injection H as <-. exact R.
    - destruct (flush_table true c o n l) as [l1| | | |] eqn:E; cbn [bind]; try discriminate.
      apply IH. eapply cat_rel_flush_table; eauto.
  Qed.

End Rel.

Lemma freeze_content : forall t t', freeze t = Some t' -> table_content t' = table_content t /\ t_cols t' = t_cols t.
Proof.
  intros t t' H. unfold freeze in H. destruct (t_frozen t) eqn:E; [|discriminate]. injection H as <-.
  split; [|reflexivity]. unfold table_content. cbn [t_parts t_frozen t_buf]. rewrite E, app_nil_r. reflexivity.
Qed.

Lemma delete_dead_content : forall t t', delete_dead t = Some t' -> table_content t' = table_content t /\ t_cols t' = t_cols t.
Proof.
  intros t t' H. unfold delete_dead in H. destruct (delete_files (t_dead t) (t_files t)); [|discriminate].
  injection H as <-. split; reflexivity.
Qed.

Lemma flush_cat : forall c o s s', Inv s -> Cat s -> flush true c o s = Val s' -> Cat s'.
Proof.
  intros c o s s' I C. unfold flush, flush_mid.
  destruct (freeze_all (tabs s)) as [l0| | | |] eqn:E0; cbn [bind]; try discriminate.
  destruct (flush_tables true c o (map fst l0) l0) as [l1| | | |] eqn:E1; cbn [bind]; try discriminate.
  destruct (map_tabs SNoTable (fun t => Some (publish_meta t)) l1) as [l2| | | |] eqn:E2; cbn [bind]; try discriminate.
  destruct (delete_orphans l2) as [l3| | | |] eqn:E3; cbn [bind]; try discriminate.
  destruct (delete_segments _ _ _) as [w|] eqn:Ew; cbn [of_opt bind]; [|discriminate].
  intro H.
  assert (F : flush true c o s = Val s').
  { unfold flush, flush_mid. rewrite E0. cbn [bind]. rewrite E1. cbn [bind]. rewrite E2. cbn [bind].
    rewrite E3. cbn [bind]. rewrite Ew. cbn [of_opt bind]. exact H. }
  destruct (flush_spec _ _ _ _ I F) as [_ [Hcont [Hack [Hw _]]]].
  injection H as <-.
  pose proof (cat_rel_start s C) as R.
  pose proof (cat_rel_map s _ _ _ _ freeze_content R E0) as R0.
  pose proof (cat_rel_flush_tables s I C _ _ _ _ _ R0 E1) as R1.
  assert (R2 : cat_rel s l2).
  { eapply cat_rel_map; [|exact R1|exact E2]. intros t t' Ht. injection Ht as <-. split; reflexivity. }
  pose proof (cat_rel_map s _ _ _ _ delete_dead_content R2 E3) as R3.
  constructor; cbn [acked tabs d_wal].
  - apply (c_log _ C).
  - exists (acked s). unfold wal_log. cbn [d_wal].
    assert (w = []) by (cbn [d_wal] in Hw; exact Hw). subst w. rewrite app_nil_r. reflexivity.
  - apply (cr_cols _ _ R3).
  - intros t tt Hu L. rewrite (Hcont t).
    assert (HI : In t (keys (tabs s))). { rewrite <- (cr_keys _ _ R3). eapply lookup_some_in. exact L. }
    destruct (lookup_in_some _ _ HI) as [t0 L0]. eapply (c_nonempty _ C); eauto.
  - apply (cr_meta _ _ R3).
Qed.
