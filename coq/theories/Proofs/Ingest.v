(* C01 composed: for every sequence of ingestion pushes the cells that the query-path decoder reads
   from the finished column are the cells the specification prescribes.
   History: on the code before /repo f5be0e2 / 481c464 / 3e7ef89 the statement was refuted by three
   witnesses (F4, F10, F19) and carried guards excluding their classes; on the repaired code the
   witnesses are positive examples and the only guard left concerns the range metadata of a
   delta-coded column whose maximum lies within 2^32 of i64::MAX. *)
From Coq Require Import ZArith List Bool Lia.
From LV Require Import Model.CodecBase Model.IntEnc Model.FloatEnc Model.StrEnc Model.Codec
  Model.ColumnBuffer Model.Ingest Proofs.CodecBase Proofs.IntEnc Proofs.FloatEnc Proofs.StrEnc
  Proofs.ColumnBuffer.
Import ListNotations.
Open Scope Z_scope.

Section WithF2S.
Variable f2s : Z -> str.
Hypothesis f2s_short : forall f, zlen (f2s f) < 16777216.

(* the kind component of the specification does not depend on the cells *)
Definition kind_step (k : kind) (op : push_op) : kind :=
  match op with
  | PNulls _ => k
  | PInts _ _ => match k with KEmpty | KInt => KInt | KFloat => KFloat | KStr | KMixed => KMixed end
  | PFloats _ _ => match k with KEmpty | KFloat | KInt => KFloat | KStr | KMixed => KMixed end
  | PStrs _ _ => match k with KEmpty | KStr => KStr | KInt | KFloat | KMixed => KMixed end
  end.

Lemma spec_push_kind k cs op : fst (spec_push f2s (k, cs) op) = kind_step k op.
Proof. destruct op; destruct k; reflexivity. Qed.

(* the domain: ingestion pushes (no caller-supplied null map), values in i64, strings shorter than
   2^24 bytes *)
Fixpoint ops_ok (k : kind) (ops : list push_op) : Prop :=
  match ops with
  | [] => True
  | op :: r => op_ok k op /\ ops_ok (kind_step k op) r
  end.

Lemma run_refines : forall ops cb k cs,
  Inv f2s cb k cs -> ops_ok k ops ->
  Inv f2s (run_pushes f2s cb ops) (fst (fold_left (spec_push f2s) ops (k, cs)))
      (snd (fold_left (spec_push f2s) ops (k, cs))).
Proof.
  induction ops as [|op ops IH]; intros cb k cs HI Hok; [exact HI|].
  destruct Hok as [Hop Hok]. unfold run_pushes. cbn [fold_left].
  pose proof (push_refines f2s f2s_short cb k cs op HI Hop) as HP.
  pose proof (spec_push_kind k cs op) as Hk.
  destruct (spec_push f2s (k, cs) op) as [k' cs'] eqn:Es. cbn [fst] in Hk. subst k'.
  exact (IH _ _ _ HP Hok).
Qed.

(* ---------------------------------------------------------------------------------------------- *)
(* finalize + decode returns the invariant's cells *)

Lemma cells_of_int_sval data present :
  cells_of (int_sval data present) = view (map CInt data) present.
Proof. destruct present; reflexivity. Qed.

Lemma cells_of_str_sval ss present :
  cells_of (str_sval ss present) = view (map CStr ss) present.
Proof. destruct present; reflexivity. Qed.

Theorem finalize_cells cb k cs col :
  Inv f2s cb k cs -> finalize f2s cb = Val col -> column_cells col = Val cs.
Proof.
  intros [Il Ik Iw Io Ic] E. unfold finalize in E.
  destruct (cb_buf cb) as [|values|data st|data|data] eqn:Eb.
  - injection E as <-. destruct Ic as [_ Ic]. cbn. rewrite Il. unfold zlen. rewrite Nat2Z.id.
    now rewrite <- Ic.
  - destruct Ic as [_ Ic]. cbn in Io.
    unfold column_cells. rewrite (str_finalize_decode _ _ _ Io E). cbn [bind].
    rewrite cells_of_str_sval. now rewrite Ic.
  - destruct Ic as [_ Ic]. cbn in Io. destruct Io as [_ Hd].
    unfold column_cells, int_finalize in *. rewrite (new_boxed_decode _ _ _ _ _ _ Hd E). cbn [bind].
    rewrite cells_of_int_sval. now rewrite Ic.
  - destruct Ic as [_ Ic]. injection E as <-. rewrite float_roundtrip.
    rewrite Ic. cbn [raw_cells]. destruct (cb_present cb); reflexivity.
  - destruct Ic as [_ Ic]. cbn in Io. rename Io into Hs.
    unfold column_cells. rewrite (str_finalize_decode _ _ _ Hs E). cbn [bind].
    rewrite cells_of_str_sval. now rewrite Ic.
Qed.

(* ---------------------------------------------------------------------------------------------- *)
(* finalize returns a column.  The one guard left: `max - offset` in create_col's range metadata is
   an i64 subtraction; for a delta-coded column with a negative minimum step it needs the maximum to
   stay 2^32 below i64::MAX (reaching it from statistics that select delta coding takes a run of more
   than 2^31 values).
   History: before the fixes this was [data <> []], not F10 (delta_safe), not F19. *)

Definition int_data_ok (data : list Z) (st : istats) : Prop :=
  delta_decision st (zlen data) = true -> st_max st <= 9223372032559808511.

Definition int_guard (cb : colbuf) : Prop :=
  match cb_buf cb with TInt data st => int_data_ok data st | _ => True end.

Theorem finalize_total cb k cs :
  Inv f2s cb k cs -> int_guard cb -> exists col, finalize f2s cb = Val col.
Proof.
  intros [Il Ik Iw Io Ic] HG. unfold finalize. unfold int_guard in HG.
  destruct (cb_buf cb) as [|values|data st|data|data] eqn:Eb.
  - eauto.
  - apply str_finalize_total.
  - cbn in Io. destruct Io as [Hst Hd]. unfold int_finalize, int_data_ok in *.
    destruct data as [|v0 r].
    + subst st. exact (new_boxed_empty (cb_present cb)).
    + destruct (istats_init_exact (v0 :: r)) as (B1 & B2 & B3 & B4 & B5 & B6); [discriminate|exact Hd|].
      cbn zeta in *. rewrite <- Hst in *.
      destruct (delta_decision st (zlen (v0 :: r))) eqn:Ed.
      * apply new_boxed_delta_total;
          [exact Hd| |exact B1|exact B2|exact B3|exact (HG eq_refl)].
        apply istats_allow_safe. rewrite <- Hst.
        unfold delta_decision in Ed. apply andb_true_iff in Ed. exact (proj1 Ed).
      * now apply new_boxed_plain_total.
  - eauto.
  - apply str_finalize_total.
Qed.

(* ---------------------------------------------------------------------------------------------- *)
(* the property *)

Theorem stored_expected ops :
  ops_ok KEmpty ops ->
  int_guard (run_pushes f2s (colbuf_null 0) ops) ->
  stored f2s ops = Val (expected f2s ops).
Proof.
  intros Hok HG. unfold stored, expected.
  pose proof (run_refines ops _ _ _ (inv_init f2s) Hok) as HI.
  destruct (finalize_total _ _ _ HI HG) as (col & E). rewrite E. cbn [bind].
  exact (finalize_cells _ _ _ _ HI E).
Qed.

(* rows are neither lost nor shifted: one cell per pushed row *)
Definition op_rows (op : push_op) : Z :=
  match op with
  | PInts xs _ => zlen xs | PFloats fs _ => zlen fs | PStrs ss _ => zlen ss | PNulls n => n
  end.

(* ---------------------------------------------------------------------------------------------- *)
(* the bitmap *)

Lemma nth_mask_list {A} p (d : A) : forall cs i k,
  (k < length cs)%nat -> nth k (mask_list p i d cs) d = if bv_get p (i + Z.of_nat k) then nth k cs d else d.
Proof.
  induction cs as [|c cs IH]; intros i k Hk; [cbn in Hk; lia|].
  destruct k as [|k].
  - cbn. now rewrite Z.add_0_r.
  - cbn [mask_list nth]. rewrite IH by (cbn in Hk; lia).
    replace (i + 1 + Z.of_nat k) with (i + Z.of_nat (S k)) by lia. reflexivity.
Qed.

Definition non_null (c : cell) : Prop := c <> CNull.

Lemma raw_cells_non_null b : Forall non_null (raw_cells f2s b).
Proof.
  destruct b; cbn; try constructor; apply Forall_forall; intros c Hc;
    apply in_map_iff in Hc as (x & <- & _); discriminate.
Qed.

(* after any ingestion history: bit i of `present` is set iff cell i is not NULL, no bit is set at
   or beyond the length, and a buffer without a bitmap holds no NULL unless it is entirely NULL *)
Theorem bitmap_correct ops :
  ops_ok KEmpty ops ->
  let cb := run_pushes f2s (colbuf_null 0) ops in
  let cs := expected f2s ops in
  cb_len cb = zlen cs /\
  match cb_present cb with
  | Some p =>
      (forall i, (i < length cs)%nat -> (bv_get p (Z.of_nat i) = true <-> nth i cs CNull <> CNull)) /\
      (forall j, cb_len cb <= j -> bv_get p j = false)
  | None => (cb_buf cb = TEmpty /\ cs = repeat CNull (length cs)) \/ Forall non_null cs
  end.
Proof.
  intros Hok. cbn zeta.
  pose proof (run_refines ops _ _ _ (inv_init f2s) Hok) as [Il Ik Iw Io Ic].
  fold (expected f2s ops) in *. set (cs := expected f2s ops) in *.
  set (cb := run_pushes f2s (colbuf_null 0) ops) in *.
  split; [exact Il|].
  destruct (cb_buf cb) as [|values|data st|data|data] eqn:Eb.
  - destruct Ic as [-> Ic]. left. auto.
  - destruct Ic as [Ic1 Ic2].
    pose proof (raw_cells_non_null (TStr values)) as Hnn.
    destruct (cb_present cb) as [p|]; [|right; rewrite Ic2; exact Hnn].
    split; [|exact Iw]. intros i Hi. rewrite Ic2 in *. cbn [view] in *. rewrite mask_cells_eq in *.
    rewrite mask_list_length in Hi. rewrite nth_mask_list by exact Hi. cbn [Z.add].
    destruct (bv_get p (Z.of_nat i)); split; try congruence; intros _.
    exact (proj1 (Forall_forall _ _) Hnn _ (nth_In _ _ Hi)).
  - destruct Ic as [Ic1 Ic2].
    pose proof (raw_cells_non_null (TInt data st)) as Hnn.
    destruct (cb_present cb) as [p|]; [|right; rewrite Ic2; exact Hnn].
    split; [|exact Iw]. intros i Hi. rewrite Ic2 in *. cbn [view] in *. rewrite mask_cells_eq in *.
    rewrite mask_list_length in Hi. rewrite nth_mask_list by exact Hi. cbn [Z.add].
    destruct (bv_get p (Z.of_nat i)); split; try congruence; intros _.
    exact (proj1 (Forall_forall _ _) Hnn _ (nth_In _ _ Hi)).
  - destruct Ic as [Ic1 Ic2].
    pose proof (raw_cells_non_null (TFloat data)) as Hnn.
    destruct (cb_present cb) as [p|]; [|right; rewrite Ic2; exact Hnn].
    split; [|exact Iw]. intros i Hi. rewrite Ic2 in *. cbn [view] in *. rewrite mask_cells_eq in *.
    rewrite mask_list_length in Hi. rewrite nth_mask_list by exact Hi. cbn [Z.add].
    destruct (bv_get p (Z.of_nat i)); split; try congruence; intros _.
    exact (proj1 (Forall_forall _ _) Hnn _ (nth_In _ _ Hi)).
  - destruct Ic as [Ic1 Ic2].
    pose proof (raw_cells_non_null (TMixed data)) as Hnn.
    destruct (cb_present cb) as [p|]; [|right; rewrite Ic2; exact Hnn].
    split; [|exact Iw]. intros i Hi. rewrite Ic2 in *. cbn [view] in *. rewrite mask_cells_eq in *.
    rewrite mask_list_length in Hi. rewrite nth_mask_list by exact Hi. cbn [Z.add].
    destruct (bv_get p (Z.of_nat i)); split; try congruence; intros _.
    exact (proj1 (Forall_forall _ _) Hnn _ (nth_In _ _ Hi)).
Qed.

End WithF2S.

(* ---------------------------------------------------------------------------------------------- *)
(* the table-level front end only ever issues ingestion pushes: no caller-supplied null map, no
   negative count (the u64 subtractions of the sparse arms are the [None] = panic outcome of col_ops) *)

Definition ingest_op (op : push_op) : Prop :=
  match op with
  | PInts _ np | PFloats _ np | PStrs _ np => np = None
  | PNulls n => 0 <= n
  end.

Lemma sparse_ops_ingest mk : (forall v, ingest_op (mk v)) ->
  forall l c next ops, sparse_ops mk c next l = Some ops -> Forall ingest_op ops.
Proof.
  intros Hmk. induction l as [|[i v] l IH]; intros c next ops E; cbn [sparse_ops] in E.
  - destruct (Z.ltb_spec c next); [discriminate|]. injection E as <-. constructor; [cbn; lia|constructor].
  - destruct (Z.ltb_spec i next); [discriminate|].
    destruct (sparse_ops mk c (i + 1) l) as [ops'|] eqn:E'; [|discriminate]. injection E as <-.
    constructor; [cbn; lia|]. constructor; [apply Hmk|]. eapply IH. exact E'.
Qed.

Lemma ops_of_input_ingest ic ops :
  (match ic with ICNull n => 0 <= n | _ => True end) ->
  ops_of_input ic = Some ops -> Forall ingest_op ops.
Proof.
  intros Hn E. destruct ic; cbn in E.
  - injection E as <-. repeat constructor.
  - injection E as <-. repeat constructor.
  - eapply sparse_ops_ingest; [|exact E]. intros v. reflexivity.
  - eapply sparse_ops_ingest; [|exact E]. intros v. reflexivity.
  - injection E as <-. repeat constructor.
  - injection E as <-. repeat constructor. exact Hn.
  - injection E as <-. apply Forall_forall. intros op Hop. apply in_map_iff in Hop as (v & <- & _).
    destruct v; cbn; try reflexivity. lia.
Qed.

Theorem col_ops_ingest : forall items created before ops,
  0 <= before -> Forall (fun it => 0 <= snd it) items ->
  col_ops created before items = Some ops -> Forall ingest_op ops.
Proof.
  induction items as [|[cd rows] items IH]; intros created before ops Hb Hr E; cbn [col_ops] in E.
  - injection E as <-. constructor.
  - inversion Hr as [|? ? Hrow Hr']; subst. cbn [snd] in Hrow.
    destruct (rows =? 0); [exact (IH _ _ _ Hb Hr' E)|].
    destruct cd as [cd|].
    + destruct (from_column_data cd rows) as [ic|] eqn:Ef; [|discriminate].
      destruct (ops_of_input ic) as [o1|] eqn:E1; [|discriminate].
      destruct (col_ops true (before + rows) items) as [o2|] eqn:E2; [|discriminate].
      injection E as <-.
      apply Forall_app. split; [destruct created; [constructor|constructor; [cbn; lia|constructor]]|].
      apply Forall_app. split.
      * eapply ops_of_input_ingest; [|exact E1].
        destruct cd; cbn in Ef; try (injection Ef as <-; exact I || exact Hrow);
          try (destruct (_ <? _); injection Ef as <-; exact I);
          try (destruct (_ <? _); [injection Ef as <-; exact I|]; destruct (_ =? _); [injection Ef as <-; exact I|discriminate]).
      * eapply IH; [|exact Hr'|exact E2]. lia.
    + destruct (col_ops created (before + rows) items) as [o2|] eqn:E2; [|discriminate].
      injection E as <-. assert (Forall ingest_op o2) by (eapply IH; [|exact Hr'|exact E2]; lia).
      destruct created; [constructor; [cbn; lia|assumption]|assumption].
Qed.

(* ---------------------------------------------------------------------------------------------- *)
(* A string column shorter than its batch (/repo 1c4a1c7, former finding F11) is accepted and means:
   its strings, then NULL up to the number of rows. *)

Lemma from_column_data_short_string ss rows :
  zlen ss <= rows ->
  exists ic, from_column_data (CDString ss) rows = Some ic /\
             exists ops, ops_of_input ic = Some ops /\ Forall ingest_op ops.
Proof.
  intros H. cbn [from_column_data]. destruct (Z.ltb_spec (zlen ss) rows) as [L|L].
  - eexists. split; [reflexivity|]. eexists. split; [reflexivity|].
    apply Forall_forall. intros op Hop. apply in_map_iff in Hop as (v & <- & _).
    destruct v; cbn; try reflexivity. lia.
  - destruct (Z.eqb_spec (zlen ss) rows) as [E|E]; [|lia].
    eexists. split; [reflexivity|]. eexists. split; [reflexivity|]. repeat constructor.
Qed.

Section ShortString.
Variable f2s : Z -> str.

Lemma fold_strs : forall ss k cs, k = KEmpty \/ k = KStr ->
  fold_left (spec_push f2s) (map op_of_val (map RStr ss)) (k, cs) =
  (match ss with [] => k | _ => KStr end, cs ++ map CStr ss).
Proof.
  induction ss as [|s ss IH]; intros k cs Hk; [cbn; now rewrite app_nil_r|].
  cbn [map fold_left op_of_val]. 
  assert (E : spec_push f2s (k, cs) (PStrs [s] None) = (KStr, cs ++ [CStr s])) by (destruct Hk as [-> | ->]; reflexivity).
  rewrite E, IH by (now right). rewrite <- app_assoc. cbn [app]. f_equal. now destruct ss.
Qed.

Lemma fold_nulls : forall n k cs,
  fold_left (spec_push f2s) (map op_of_val (repeat RNull n)) (k, cs) = (k, cs ++ repeat CNull n).
Proof.
  induction n as [|n IH]; intros k cs; [cbn; now rewrite app_nil_r|].
  cbn [repeat map fold_left op_of_val spec_push]. rewrite IH. rewrite <- app_assoc. reflexivity.
Qed.

Theorem short_string_column_expected ss n :
  expected f2s (map op_of_val (map RStr ss ++ repeat RNull n)) = map CStr ss ++ repeat CNull n.
Proof.
  unfold expected. rewrite !map_app, fold_left_app, fold_strs by (now left). now rewrite fold_nulls.
Qed.

End ShortString.

(* ---------------------------------------------------------------------------------------------- *)
(* The former counterexamples.  On the code before the fixes [stored] of these histories was,
   respectively, two cells instead of three (F4), Panic SubOverflow (F10), Panic SubOverflow (F19),
   which refuted the full statement; on the repaired code each of them round-trips. *)

Definition no_display : Z -> str := fun _ => [].

Lemma former_F4_witness :
  stored no_display [PStrs [[97]] None; PInts [1] None; PNulls 1] =
  Val (expected no_display [PStrs [[97]] None; PInts [1] None; PNulls 1]) /\
  expected no_display [PStrs [[97]] None; PInts [1] None; PNulls 1] = [CStr [97]; CStr [49]; CNull].
Proof. split; vm_compute; reflexivity. Qed.

Lemma former_F10_witness :
  stored no_display [PInts [i64_min + 1; i64_max - 1] None] = Val [CInt (i64_min + 1); CInt (i64_max - 1)].
Proof. vm_compute. reflexivity. Qed.

Lemma former_F19_witness :
  stored no_display [PInts [i64_min] None; PNulls 1] = Val [CInt i64_min; CNull].
Proof. vm_compute. reflexivity. Qed.

(* The statement without any guard.  It is neither proved nor refuted here: the only obstacle left is
   the range-metadata subtraction described at [int_data_ok], whose witness would be a column of more
   than 2^31 values. *)
Definition C01_full_statement : Prop :=
  forall (f2s : Z -> str) (ops : list push_op),
    (forall f, zlen (f2s f) < 16777216) ->
    ops_ok KEmpty ops ->
    stored f2s ops = Val (expected f2s ops).
