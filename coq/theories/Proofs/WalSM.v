(* Database-level proofs, part 2: the invariant of the persistence state machine and its
   preservation by ingest / flush / restart / evict (guarded run). *)
From Coq Require Import NArith ZArith List Bool Lia.
From LV Require Import Model.TableSM Model.Catalogue Model.WalSM Proofs.TableSM Proofs.WalSMBase.
Import ListNotations.
Open Scope N_scope.

Ltac db_simpl := cbn [tabs next_wal earliest wal_size d_cursor d_wal acked].

(* ---------------------------------------------------------------------------------------------- *)
(* views *)

Lemma content_view : forall s n, content s n = table_content (view (tabs s) n).
Proof. intros s n. unfold content, view. destruct (lookup n (tabs s)); reflexivity. Qed.

Lemma grows_view : forall l l', grows l l' -> forall n, modc (view l n) (view l' n).
Proof.
  intros l l' [G1 [G2 _]] n. unfold view. destruct (lookup n l) as [t|] eqn:E.
  - destruct (G1 _ _ E) as [t' [L M]]. rewrite L. exact M.
  - destruct (lookup n l') as [t'|] eqn:E'; [eapply G2; eauto|apply modc_refl].
Qed.

Lemma tinv_appended : forall rows t t', appended rows t t' -> tinv t -> tinv t'.
Proof. intros rows t t' [c ->] H. apply tinv_set_cols, tinv_set_buf. exact H. Qed.

Lemma appended_fields : forall rows t t', appended rows t t' ->
  t_buf t' = t_buf t ++ rows /\ t_frozen t' = t_frozen t /\ t_parts t' = t_parts t.
Proof. intros rows t t' [c ->]. cbn. auto. Qed.

Lemma apply_batch_none : forall b (l l' : tabsT) n,
  apply_batch b l = Val l' -> lookup n l = None -> batch_rows n b = [].
Proof.
  induction b as [|tb rest IH]; cbn [apply_batch]; intros l l' n; [reflexivity|].
  destruct (lookup (tb_name tb) l) as [t0|] eqn:E0; [|discriminate].
  destruct (ingest_rows t0 (tb_cols tb) (tb_rows tb)) as [t1|]; [|discriminate].
  intros H Hn. rewrite batch_rows_cons.
  assert (Hne : tb_name tb <> n) by (intro; subst; congruence).
  apply name_eqb_neq in Hne. rewrite Hne. cbn [app].
  eapply IH; eauto. rewrite lookup_upd_other; auto. apply name_eqb_neq in Hne. congruence.
Qed.

Lemma apply_batch_view : forall b (l l' : tabsT),
  apply_batch b l = Val l' -> forall n, appended (batch_rows n b) (view l n) (view l' n).
Proof.
  intros b l l' H n. pose proof (apply_batch_spec _ _ _ H) as [K HA]. unfold view.
  destruct (lookup n l) as [t|] eqn:E.
  - destruct (HA _ _ E) as [t' [L A]]. rewrite L. exact A.
  - rewrite (apply_batch_none _ _ _ _ H E).
    assert (E' : lookup n l' = None). { apply lookup_none. rewrite K. apply lookup_none. exact E. }
    rewrite E'. apply appended_nil. apply modc_refl.
Qed.

(* ---------------------------------------------------------------------------------------------- *)
(* the log directory *)

Fixpoint seqN (a : N) (k : nat) : list N :=
  match k with O => [] | S k' => a :: seqN (a + 1) k' end.

Lemma seqN_snoc : forall k a, seqN a k ++ [a + N.of_nat k] = seqN a (S k).
Proof.
  induction k as [|k IH]; intro a.
  - cbn. rewrite N.add_0_r. reflexivity.
  - change (seqN a (S (S k))) with (a :: seqN (a + 1) (S k)). rewrite <- (IH (a + 1)).
    change (seqN a (S k)) with (a :: seqN (a + 1) k). cbn [app]. f_equal. f_equal. f_equal. lia.
Qed.

Lemma seqN_ge : forall k a x, In x (seqN a k) -> a <= x.
Proof.
  induction k as [|k IH]; cbn; intros a x H; [tauto|].
  destruct H as [<-|H]; [lia|]. apply IH in H. lia.
Qed.

Definition wal_rows (n : name) (w : list (N * segment)) : list row :=
  flat_map (fun x => batch_rows n (sg_data (snd x))) w.

Definition sum_bytes (w : list (N * segment)) : N :=
  fold_left (fun a x => a + sg_bytes (snd x)) w 0.

Lemma sum_bytes_snoc : forall w x, sum_bytes (w ++ [x]) = sum_bytes w + sg_bytes (snd x).
Proof. intros. unfold sum_bytes. rewrite fold_left_app. reflexivity. Qed.

Lemma filter_all : forall {A} (f : A -> bool) l, (forall x, In x l -> f x = true) -> filter f l = l.
Proof.
  induction l as [|x l IH]; cbn; intro H; auto.
  rewrite (H x (or_introl eq_refl)). f_equal. apply IH. intros; apply H; auto.
Qed.

Lemma filter_none : forall {A} (f : A -> bool) l, (forall x, In x l -> f x = false) -> filter f l = [].
Proof.
  induction l as [|x l IH]; cbn; intro H; auto.
  rewrite (H x (or_introl eq_refl)). apply IH. intros; apply H; auto.
Qed.

Lemma delete_segments_all : forall k a (w : list (N * segment)),
  map fst w = seqN a k -> delete_segments k a w = Some [].
Proof.
  induction k as [|k IH]; intros a w H.
  - destruct w; [reflexivity|discriminate].
  - destruct w as [|[id sg] w]; [discriminate|]. cbn in H. injection H as -> H.
    cbn [delete_segments find_seg]. rewrite N.eqb_refl. cbn [orb filter fst negb].
    rewrite N.eqb_refl. cbn [negb].
    rewrite filter_all.
    + apply IH. exact H.
    + intros [id' sg'] HI. cbn. assert (HI' : In id' (seqN (a + 1) k)).
      { rewrite <- H. change id' with (fst (id', sg')). apply in_map. exact HI. }
      apply seqN_ge in HI'. apply negb_true_iff. apply N.eqb_neq. lia.
Qed.

Lemma sort_segs_sorted : forall k a (w : list (N * segment)),
  map fst w = seqN a k -> sort_segs w = w.
Proof.
  induction k as [|k IH]; intros a w H.
  - destruct w; [reflexivity|discriminate].
  - destruct w as [|x w]; [discriminate|]. cbn in H. injection H as Hx H.
    unfold sort_segs in *. cbn [fold_right]. rewrite (IH _ _ H).
    destruct w as [|y w]; [reflexivity|]. cbn [insert_seg].
    destruct k; [discriminate|]. cbn in H. injection H as Hy _.
    assert (E : fst x <=? fst y = true) by (apply N.leb_le; lia). rewrite E. reflexivity.
Qed.

Lemma fold_next : forall k a (w : list (N * segment)) acc,
  map fst w = seqN a k -> acc <= a ->
  fold_left (fun a x => N.max a (fst x + 1)) w acc = match k with O => acc | _ => a + N.of_nat k end.
Proof.
  induction k as [|k IH]; intros a w acc H Hle.
  - destruct w; [reflexivity|discriminate].
  - destruct w as [|x w]; [discriminate|]. cbn in H. injection H as Hx H.
    cbn [fold_left]. rewrite (IH (a + 1) w); auto; [|lia].
    destruct k; [|lia]. destruct w; [|discriminate]. cbn. lia.
Qed.

(* ---------------------------------------------------------------------------------------------- *)
(* the invariant *)

Record Inv (s : db) : Prop := {
  i_keys : NoDup (keys (tabs s));
  i_tabs : forall n, tinv (view (tabs s) n);
  i_ids : map fst (d_wal s) = seqN (earliest s) (length (d_wal s));
  i_next : next_wal s = earliest s + N.of_nat (length (d_wal s));
  i_cursor : match d_cursor s with Some k => k = earliest s | None => earliest s = 0 end;
  i_bufs : forall n, t_buf (view (tabs s) n) = wal_rows n (d_wal s);
  i_acked : forall n, content s n = acked_rows (acked s) n;
  i_size : wal_size s = sum_bytes (d_wal s)
}.

Lemma inv_init : forall c, Inv (init c).
Proof.
  intro c. constructor; cbn; auto.
  - constructor; [tauto|constructor].
  - intro n. unfold view. cbn. destruct (name_eqb n s_meta_tables); apply tinv_empty.
  - intro n. unfold view. cbn. destruct (name_eqb n s_meta_tables); reflexivity.
  - intro n. unfold content. cbn. destruct (name_eqb n s_meta_tables); reflexivity.
Qed.

(* ---------------------------------------------------------------------------------------------- *)
(* ingestion *)

Lemma table_content_appended : forall rows t t',
  appended rows t t' -> table_content t' = table_content t ++ rows.
Proof.
  intros rows t t' [c ->]. unfold table_content. cbn. rewrite !app_assoc. reflexivity.
Qed.

Lemma ingest_spec : forall c b bytes s s',
  Inv s -> ingest c b bytes s = Val s' ->
  Inv s' /\
  exists extra, acked s' = acked s ++ [b ++ extra] /\
    (forall n, content s' n = content s n ++ batch_rows n (b ++ extra)) /\
    d_wal s' = d_wal s ++ [(next_wal s, {| sg_bytes := bytes; sg_data := b ++ extra |})] /\
    d_cursor s' = d_cursor s /\ earliest s' = earliest s /\ next_wal s' = next_wal s + 1 /\
    wal_size s' = wal_size s + bytes.
Proof.
  intros c b bytes s s' I. unfold ingest.
  destruct (c_max_wal_bytes c <? wal_size s); [discriminate|].
  destruct (prepare code_seed b (tabs s) [] []) as [[[l1 created] colrows]| | | |] eqn:Ep;
    cbn [bind]; try discriminate.
  set (full := b ++ meta_tables_batch created ++ colrows).
  destruct (apply_batch full l1) as [l2| | | |] eqn:Ea; cbn [bind]; try discriminate.
  intro H. injection H as <-.
  pose proof (prepare_grows _ _ _ _ _ _ _ _ Ep) as G.
  pose proof (grows_view _ _ G) as GV.
  pose proof (apply_batch_view _ _ _ Ea) as AV.
  pose proof (apply_batch_spec _ _ _ Ea) as [K _].
  assert (Hview : forall n, appended (batch_rows n full) (view (tabs s) n) (view l2 n)).
  { intro n. destruct (GV n) as [x Hx]. specialize (AV n). rewrite Hx in AV.
    destruct AV as [y ->]. exists y. reflexivity. }
  split.
  - constructor; db_simpl.
    + rewrite K. destruct G as [_ [_ G3]]. apply G3. apply (i_keys _ I).
    + intro n. eapply tinv_appended; [apply Hview|]. apply (i_tabs _ I).
    + rewrite map_app, app_length. cbn [map fst length]. rewrite (i_ids _ I), (i_next _ I).
      rewrite Nat.add_1_r. apply seqN_snoc.
    + rewrite app_length. cbn [length]. rewrite (i_next _ I). lia.
    + apply (i_cursor _ I).
    + intro n. destruct (appended_fields _ _ _ (Hview n)) as [Hb _]. rewrite Hb, (i_bufs _ I).
      unfold wal_rows. rewrite flat_map_app. cbn [flat_map snd sg_data]. rewrite app_nil_r. reflexivity.
    + intro n. rewrite content_view. db_simpl.
      rewrite (table_content_appended _ _ _ (Hview n)), <- content_view, (i_acked _ I).
      unfold acked_rows. rewrite flat_map_app. cbn [flat_map]. rewrite app_nil_r. reflexivity.
    + rewrite sum_bytes_snoc. cbn [snd sg_bytes]. rewrite (i_size _ I). reflexivity.
  - exists (meta_tables_batch created ++ colrows). db_simpl. repeat split; auto.
    intro n. rewrite !content_view. db_simpl. apply table_content_appended. apply Hview.
Qed.

(* ---------------------------------------------------------------------------------------------- *)
(* flush *)

Record flushed (t t' : tstate) : Prop := {
  fl_mid : tmid t';
  fl_rows : part_rows (t_parts t') = part_rows (t_parts t) ++ t_frozen t;
  fl_buf : t_buf t' = t_buf t;
  fl_meta : t_meta t' = t_meta t;
  fl_files : appended_files t t'
}.

Lemma ensure_cols_other : forall n (l l' : tabsT) m,
  ensure_cols n l = Val l' -> m <> n -> lookup m l' = lookup m l.
Proof.
  intros n l l' m H Hne. unfold ensure_cols in H.
  destruct (lookup n l) as [t|] eqn:E; [|discriminate].
  destruct (t_cols t) as [c|] eqn:Ec.
  - injection H as <-. reflexivity.
  - destruct (lookup (meta_columns_of n) l) as [mc|]; [|discriminate].
    destruct (string_column s_column_name (table_content mc)) as [names|]; [|discriminate].
    injection H as <-. apply lookup_upd_other. exact Hne.
Qed.

Lemma flush_table_spec : forall c o n (l l' : tabsT) t,
  lookup n l = Some t -> tpre t ->
  flush_table true c o n l = Val l' ->
  keys l' = keys l /\ (forall m, m <> n -> lookup m l' = lookup m l) /\
  exists t', lookup n l' = Some t' /\ flushed t t'.
Proof.
  intros c o n l l' t E P. unfold flush_table. rewrite E.
  set (szs := sizes_for o n). set (t1 := batch_table (fst szs) t).
  destruct (batch_table_spec (fst szs) t P) as [P1 [Hfr [Hb [Hm [Hc [Hr Haf]]]]]]. fold t1 in P1, Hfr, Hb, Hm, Hc, Hr, Haf.
  destruct (plan_compaction (c_factor c) (t_parts t1)) as [|i|] eqn:Epl; try discriminate.
  - intro H. injection H as <-. split; [apply keys_upd|]. split.
    + intros m Hne. apply lookup_upd_other. exact Hne.
    + exists t1. split; [eapply lookup_upd_same; eauto|].
      constructor; auto. apply tpre_tmid; auto.
  - destruct (ensure_cols n (upd n t1 l)) as [l1| | | |] eqn:Ee; cbn [bind]; try discriminate.
    destruct (lookup n l1) as [t2|] eqn:E2; [|discriminate].
    destruct (t_cols t2) as [cols|]; [|discriminate].
    destruct (compact true (snd szs) i cols t2) as [t3| |] eqn:Ec; cbn [lift_t bind]; try discriminate.
    intro H. injection H as <-.
    pose proof (ensure_cols_spec _ _ _ Ee) as [[K1 M1] _].
    destruct (M1 n t1 (lookup_upd_same _ _ _ _ E)) as [t2' [L2 M2]].
    rewrite E2 in L2. injection L2 as <-.
    pose proof (tpre_modc _ _ M2 P1) as P2.
    destruct (modc_fields _ _ M2) as [Fb [Ff [Fp [_ [_ [_ [Fm _]]]]]]].
    destruct (compact_spec _ _ _ _ _ P2 (eq_trans Ff Hfr) Ec) as [Mid [Cb [Cm [_ [Cr Caf]]]]].
    split; [rewrite keys_upd, K1; apply keys_upd|]. split.
    + intros m Hne. rewrite lookup_upd_other; auto.
      rewrite (ensure_cols_other _ _ _ m Ee Hne). apply lookup_upd_other. exact Hne.
    + exists t3. split; [eapply lookup_upd_same; eauto|].
      constructor; auto; try congruence.
      eapply appended_files_trans; [exact Haf|].
      destruct M2 as [cc ->]. exact Caf.
Qed.

Lemma flush_tables_spec : forall c o names (l l' : tabsT),
  NoDup names ->
  (forall n, In n names -> exists t, lookup n l = Some t /\ tpre t) ->
  flush_tables true c o names l = Val l' ->
  keys l' = keys l /\
  (forall m, ~ In m names -> lookup m l' = lookup m l) /\
  (forall n t, In n names -> lookup n l = Some t -> exists t', lookup n l' = Some t' /\ flushed t t').
Proof.
  induction names as [|n names IH]; cbn [flush_tables]; intros l l' ND Hpre.
  - intro H. injection H as <-. repeat split; auto. intros n t [].
  - destruct (flush_table true c o n l) as [l1| | | |] eqn:E1; cbn [bind]; try discriminate.
    intro H. inversion ND as [|? ? Hn ND']; subst.
    destruct (Hpre n (or_introl eq_refl)) as [t [Lt Pt]].
    destruct (flush_table_spec _ _ _ _ _ _ Lt Pt E1) as [K1 [O1 [t1 [L1 F1]]]].
    assert (Hpre' : forall m, In m names -> exists t, lookup m l1 = Some t /\ tpre t).
    { intros m Hm. assert (m <> n) by (intro; subst; contradiction).
      rewrite O1; auto. apply Hpre. right. exact Hm. }
    destruct (IH _ _ ND' Hpre' H) as [K [O F]].
    split; [congruence|]. split.
    + intros m Hm. rewrite O; [|intro; apply Hm; right; auto].
      apply O1. intro; subst. apply Hm. left. reflexivity.
    + intros m t0 Hm L0. destruct Hm as [<-|Hm].
      * rewrite Lt in L0. injection L0 as <-. exists t1. split; auto. rewrite O; auto.
      * assert (m <> n) by (intro; subst; contradiction).
        apply F; auto. rewrite O1; auto.
Qed.

Lemma flush_spec : forall c o s s',
  Inv s -> flush true c o s = Val s' ->
  Inv s' /\ (forall n, content s' n = content s n) /\ acked s' = acked s /\
  d_wal s' = [] /\ wal_size s' = 0 /\ d_cursor s' = Some (next_wal s) /\
  earliest s' = next_wal s /\ next_wal s' = next_wal s /\
  forall n, t_buf (view (tabs s') n) = [].
Proof.
  intros c o s s' I. unfold flush, flush_mid.
  destruct (freeze_all (tabs s)) as [l0| | | |] eqn:E0; cbn [bind]; try discriminate.
  destruct (flush_tables true c o (map fst l0) l0) as [l1| | | |] eqn:E1; cbn [bind]; try discriminate.
  destruct (map_tabs SNoTable (fun t => Some (publish_meta t)) l1) as [l2| | | |] eqn:E2;
    cbn [bind]; try discriminate.
  destruct (delete_orphans l2) as [l3| | | |] eqn:E3; cbn [bind]; try discriminate.
  destruct (delete_segments (N.to_nat (next_wal s - earliest s)) (earliest s) (d_wal s)) as [w|] eqn:Ew;
    cbn [of_opt bind]; [|discriminate].
  intro H. injection H as <-.
  unfold freeze_all in E0. apply map_tabs_spec in E0. destruct E0 as [K0 [S0 N0]].
  apply map_tabs_spec in E2. destruct E2 as [K2 [S2 N2]].
  unfold delete_orphans in E3. apply map_tabs_spec in E3. destruct E3 as [K3 [S3 N3]].
  assert (ND0 : NoDup (keys l0)) by (rewrite K0; apply (i_keys _ I)).
  (* every frozen table is ready to be flushed *)
  assert (Hpre : forall n, In n (map fst l0) -> exists t, lookup n l0 = Some t /\ tpre t).
  { intros n HI. fold (keys l0) in HI. rewrite K0 in HI.
    destruct (lookup_in_some _ _ HI) as [t Lt]. destruct (S0 _ _ Lt) as [t0 [F0 L0]].
    exists t0. split; auto.
    pose proof (i_tabs _ I n) as T. unfold view in T. rewrite Lt in T.
    destruct (freeze_spec _ T) as [t0' [F0' [_ [_ [Hp [Hi [Ho [_ [Hf [_ Hd]]]]]]]]]].
    rewrite F0 in F0'. injection F0' as <-.
    destruct T as [[T1 T2 T3] T4 _ _ T7].
    constructor; [constructor|..].
    - rewrite Hp, Ho. exact T1.
    - rewrite Hp, Hi. exact T2.
    - rewrite Hp. exact T3.
    - congruence.
    - congruence. }
  destruct (flush_tables_spec _ _ _ _ _ ND0 Hpre E1) as [K1 [_ F1]].
  (* what became of table n *)
  assert (Hn : forall n t, lookup n (tabs s) = Some t ->
            exists t3, lookup n l3 = Some t3 /\ tinv t3 /\ t_buf t3 = [] /\
                       table_content t3 = table_content t).
  { intros n t Lt. destruct (S0 _ _ Lt) as [t0 [F0 L0]].
    assert (HI : In n (map fst l0)) by (eapply lookup_some_in; eauto).
    destruct (F1 _ _ HI L0) as [t1 [L1 [Mid Hr Hb Hm _]]].
    destruct (S2 _ _ L1) as [t2 [P2 L2]]. injection P2 as <-.
    destruct (S3 _ _ L2) as [t3 [D3 L3]].
    destruct (finish_spec _ Mid) as [t3' [D3' [T3 [Hp3 [Hb3 _]]]]].
    rewrite D3 in D3'. injection D3' as <-.
    pose proof (i_tabs _ I n) as T. unfold view in T. rewrite Lt in T.
    destruct (freeze_spec _ T) as [t0' [F0' [Hb0 [Hf0 [Hp0 _]]]]].
    rewrite F0 in F0'. injection F0' as <-.
    exists t3. split; [exact L3|]. split; [exact T3|]. split; [congruence|].
    unfold table_content. rewrite (ti_frozen _ T3), (ti_frozen _ T), Hb3, Hb, Hb0, Hp3, Hr, Hf0, Hp0.
    cbn [app]. rewrite !app_nil_r. reflexivity. }
  assert (Hnone : forall n, lookup n (tabs s) = None -> lookup n l3 = None).
  { intros n Ln. apply N3, N2. apply lookup_none. rewrite K1. apply lookup_none. apply N0. exact Ln. }
  assert (Hw : w = []).
  { rewrite (i_next _ I) in Ew.
    replace (N.to_nat (earliest s + N.of_nat (length (d_wal s)) - earliest s)) with (length (d_wal s)) in Ew by lia.
    rewrite (delete_segments_all _ _ _ (i_ids _ I)) in Ew. congruence. }
  subst w.
  assert (Hview : forall n, tinv (view l3 n) /\ t_buf (view l3 n) = [] /\
                            table_content (view l3 n) = table_content (view (tabs s) n)).
  { intro n. unfold view. destruct (lookup n (tabs s)) as [t|] eqn:Lt.
    - destruct (Hn _ _ Lt) as [t3 [L3 [T3 [B3 C3]]]]. rewrite L3. auto.
    - rewrite (Hnone _ Lt). split; [apply tinv_empty|]. auto. }
  split; [constructor; db_simpl|]; auto.
  - rewrite K3, K2, K1, K0. apply (i_keys _ I).
  - intro n. apply Hview.
  - cbn [length]. lia.
  - intro n. apply Hview.
  - intro n. rewrite content_view. db_simpl.
    destruct (Hview n) as [_ [_ Hc]]. rewrite Hc, <- content_view. apply (i_acked _ I).
  - db_simpl. repeat split; auto.
    + intro n. rewrite !content_view. db_simpl. apply Hview.
    + intro n. apply Hview.
Qed.

(* ---------------------------------------------------------------------------------------------- *)
(* restart *)

Lemma restore_tables_spec : forall seed (l l' : tabsT),
  NoDup (keys l) -> (forall n, tinv (view l n)) ->
  restore_tables seed l = Val l' ->
  NoDup (keys l') /\
  forall n, tinv (view l' n) /\ t_parts (view l' n) = t_parts (view l n) /\
            t_buf (view l' n) = [] /\ t_frozen (view l' n) = [].
Proof.
  induction l as [|[k t] l IH]; cbn [restore_tables]; intros l' ND T.
  - intro H. injection H as <-. split; [constructor|]. intro n. unfold view. cbn.
    split; [apply tinv_empty|auto].
  - inversion ND as [|? ? Hk ND']; subst.
    assert (T' : forall n, tinv (view l n)).
    { intro n. specialize (T n). unfold view in *. cbn in T.
      destruct (name_eqb n k) eqn:E; auto.
      apply name_eqb_eq in E. subst. apply lookup_none in Hk. rewrite Hk. apply tinv_empty. }
    destruct (restore_tables seed l) as [r| | | |] eqn:Er; cbn [bind]; try discriminate.
    destruct (IH _ ND' T' eq_refl) as [NDr Hr].
    assert (Tk : tinv t). { specialize (T k). unfold view in T. cbn in T. rewrite name_eqb_refl in T. exact T. }
    assert (Hkr : lookup k r = None).
    { destruct (lookup k r) eqn:E; auto. exfalso.
      (* keys of r are keys of l *)
      clear - Er E Hk. revert r Er E. induction l as [|[k' t'] l IH]; cbn [restore_tables]; intros r Er E.
      - injection Er as <-. discriminate.
      - destruct (restore_tables seed l) as [r'| | | |] eqn:Er'; cbn [bind] in Er; try discriminate.
        cbn in Hk. destruct (t_meta t').
        + injection Er as <-. eapply IH; eauto.
        + destruct (restore (seed_cols seed k' None) t'); cbn [of_opt bind] in Er; [|discriminate].
          injection Er as <-. cbn in E. destruct (name_eqb k k') eqn:E'.
          * apply name_eqb_eq in E'. subst. tauto.
          * eapply IH; eauto. }
    destruct (t_meta t) as [|m ms] eqn:Em.
    + intro H. injection H as <-. split; auto. intro n. specialize (Hr n).
      unfold view at 3. cbn [lookup]. destruct (name_eqb n k) eqn:E; [|exact Hr].
      apply name_eqb_eq in E. subst n. unfold view. rewrite Hkr. cbn.
      split; [apply tinv_empty|]. repeat split; auto.
      rewrite (ti_meta _ Tk) in Em. destruct (t_parts t); [reflexivity|discriminate].
    + destruct (restore_spec (seed_cols seed k None) t Tk) as [t' [R [Tt' [Pt' [Bt' _]]]]].
      rewrite R. cbn [of_opt bind]. intro H. injection H as <-. split.
      * cbn. constructor; auto. apply lookup_none. exact Hkr.
      * intro n. unfold view. cbn [lookup]. destruct (name_eqb n k) eqn:E.
        -- split; [exact Tt'|]. split; [exact Pt'|]. split; [exact Bt'|apply (ti_frozen _ Tt')].
        -- apply Hr.
Qed.

Lemma replay_spec : forall seed w expect (l l' : tabsT),
  replay seed w expect l = Val l' ->
  (NoDup (keys l) -> NoDup (keys l')) /\
  forall n, appended (wal_rows n w) (view l n) (view l' n).
Proof.
  induction w as [|[id sg] w IH]; cbn [replay]; intros expect l l'.
  - intro H. injection H as <-. split; auto. intro n. apply appended_nil, modc_refl.
  - destruct (match expect with Some e => id =? e | None => true end); [|discriminate].
    destruct (replay_batch seed (sg_data sg) l) as [l1| | | |] eqn:E1; cbn [bind]; try discriminate.
    intro H. apply IH in H. destruct H as [ND A].
    destruct (replay_batch_spec _ _ _ _ E1) as [ND1 [A1 _]].
    split; [auto|]. intro n. unfold wal_rows. cbn [flat_map snd].
    eapply appended_trans; [apply A1|apply A].
Qed.

Lemma ensure_cols_panic : forall n (l : tabsT) st,
  ensure_cols n l = Panic st -> st = SNoTable \/ st = SCatalogue.
Proof.
  intros n l st. unfold ensure_cols. destruct (lookup n l); [|intro H; injection H as <-; auto].
  destruct (t_cols t); [discriminate|].
  destruct (lookup (meta_columns_of n) l); [|intro H; injection H as <-; auto].
  destruct (string_column s_column_name (table_content t0)); [discriminate|].
  intro H; injection H as <-; auto.
Qed.

Lemma replay_batch_panic : forall seed b (l : tabsT) st,
  replay_batch seed b l = Panic st -> st = SNoTable \/ st = SCatalogue \/ st = SColsNotInit.
Proof.
  induction b as [|tb rest IH]; cbn [replay_batch]; intros l st; [discriminate|].
  destruct (create_if_empty seed (tb_name tb) l) as [l1 c1].
  destruct (ensure_cols (tb_name tb) l1) as [l2| |s0| |] eqn:E2; cbn [bind]; try discriminate.
  - destruct (lookup (tb_name tb) l2); [|intro H; injection H as <-; auto].
    destruct (ingest_rows t (tb_cols tb) (tb_rows tb)); [apply IH|intro H; injection H as <-; auto].
  - intro H. injection H as <-. apply ensure_cols_panic in E2. tauto.
Qed.

Lemma replay_contiguous : forall seed k a (w : list (N * segment)) expect (l : tabsT),
  map fst w = seqN a k -> (expect = None \/ expect = Some a) ->
  replay seed w expect l <> Panic SNonContiguous.
Proof.
  induction k as [|k IH]; intros a w expect l H He.
  - destruct w; [cbn; discriminate|discriminate].
  - destruct w as [|[id sg] w]; [discriminate|]. cbn in H. injection H as -> H.
    cbn [replay].
    assert (E : match expect with Some e => a =? e | None => true end = true).
    { destruct He as [->| ->]; auto. apply N.eqb_refl. }
    rewrite E.
    destruct (replay_batch seed (sg_data sg) l) as [l1| |s0| |] eqn:E1; cbn [bind]; try discriminate.
    + apply (IH (a + 1)); auto.
    + apply replay_batch_panic in E1. intro H'. injection H' as ->.
      destruct E1 as [E1|[E1|E1]]; discriminate.
Qed.

Lemma recover_spec : forall c s s',
  Inv s -> recover c s = Val s' ->
  Inv s' /\ (forall n, content s' n = content s n) /\ acked s' = acked s /\
  d_wal s' = d_wal s /\ d_cursor s' = d_cursor s /\ earliest s' = earliest s /\
  next_wal s' = next_wal s /\ wal_size s' = wal_size s.
Proof.
  intros c s s' I. unfold recover.
  set (cursor := match d_cursor s with Some k => k | None => 0 end).
  assert (Ecur : cursor = earliest s).
  { unfold cursor. pose proof (i_cursor _ I) as H. destruct (d_cursor s); congruence. }
  assert (Ekeep : sort_segs (filter (fun x => cursor <=? fst x) (d_wal s)) = d_wal s).
  { rewrite filter_all.
    - eapply sort_segs_sorted. apply (i_ids _ I).
    - intros x HI. apply N.leb_le. rewrite Ecur. eapply seqN_ge. rewrite <- (i_ids _ I).
      apply in_map. exact HI. }
  rewrite Ekeep.
  destruct (restore_tables code_seed (tabs s)) as [l0| | | |] eqn:E0; cbn [bind]; try discriminate.
  destruct (create_if_empty code_seed s_meta_tables l0) as [l1 b1] eqn:E1.
  destruct (replay code_seed (d_wal s) None l1) as [l2| | | |] eqn:E2; cbn [bind]; try discriminate.
  intro H. injection H as <-.
  destruct (restore_tables_spec _ _ _ (i_keys _ I) (i_tabs _ I) E0) as [ND0 H0].
  pose proof (grows_create _ _ _ _ _ E1) as G1.
  pose proof (grows_view _ _ G1) as GV1.
  destruct (replay_spec _ _ _ _ _ E2) as [ND2 A2].
  assert (Hview : forall n, tinv (view l2 n) /\ t_parts (view l2 n) = t_parts (view (tabs s) n) /\
                            t_frozen (view l2 n) = [] /\ t_buf (view l2 n) = wal_rows n (d_wal s)).
  { intro n. destruct (H0 n) as [T0 [P0 [B0 F0]]].
    destruct (modc_fields _ _ (GV1 n)) as [Fb [Ff [Fp _]]].
    destruct (appended_fields _ _ _ (A2 n)) as [Ab [Af Ap]].
    split; [eapply tinv_appended; [apply A2|]; eapply tinv_modc; [apply GV1|exact T0]|].
    repeat split; try congruence. rewrite Ab, Fb, B0. reflexivity. }
  assert (Hnext : fold_left (fun a x => N.max a (fst x + 1)) (d_wal s) cursor = next_wal s).
  { rewrite (fold_next _ _ _ _ (i_ids _ I)); [|lia]. rewrite (i_next _ I), Ecur.
    destruct (length (d_wal s)); [cbn; lia|reflexivity]. }
  assert (Hcont : forall n, table_content (view l2 n) = table_content (view (tabs s) n)).
  { intro n. destruct (Hview n) as [_ [Hp [Hf Hb]]]. unfold table_content.
    rewrite Hp, Hf, Hb, <- (i_bufs _ I n), (ti_frozen _ (i_tabs _ I n)). reflexivity. }
  split.
  - constructor; db_simpl.
    + apply ND2. destruct G1 as [_ [_ G3]]. apply G3. exact ND0.
    + intro n. apply Hview.
    + rewrite Ecur. apply (i_ids _ I).
    + rewrite Hnext, Ecur. apply (i_next _ I).
    + pose proof (i_cursor _ I) as Hc. rewrite Ecur. exact Hc.
    + intro n. apply Hview.
    + intro n. rewrite content_view. db_simpl.
      rewrite Hcont, <- content_view. apply (i_acked _ I).
    + reflexivity.
  - db_simpl. split; [|split; [reflexivity|split; [reflexivity|split; [reflexivity|split; [exact Ecur|split; [exact Hnext|]]]]]].
    + intro n. rewrite !content_view. db_simpl. apply Hcont.
    + symmetry. apply (i_size _ I).
Qed.

(* ---------------------------------------------------------------------------------------------- *)
(* histories *)

Lemma step_inv : forall c s o s', Inv s -> step true c s o = Val s' -> Inv s'.
Proof.
  intros c s o s' I H. destruct o as [b bytes|bg orc| |]; cbn [step] in H.
  - eapply ingest_spec; eauto.
  - destruct (bg && negb (bg_enabled c s)); [discriminate|]. eapply flush_spec; eauto.
  - injection H as <-. exact I.
  - eapply recover_spec; eauto.
Qed.

Lemma run_inv : forall c ops s s', Inv s -> run true c ops s = Val s' -> Inv s'.
Proof.
  induction ops as [|o ops IH]; cbn [run]; intros s s' I H.
  - injection H as <-. exact I.
  - destruct (step true c s o) as [s1| | | |] eqn:E; cbn [bind] in H; try discriminate.
    eapply IH; [|exact H]. eapply step_inv; eauto.
Qed.

Lemma reachable_inv : forall c ops s, run true c ops (init c) = Val s -> Inv s.
Proof. intros. eapply run_inv; [apply inv_init|eauto]. Qed.

(* the guarded run is the faithful run wherever it succeeds *)
Lemma compact_guard : forall sz i cols t t',
  compact true sz i cols t = TVal t' -> compact false sz i cols t = TVal t'.
Proof.
  intros sz i cols t t' H. unfold compact in *. destruct (skipn i (t_parts t)); [discriminate|].
  cbn [andb] in *.
  destruct (cols_complete cols (part_rows (p :: l))); cbn [negb] in H; [|discriminate].
  destruct (f1_free cols (p :: l)); cbn [negb] in H; [|discriminate]. exact H.
Qed.

Lemma flush_table_guard : forall c o n l l',
  flush_table true c o n l = Val l' -> flush_table false c o n l = Val l'.
Proof.
  intros c o n l l'. unfold flush_table. destruct (lookup n l); [|discriminate].
  destruct (plan_compaction _ _); auto.
  destruct (ensure_cols _ _); cbn [bind]; auto.
  destruct (lookup n a); auto. destruct (t_cols t0); auto.
  destruct (compact true _ _ _ _) eqn:E; cbn [lift_t bind]; try discriminate.
  rewrite (compact_guard _ _ _ _ _ E). auto.
Qed.

Lemma flush_tables_guard : forall c o names l l',
  flush_tables true c o names l = Val l' -> flush_tables false c o names l = Val l'.
Proof.
  induction names as [|n names IH]; cbn [flush_tables]; intros l l'; auto.
  destruct (flush_table true c o n l) eqn:E; cbn [bind]; try discriminate.
  rewrite (flush_table_guard _ _ _ _ _ E). cbn [bind]. apply IH.
Qed.

Lemma step_guard : forall c s o s', step true c s o = Val s' -> step false c s o = Val s'.
Proof.
  intros c s o s'. destruct o; cbn [step]; auto.
  destruct (bg && negb (bg_enabled c s)); auto.
  unfold flush, flush_mid. destruct (freeze_all (tabs s)); cbn [bind]; auto.
  destruct (flush_tables true c o _ a) eqn:E; cbn [bind]; try discriminate.
  rewrite (flush_tables_guard _ _ _ _ _ E). auto.
Qed.

Lemma run_guard : forall c ops s s', run true c ops s = Val s' -> run false c ops s = Val s'.
Proof.
  induction ops as [|o ops IH]; cbn [run]; intros s s'; auto.
  destruct (step true c s o) eqn:E; cbn [bind]; try discriminate.
  rewrite (step_guard _ _ _ _ E). cbn [bind]. apply IH.
Qed.
