(* Proofs about Model/CheckedArith.v (property C06). *)
From Coq Require Import ZArith List Bool Lia.
From LV Require Import Model.QuerySpecList Proofs.QuerySpecList Model.CheckedArith.
Import ListNotations.
Open Scope Z_scope.

Lemma in_i64_iff z : in_i64 z = true <-> -9223372036854775808 <= z <= 9223372036854775807.
Proof.
  unfold in_i64, i64_min, i64_max. rewrite andb_true_iff, !Z.leb_le. tauto.
Qed.

Lemma in_i64_false_iff z : in_i64 z = false <-> z < -9223372036854775808 \/ 9223372036854775807 < z.
Proof.
  unfold in_i64, i64_min, i64_max. rewrite andb_false_iff, !Z.leb_gt. tauto.
Qed.

Lemma wrap64_id z : in_i64 z = true -> wrap64 z = z.
Proof.
  intros H. apply in_i64_iff in H. unfold wrap64, two63, two64.
  rewrite Z.mod_small by lia. lia.
Qed.

Lemma wrap64_in_range z : in_i64 (wrap64 z) = true.
Proof.
  apply in_i64_iff. unfold wrap64, two63, two64.
  pose proof (Z.mod_pos_bound (z + 9223372036854775808) 18446744073709551616 ltac:(lia)). lia.
Qed.

(* ---- single operations ----------------------------------------------------------------------- *)

Lemma abs_quot_le a b : b <> 0 -> Z.abs (Z.quot a b) <= Z.abs a.
Proof.
  intros Hb. rewrite <- Z.quot_abs by exact Hb.
  rewrite Z.quot_div_nonneg by lia.
  apply Z.div_le_upper_bound; [lia|]. nia.
Qed.

Lemma quot_in_range a b :
  in_i64 a = true -> b <> 0 -> ~ (a = -9223372036854775808 /\ b = -1) ->
  in_i64 (Z.quot a b) = true.
Proof.
  intros Ha Hb0 Hn. apply in_i64_iff in Ha. apply in_i64_iff.
  pose proof (abs_quot_le a b Hb0) as Habs.
  destruct (Z.eq_dec a (-9223372036854775808)) as [->|Hne]; [|lia].
  assert (Hb1 : b <> -1) by (intros ->; apply Hn; split; reflexivity).
  (* |b| >= 2 or b = 1 *)
  destruct (Z.eq_dec b 1) as [->|Hb2]; [rewrite Z.quot_1_r; lia|].
  assert (Hq : Z.abs (Z.quot (-9223372036854775808) b) <= 4611686018427387904).
  { rewrite <- Z.quot_abs by exact Hb0. rewrite Z.quot_div_nonneg by lia.
    apply Z.div_le_upper_bound; [lia|]. cbn [Z.abs]. lia. }
  lia.
Qed.

Lemma rem_in_range a b : in_i64 a = true -> b <> 0 -> in_i64 (Z.rem a b) = true.
Proof.
  intros Ha Hb. apply in_i64_iff in Ha. apply in_i64_iff.
  pose proof (Z.rem_bound_abs a b Hb) as H1.
  assert (H2 : Z.abs (Z.rem a b) <= Z.abs a).
  { destruct (Z_le_gt_dec (Z.abs b) (Z.abs a)) as [Hle|Hgt]; [lia|].
    assert (Hs : Z.rem a b = a).
    { apply Z.rem_small_iff; [exact Hb|]. lia. }
    rewrite Hs. lia. }
  destruct (Z_le_gt_dec 0 a) as [Hpos|Hneg].
  - pose proof (Z.rem_nonneg a b Hb Hpos). lia.
  - pose proof (Z.rem_nonpos a b Hb ltac:(lia)). lia.
Qed.

(* C06: each operation returns the exact in-range result, or raises the overflow flag, or (only
   for i64::MIN % -1) panics; a wrapped value is never returned with the flag clear. *)
Theorem perform_checked_exact :
  forall op a b v,
    in_i64 a = true -> in_i64 b = true ->
    perform_checked op a b = RVal v false ->
    exact_op op a b = Some v /\ in_i64 v = true.
Proof.
  intros op a b v Ha Hb E. destruct op; cbn [perform_checked exact_op overflowing] in *.
  - injection E as <- Ho. apply negb_false_iff in Ho. rewrite wrap64_id by exact Ho. auto.
  - injection E as <- Ho. apply negb_false_iff in Ho. rewrite wrap64_id by exact Ho. auto.
  - injection E as <- Ho. apply negb_false_iff in Ho. rewrite wrap64_id by exact Ho. auto.
  - destruct ((b =? 0) || ((a <=? - i64_max) && (b =? -1))) eqn:G; [discriminate|].
    injection E as <-. apply orb_false_iff in G as [Gb G2].
    rewrite Gb. split; [reflexivity|]. apply Z.eqb_neq in Gb.
    apply quot_in_range; [exact Ha|exact Gb|].
    intros [-> ->]. vm_compute in G2. discriminate.
  - destruct (b =? 0) eqn:Gb; [discriminate|].
    injection E as <-. split; [reflexivity|]. apply Z.eqb_neq in Gb.
    apply rem_in_range; assumption.
Qed.

(* When the flag is raised, the exact result does not exist, does not fit, or we are in the one
   conservative case of the division guard (`lhs <= -i64::MAX && rhs == -1` also rejects
   -i64::MAX / -1 = i64::MAX, which would fit). *)
Theorem perform_checked_flag :
  forall op a b v,
    in_i64 a = true -> in_i64 b = true ->
    perform_checked op a b = RVal v true ->
    exact_op op a b = None \/
    (exists z, exact_op op a b = Some z /\ in_i64 z = false) \/
    (op = OpDiv /\ a = - i64_max /\ b = -1).
Proof.
  intros op a b v Ha Hb E. destruct op; cbn [perform_checked exact_op overflowing] in *.
  - injection E as _ Ho. apply negb_true_iff in Ho. right; left. eauto.
  - injection E as _ Ho. apply negb_true_iff in Ho. right; left. eauto.
  - injection E as _ Ho. apply negb_true_iff in Ho. right; left. eauto.
  - destruct (b =? 0) eqn:Gb; [left; reflexivity|]. cbn [orb] in E.
    destruct ((a <=? - i64_max) && (b =? -1)) eqn:G; [|discriminate].
    apply andb_true_iff in G as [G1 G2]. apply Z.leb_le in G1. apply Z.eqb_eq in G2. subst b.
    apply in_i64_iff in Ha. unfold i64_max in *.
    destruct (Z.eq_dec a (-9223372036854775808)) as [->|Hne].
    + right; left. eexists. split; [reflexivity|]. vm_compute. reflexivity.
    + right; right. repeat split. lia.
  - destruct (b =? 0) eqn:Gb; [left; reflexivity|]. discriminate.
Qed.

(* completeness of the Ok branch: an exact result that fits is returned as such, outside the two
   named cases *)
Theorem perform_checked_complete :
  forall op a b z,
    in_i64 a = true -> in_i64 b = true ->
    exact_op op a b = Some z -> in_i64 z = true ->
    ~ (op = OpDiv /\ a = - i64_max /\ b = -1) ->
    perform_checked op a b = RVal z false.
Proof.
  intros op a b z Ha Hb E Hz N1. destruct op; cbn [perform_checked exact_op overflowing] in *.
  - injection E as <-. unfold overflowing. rewrite (wrap64_id _ Hz), Hz. reflexivity.
  - injection E as <-. unfold overflowing. rewrite (wrap64_id _ Hz), Hz. reflexivity.
  - injection E as <-. unfold overflowing. rewrite (wrap64_id _ Hz), Hz. reflexivity.
  - destruct (b =? 0) eqn:Gb; [discriminate|]. injection E as <-. cbn [orb].
    destruct ((a <=? - i64_max) && (b =? -1)) eqn:G; [|reflexivity]. exfalso.
    apply andb_true_iff in G as [G1 G2]. apply Z.leb_le in G1. apply Z.eqb_eq in G2. subst b.
    apply in_i64_iff in Ha. unfold i64_max in *.
    destruct (Z.eq_dec a (-9223372036854775808)) as [->|Hne].
    + vm_compute in Hz. discriminate.
    + apply N1. repeat split. lia.
  - destruct (b =? 0) eqn:Gb; [discriminate|]. injection E as <-. reflexivity.
Qed.

(* i64::MIN % -1: the exact remainder 0, no overflow (F9 is fixed: wrapping_rem) *)
Lemma mod_min_minus_one : perform_checked OpMod i64_min (-1) = RVal 0 false.
Proof. reflexivity. Qed.

(* ---- NULL propagation -------------------------------------------------------------------------- *)

Lemma cell_op_null_l op b : cell_op op None b = COk None.
Proof. reflexivity. Qed.

Lemma cell_op_null_r op a : cell_op op a None = COk None.
Proof. destruct a; reflexivity. Qed.

(* the operator loop: a row whose present bit is clear contributes no overflow *)
Lemma checked_loop_all_absent :
  forall op pairs acc any,
    exists vs, checked_loop op pairs (Some []) acc any =
               if any then VOverflow else VOk (rev acc ++ vs).
Proof.
  intros op pairs. induction pairs as [|[a b] rest IH]; intros acc any.
  - exists []. cbn [checked_loop]. rewrite qrev_eq, app_nil_r. reflexivity.
  - cbn [checked_loop]. destruct (perform_checked op a b) as [v o] eqn:E.
    rewrite andb_false_r, orb_false_r.
    destruct (IH (v :: acc) any) as [vs Hvs].
    exists (v :: vs). rewrite Hvs. cbn [rev]. rewrite <- app_assoc. reflexivity.
Qed.

(* ---- expression trees --------------------------------------------------------------------------- *)

Fixpoint consts_in_range (e : aexpr) : bool :=
  match e with
  | ACol _ => true
  | AConst z => in_i64 z
  | ABin _ l r => consts_in_range l && consts_in_range r
  end.

Definition row_in_range (row : list (option Z)) : Prop :=
  forall z, In (Some z) row -> in_i64 z = true.

Lemma nth_in_range row i z : row_in_range row -> nth i row None = Some z -> in_i64 z = true.
Proof.
  intros Hr E. apply Hr. rewrite <- E.
  destruct (Nat.lt_ge_cases i (length row)) as [Hlt|Hge].
  - apply nth_In. exact Hlt.
  - rewrite nth_overflow in E by exact Hge. discriminate.
Qed.

(* C06_tree: a value returned for a row is the exact value of the expression over the integers,
   every intermediate result fits in i64 *)
Theorem eval_aexpr_exact :
  forall row e v,
    row_in_range row -> consts_in_range e = true ->
    eval_aexpr row e = COk v ->
    exact_aexpr row e = Some v /\ (forall z, v = Some z -> in_i64 z = true).
Proof.
  intros row e. induction e as [i|z|op l IHl r IHr]; intros v Hrow Hc E.
  - cbn [eval_aexpr exact_aexpr] in *. rewrite qnth_eq in *. injection E as <-.
    split; [reflexivity|]. intros z Hz. eapply nth_in_range; eauto.
  - cbn in *. injection E as <-. split; [reflexivity|]. intros z' Hz. injection Hz as <-. exact Hc.
  - cbn [consts_in_range] in Hc. apply andb_true_iff in Hc as [Hcl Hcr].
    cbn [eval_aexpr exact_aexpr] in *.
    destruct (eval_aexpr row l) as [a|] eqn:El; try discriminate.
    destruct (eval_aexpr row r) as [b|] eqn:Er; try discriminate.
    destruct (IHl a Hrow Hcl eq_refl) as [Xl Rl].
    destruct (IHr b Hrow Hcr eq_refl) as [Xr Rr].
    rewrite Xl, Xr.
    destruct a as [x|]; [|cbn in E; injection E as <-; split; [reflexivity|discriminate]].
    destruct b as [y|]; [|cbn in E; injection E as <-; split; [reflexivity|discriminate]].
    cbn [cell_op] in E.
    destruct (perform_checked op x y) as [w o] eqn:P.
    destruct o; [discriminate|]. injection E as <-.
    destruct (perform_checked_exact op x y w (Rl x eq_refl) (Rr y eq_refl) P) as [Ex Hw].
    rewrite Ex. split; [reflexivity|]. intros z Hz. injection Hz as <-. exact Hw.
Qed.

(* ---- checked summation -------------------------------------------------------------------------- *)

Fixpoint zsum (xs : list Z) : Z := match xs with [] => 0 | x :: r => x + zsum r end.

Lemma zsum_app xs ys : zsum (xs ++ ys) = zsum xs + zsum ys.
Proof. induction xs as [|x xs IH]; cbn [zsum app]; lia. Qed.

Lemma sum_loop_sticky acc xs : snd (sum_loop acc true xs) = true.
Proof. revert acc. induction xs as [|x r IH]; intros acc; cbn; [reflexivity|apply IH]. Qed.

Lemma sum_loop_exact :
  forall xs acc s,
    in_i64 acc = true -> sum_loop acc false xs = (s, false) ->
    s = acc + zsum xs /\ in_i64 s = true.
Proof.
  induction xs as [|x r IH]; intros acc s Hacc E.
  - cbn in E. injection E as <-. cbn. split; [lia|exact Hacc].
  - cbn [sum_loop] in E. destruct (in_i64 (acc + x)) eqn:Hx.
    + cbn [negb orb] in E. rewrite wrap64_id in E by exact Hx.
      destruct (IH (acc + x) s Hx E) as [Hs Hr]. split; [|exact Hr]. cbn [zsum]. lia.
    + cbn [negb orb] in E. pose proof (sum_loop_sticky (wrap64 (acc + x)) r) as St.
      rewrite E in St. discriminate.
Qed.

Lemma sum_partition_exact xs s : sum_partition xs = Some s -> s = zsum xs /\ in_i64 s = true.
Proof.
  unfold sum_partition. destruct (sum_loop 0 false xs) as [s' o] eqn:E.
  destruct o; [discriminate|]. intros H. injection H as <-.
  destruct (sum_loop_exact xs 0 s' eq_refl E) as [H1 H2]. split; [lia|exact H2].
Qed.

(* every prefix sum fits => the partition sum is returned *)
Lemma sum_loop_complete :
  forall xs acc,
    in_i64 acc = true ->
    (forall k, in_i64 (acc + zsum (firstn k xs)) = true) ->
    sum_loop acc false xs = (acc + zsum xs, false).
Proof.
  induction xs as [|x r IH]; intros acc Hacc Hp.
  - cbn. f_equal. lia.
  - cbn [sum_loop]. pose proof (Hp 1%nat) as H1. cbn in H1. rewrite Z.add_0_r in H1.
    rewrite H1. cbn [negb orb]. rewrite wrap64_id by exact H1.
    rewrite IH; [f_equal; cbn [zsum]; lia|exact H1|].
    intros k. specialize (Hp (S k)). cbn [firstn zsum] in Hp.
    rewrite Z.add_assoc in Hp. exact Hp.
Qed.

(* no sub-result of a node equals the I64_NULL sentinel (i64::MAX): the guard under which the merge
   is exact.  Outside it Combinable<i64>::combine drops a partial sum (sum_tree_refuted). *)
Fixpoint no_sentinel (t : mtree) : Prop :=
  match t with
  | MLeaf _ => True
  | MNode l r => no_sentinel l /\ no_sentinel r /\
                 zsum (mtree_rows l) <> i64_null /\ zsum (mtree_rows r) <> i64_null
  end.

(* C06_sum: per-partition checked accumulation + checked merge over ANY binary merge tree returns
   the exact sum of all rows (which then fits in i64), or Overflow *)
Theorem sum_tree_exact :
  forall t s, no_sentinel t -> sum_tree t = Some s -> s = zsum (mtree_rows t) /\ in_i64 s = true.
Proof.
  induction t as [xs|l IHl r IHr]; intros s Hns E.
  - cbn in *. apply sum_partition_exact. exact E.
  - cbn [sum_tree mtree_rows no_sentinel] in *. destruct Hns as (Nl & Nr & Sl & Sr).
    destruct (sum_tree l) as [a|] eqn:El; [|discriminate].
    destruct (sum_tree r) as [b|] eqn:Er; [|discriminate].
    destruct (IHl a Nl eq_refl) as [Ha Ra]. destruct (IHr b Nr eq_refl) as [Hb Rb].
    unfold combine_i64 in E.
    destruct (a =? i64_null) eqn:Ea; [apply Z.eqb_eq in Ea; congruence|].
    destruct (b =? i64_null) eqn:Eb; [apply Z.eqb_eq in Eb; congruence|].
    destruct (in_i64 (a + b)) eqn:Hab; [|discriminate]. injection E as <-.
    rewrite zsum_app. split; [lia|exact Hab].
Qed.

Lemma sum_tree_refuted :
  exists t, sum_tree t = Some 0 /\ zsum (mtree_rows t) = i64_max.
Proof. exists (MNode (MLeaf [9223372036854775806; 1]) (MLeaf [0])). split; reflexivity. Qed.

(* a split is a left-leaning tree: the two formulations agree *)
Fixpoint tree_of_parts (t : mtree) (parts : list (list Z)) : mtree :=
  match parts with [] => t | p :: rest => tree_of_parts (MNode t (MLeaf p)) rest end.

Lemma sum_merge_tree :
  forall parts t a, sum_tree t = Some a -> sum_merge a parts = sum_tree (tree_of_parts t parts).
Proof.
  induction parts as [|p rest IH]; intros t a Ht; cbn [sum_merge tree_of_parts].
  - symmetry. exact Ht.
  - destruct (sum_partition p) as [s|] eqn:Ep.
    + destruct (combine_i64 AggSum a s) as [v| |] eqn:Ec.
      * apply IH. cbn [sum_tree]. rewrite Ht, Ep, Ec. reflexivity.
      * clear IH. assert (H : sum_tree (MNode t (MLeaf p)) = None) by (cbn; rewrite Ht, Ep, Ec; reflexivity).
        revert H. generalize (MNode t (MLeaf p)). induction rest as [|q rest IHr]; intros u Hu; cbn.
        -- symmetry; exact Hu.
        -- apply IHr. cbn. rewrite Hu. reflexivity.
      * clear IH. assert (H : sum_tree (MNode t (MLeaf p)) = None) by (cbn; rewrite Ht, Ep, Ec; reflexivity).
        revert H. generalize (MNode t (MLeaf p)). induction rest as [|q rest IHr]; intros u Hu; cbn.
        -- symmetry; exact Hu.
        -- apply IHr. cbn. rewrite Hu. reflexivity.
    + clear IH. assert (H : sum_tree (MNode t (MLeaf p)) = None) by (cbn; rewrite Ht, Ep; reflexivity).
      revert H. generalize (MNode t (MLeaf p)). induction rest as [|q rest IHr]; intros u Hu; cbn.
      * symmetry; exact Hu.
      * apply IHr. cbn. rewrite Hu. reflexivity.
Qed.

(* non-negative values with a total below i64::MAX: never Overflow, whatever the tree *)
Lemma zsum_nonneg xs : Forall (fun x => 0 <= x) xs -> 0 <= zsum xs.
Proof. induction 1 as [|x r Hx _ IH]; cbn [zsum]; lia. Qed.

Lemma zsum_firstn_le xs k : Forall (fun x => 0 <= x) xs -> 0 <= zsum (firstn k xs) <= zsum xs.
Proof.
  intros H. revert k. induction H as [|x r Hx Hr IH]; intros k.
  - destruct k; cbn; lia.
  - destruct k; cbn [firstn zsum].
    + pose proof (zsum_nonneg r Hr). lia.
    + specialize (IH k). lia.
Qed.

Theorem sum_tree_complete_nonneg :
  forall t,
    Forall (fun x => 0 <= x) (mtree_rows t) -> zsum (mtree_rows t) < i64_max ->
    sum_tree t = Some (zsum (mtree_rows t)).
Proof.
  induction t as [xs|l IHl r IHr]; intros Hnn Hlt; cbn [sum_tree mtree_rows] in *.
  - unfold sum_partition. rewrite sum_loop_complete; [rewrite Z.add_0_l; reflexivity|reflexivity|].
    intros k. apply in_i64_iff. pose proof (zsum_firstn_le xs k Hnn). unfold i64_max in *. lia.
  - apply Forall_app in Hnn as [Hl Hr]. rewrite zsum_app in *.
    pose proof (zsum_nonneg _ Hl). pose proof (zsum_nonneg _ Hr).
    rewrite IHl by (auto; lia). rewrite IHr by (auto; lia).
    unfold combine_i64, i64_null.
    destruct (zsum (mtree_rows l) =? i64_max) eqn:E1; [apply Z.eqb_eq in E1; lia|].
    destruct (zsum (mtree_rows r) =? i64_max) eqn:E2; [apply Z.eqb_eq in E2; lia|].
    assert (Hin : in_i64 (zsum (mtree_rows l) + zsum (mtree_rows r)) = true)
      by (apply in_i64_iff; unfold i64_max in *; lia).
    rewrite Hin. reflexivity.
Qed.
