(* Catalogue, part 11: the state invariant behind the exactness of _meta_tables and its
   preservation; final statement. *)
From Coq Require Import NArith ZArith List Bool Lia.
From LV Require Import Model.TableSM Model.Catalogue Model.WalSM
     Proofs.TableSM Proofs.WalSMBase Proofs.WalSM Proofs.WalSMLog Proofs.Catalogue
     Proofs.CatalogueLog Proofs.CatalogueInv Proofs.CatalogueFlush Proofs.CatalogueRecover
     Proofs.CatalogueMain Proofs.CatalogueTables.
Import ListNotations.
Open Scope N_scope.

Record Cat2 (s : db) : Prop := {
  c2_log : log_ok2 (acked s);
  (* every table other than _meta_tables has rows *)
  c2_rows : forall n t, n <> s_meta_tables -> lookup n (tabs s) = Some t -> content s n <> []
}.

Lemma cat2_init : forall c, Cat2 (init c).
Proof.
  intro c. constructor; [constructor|]. intros n t Hn L. cbn in L.
  destruct (name_eqb n s_meta_tables) eqn:E; [|discriminate]. apply name_eqb_eq in E. contradiction.
Qed.

Definition has (l : tabsT) (n : name) : bool := match lookup n l with Some _ => true | None => false end.

Lemma created_of_ext : forall h h' b,
  (forall tb, In tb b -> h (tb_name tb) = h' (tb_name tb) /\
                         h (meta_columns_of (tb_name tb)) = h' (meta_columns_of (tb_name tb))) ->
  created_of h b = created_of h' b.
Proof.
  intros h h' b H. unfold created_of. induction b as [|tb b IH]; [reflexivity|]. cbn [flat_map].
  destruct (H tb (or_introl eq_refl)) as [E1 E2]. rewrite E1, E2. f_equal. apply IH. intros; apply H; right; auto.
Qed.

Lemma has_create_other : forall seed n l l' b m, create_if_empty seed n l = (l', b) -> m <> n -> has l' m = has l m.
Proof.
  intros seed n l l' b m E Hne. unfold has. destruct (create_if_empty_spec _ _ _ _ _ E) as [_ [H2 [H3 _]]].
  destruct (lookup m l) as [t|] eqn:L; [rewrite (H2 _ _ L); reflexivity|rewrite (H3 _ L Hne); reflexivity].
Qed.

Lemma create_flag : forall seed n l l' b, create_if_empty seed n l = (l', b) -> b = negb (has l n).
Proof.
  intros seed n l l' b E. unfold create_if_empty in E. unfold has. destruct (lookup n l); injection E as _ <-; reflexivity.
Qed.

Lemma has_ensure : forall n l l' m, ensure_cols n l = Val l' -> has l' m = has l m.
Proof.
  intros n l l' m E. apply ensure_cols_spec in E. destruct E as [[K _] _]. unfold has.
  destruct (lookup m l) eqn:L.
  - apply lookup_some_in in L. rewrite <- K in L. destruct (lookup_in_some _ _ L) as [t' ->]. reflexivity.
  - apply lookup_none in L. rewrite <- K in L. apply lookup_none in L. rewrite L. reflexivity.
Qed.

Lemma prepare_created : forall seed b l created colrows l' created' colrows',
  prepare seed b l created colrows = Val (l', created', colrows') ->
  NoDup (map tb_name b) -> Forall (fun tb => user_table (tb_name tb) = true) b ->
  created' = created ++ created_of (has l) b.
Proof.
  induction b as [|tb rest IH]; cbn [prepare]; intros l created colrows l' created' colrows'.
  - intros H _ _. injection H as _ <- _. cbn. rewrite app_nil_r. reflexivity.
  - destruct (create_if_empty seed (tb_name tb) l) as [l1 c1] eqn:E1.
    destruct (create_if_empty seed (meta_columns_of (tb_name tb)) l1) as [l2 c2] eqn:E2.
    destruct (ensure_cols (tb_name tb) l2) as [l3| | | |] eqn:E3; cbn [bind]; try discriminate.
    destruct (lookup (tb_name tb) l3) as [t|]; [|discriminate]. destruct (t_cols t); [|discriminate].
    intros H ND Hu. inversion ND as [|? ? Hn ND']; subst. inversion Hu as [|? ? Hu1 Hu2]; subst.
    rewrite (IH _ _ _ _ _ _ H ND' Hu2).
    assert (Hmc_ne : meta_columns_of (tb_name tb) <> tb_name tb).
    { intro E. rewrite <- E in Hu1. rewrite meta_columns_of_meta in Hu1. discriminate. }
    assert (Ext : created_of (has l3) rest = created_of (has l) rest).
    { apply created_of_ext. intros tb' HI.
      assert (Hu' : user_table (tb_name tb') = true) by (rewrite Forall_forall in Hu2; auto).
      assert (N1 : tb_name tb' <> tb_name tb) by (intro E; apply Hn; rewrite <- E; apply in_map; exact HI).
      assert (N2 : tb_name tb' <> meta_columns_of (tb_name tb)) by (intro E; rewrite E, meta_columns_of_meta in Hu'; discriminate).
      assert (N3 : meta_columns_of (tb_name tb') <> tb_name tb) by (intro E; rewrite <- E, meta_columns_of_meta in Hu1; discriminate).
      assert (N4 : meta_columns_of (tb_name tb') <> meta_columns_of (tb_name tb)) by (intro E; apply meta_columns_of_inj in E; contradiction).
      rewrite !(has_ensure _ _ _ _ E3), !(has_create_other _ _ _ _ _ _ E2), !(has_create_other _ _ _ _ _ _ E1); auto. }
    rewrite Ext. unfold created_of at 2. cbn [flat_map]. fold (created_of (has l) rest).
    rewrite (create_flag _ _ _ _ _ E1), (create_flag _ _ _ _ _ E2), (has_create_other _ _ _ _ _ _ E1 Hmc_ne).
    destruct (has l (tb_name tb)), (has l (meta_columns_of (tb_name tb))); cbn [negb app]; rewrite <- ?app_assoc; reflexivity.
Qed.

(* ---------------------------------------------------------------------------------------------- *)
(* [has] on a state at rest is [log_has] on its log, for every table other than _meta_tables *)

Lemma has_log_has : forall s n, Inv s -> Cat2 s -> n <> s_meta_tables -> has (tabs s) n = log_has (acked s) n.
Proof.
  intros s n I C2 Hn. unfold has, log_has. rewrite <- (i_acked _ I n).
  destruct (lookup n (tabs s)) as [t|] eqn:L.
  - pose proof (c2_rows _ C2 _ _ Hn L) as Hr. destruct (content s n); [contradiction|reflexivity].
  - unfold content. rewrite L. reflexivity.
Qed.

Lemma meta_tables_batch_rows_mt : forall created,
  batch_rows s_meta_tables (meta_tables_batch created) = map meta_tables_row created.
Proof.
  intro created. unfold meta_tables_batch. destruct created as [|x xs]; [reflexivity|].
  rewrite batch_rows_cons. cbn [tb_name tb_rows]. rewrite name_eqb_refl.
  change (batch_rows s_meta_tables []) with (@nil row). rewrite app_nil_r. reflexivity.
Qed.

Lemma colrows_not_mt : forall LN b, batch_rows s_meta_tables (colrows_of LN b) = [].
Proof.
  intros LN b. unfold colrows_of. induction b as [|tb b IH]; [reflexivity|]. cbn [flat_map].
  rewrite batch_rows_app, IH, app_nil_r, meta_columns_batch_rows.
  assert (E : name_eqb (meta_columns_of (tb_name tb)) s_meta_tables = false).
  { apply name_eqb_neq. intro H. symmetry in H. apply meta_tables_not_columns in H. exact H. }
  rewrite E. reflexivity.
Qed.

Lemma ingest_cat2 : forall c b bytes s s',
  Inv s -> Cat s -> Cat2 s -> wf_batch b -> ingest c b bytes s = Val s' -> Cat2 s'.
Proof.
  intros c b bytes s s' I C C2 W H.
  destruct (ingest_spec _ _ _ _ _ I H) as [_ [extra0 [Ea0 [Hcont0 _]]]].
  revert H. unfold ingest.
  destruct (c_max_wal_bytes c <? wal_size s); [discriminate|].
  destruct (prepare code_seed b (tabs s) [] []) as [[[l1 created] colrows]| | | |] eqn:Ep;
    cbn [bind]; try discriminate.
  destruct (prepare_spec s I C _ _ _ _ _ _ _ _ (prep_inv_start s C) (wb_user _ W) Ep) as [P1 Ecol].
  cbn [app] in Ecol. fold (colrows_of (log_names (acked s)) b) in Ecol. subst colrows.
  pose proof (prepare_created _ _ _ _ _ _ _ _ Ep (wb_names _ W) (wb_user _ W)) as Ecr. cbn [app] in Ecr.
  set (LN := log_names (acked s)) in *.
  set (extra := meta_tables_batch created ++ colrows_of LN b).
  set (full := b ++ extra).
  destruct (apply_batch full l1) as [l2| | | |] eqn:Ea; cbn [bind]; try discriminate.
  intro H. injection H as <-.
  assert (Mextra : meta_named extra).
  { apply meta_named_app; [apply meta_tables_batch_meta|apply colrows_meta]. }
  assert (Hcreated : created = created_of (log_has (acked s)) b).
  { rewrite Ecr. apply created_of_ext. intros tb HI.
    assert (Hu : user_table (tb_name tb) = true) by (pose proof (wb_user _ W) as U; rewrite Forall_forall in U; auto).
    split; apply has_log_has; auto.
    - intro E. rewrite E in Hu. discriminate.
    - intro E. symmetry in E. apply meta_tables_not_columns in E. exact E. }
  assert (Hmt : batch_rows s_meta_tables full = map meta_tables_row created).
  { unfold full, extra. rewrite !batch_rows_app, (user_rows_nil _ _ (wb_user _ W) meta_tables_meta).
    rewrite colrows_not_mt, app_nil_r. cbn [app]. apply meta_tables_batch_rows_mt. }
  assert (Sok2 : seg_ok2 (acked s) full).
  { exists b, extra. split; [reflexivity|]. split; [exact W|]. split; [exact Mextra|].
    split; [rewrite Hmt; apply Forall_forall; intros r Hr; apply in_map_iff in Hr; destruct Hr as [x [<- _]]; exists x; reflexivity|].
    split; [rewrite Hmt, tnames_of_map; exact Hcreated|].
    unfold extra. apply Forall_app. split.
    - unfold meta_tables_batch. destruct created as [|x xs]; constructor; [|constructor].
      cbn [tb_rows tb_name]. split; [discriminate|left; reflexivity].
    - unfold colrows_of. clear. induction b as [|tb b IHb]; [constructor|]. cbn [flat_map].
      apply Forall_app. split.
      + unfold meta_columns_batch. destruct (new_names _ _) as [|f fs]; constructor; [|constructor].
        cbn [tb_rows tb_name]. split; [discriminate|]. right. exists (tb_name tb). split; [left; reflexivity|reflexivity].
      + eapply Forall_impl; [|exact IHb]. cbn. intros tbx [H1 [H2|[t [Ht Et]]]]; split; auto.
        right. exists t. split; [right; exact Ht|exact Et]. }
  constructor; cbn [acked tabs].
  - apply log_ok2_snoc; [apply (c2_log _ C2)|exact Sok2].
  - intros n t' Hn L2.
    pose proof (apply_batch_spec _ _ _ Ea) as [K2 _].
    assert (Ex : extra0 = extra).
    { cbn [acked] in Ea0. apply app_inv_head in Ea0. injection Ea0 as Ea0. apply app_inv_head in Ea0. symmetry. exact Ea0. }
    specialize (Hcont0 n). rewrite Ex in Hcont0. fold full in Hcont0. rewrite Hcont0.
    destruct (lookup n (tabs s)) as [t0|] eqn:L0.
    + pose proof (c2_rows _ C2 _ _ Hn L0) as Hr. destruct (content s n); [contradiction|discriminate].
    + assert (HI : In n (keys l1)). { rewrite <- K2. eapply lookup_some_in. exact L2. }
      destruct (prepare_keys _ _ _ _ _ _ _ _ Ep _ HI) as [HI0|[tb [Htb [->| ->]]]].
      * apply lookup_none in L0. contradiction.
      * unfold full. rewrite batch_rows_app. pose proof (wb_nonempty _ W) as Hne. rewrite Forall_forall in Hne.
        destruct (Hne _ Htb) as [_ Hr]. pose proof (in_batch_rows _ _ Htb Hr) as Hb.
        destruct (batch_rows (tb_name tb) b); [contradiction|]. destruct (content s (tb_name tb)); discriminate.
      * (* the catalogue table of a new table: all columns of the entry are new *)
        assert (Hu : user_table (tb_name tb) = true) by (pose proof (wb_user _ W) as U; rewrite Forall_forall in U; auto).
        assert (Hrows : batch_rows (meta_columns_of (tb_name tb)) full =
                        map (fun c => [(s_column_name, CStr c)]) (new_names (LN (tb_name tb)) (tb_cols tb))).
        { unfold full, extra. rewrite !batch_rows_app.
          rewrite (user_rows_nil _ _ (wb_user _ W) (meta_columns_of_meta (tb_name tb))).
          rewrite meta_tables_batch_rows_other; [|intro E; symmetry in E; apply meta_tables_not_columns in E; exact E].
          cbn [app]. rewrite (colrows_rows _ _ _ (wb_names _ W)).
          assert (Ef : find_tb (tb_name tb) b = Some tb).
          { pose proof (wb_names _ W) as ND. clear - ND Htb. unfold find_tb.
            induction b as [|y b IHb]; [destruct Htb|]. inversion ND as [|? ? Hn ND']; subst. cbn [find].
            destruct Htb as [->|Htb]; [rewrite name_eqb_refl; reflexivity|].
            destruct (name_eqb (tb_name y) (tb_name tb)) eqn:E.
            - apply name_eqb_eq in E. exfalso. apply Hn. rewrite E. apply in_map. exact Htb.
            - apply IHb; auto. }
          rewrite Ef. reflexivity. }
        assert (Eln : LN (tb_name tb) = []).
        { unfold LN, log_names. rewrite <- (i_acked _ I). unfold content. rewrite L0. reflexivity. }
        rewrite Hrows, Eln. unfold new_names. rewrite filter_all; [|intros; reflexivity].
        pose proof (wb_nonempty _ W) as Hne. rewrite Forall_forall in Hne. destruct (Hne _ Htb) as [Hc _].
        destruct (tb_cols tb); [contradiction|]. destruct (content s (meta_columns_of (tb_name tb))); discriminate.
Qed.

Lemma flush_cat2 : forall c o s s', Inv s -> Cat s -> Cat2 s -> flush true c o s = Val s' -> Cat2 s'.
Proof.
  intros c o s s' I C C2 F. destruct (flush_spec _ _ _ _ I F) as [_ [Hcont [Hack _]]].
  constructor.
  - rewrite Hack. apply (c2_log _ C2).
  - intros n t Hn L. rewrite Hcont.
    (* same keys: as in flush_cat *)
    revert F. unfold flush, flush_mid.
    destruct (freeze_all (tabs s)) as [l0| | | |] eqn:E0; cbn [bind]; try discriminate.
    destruct (flush_tables true c o (map fst l0) l0) as [l1| | | |] eqn:E1; cbn [bind]; try discriminate.
    destruct (map_tabs SNoTable (fun t => Some (publish_meta t)) l1) as [l2| | | |] eqn:E2; cbn [bind]; try discriminate.
    destruct (delete_orphans l2) as [l3| | | |] eqn:E3; cbn [bind]; try discriminate.
    destruct (delete_segments _ _ _); cbn [of_opt bind]; [|discriminate].
    intro H. injection H as E. rewrite <- E in L. cbn [tabs] in L.
    pose proof (cat_rel_start s C) as R.
    pose proof (cat_rel_map s _ _ _ _ freeze_content R E0) as R0.
    pose proof (cat_rel_flush_tables s I C _ _ _ _ _ R0 E1) as R1.
    assert (R2 : cat_rel s l2).
    { eapply cat_rel_map; [|exact R1|exact E2]. intros t0 t' Ht. injection Ht as <-. split; reflexivity. }
    pose proof (cat_rel_map s _ _ _ _ delete_dead_content R2 E3) as R3.
    assert (HI : In n (keys (tabs s))). { rewrite <- (cr_keys _ _ R3). eapply lookup_some_in. exact L. }
    destruct (lookup_in_some _ _ HI) as [t0 L0]. eapply (c2_rows _ C2); eauto.
Qed.

(* every entry of a written buffer carries rows *)
Lemma seg_ok2_rows : forall pre full tb, seg_ok2 pre full -> In tb full -> tb_rows tb <> [].
Proof.
  intros pre full tb [b [extra [-> [W [_ [_ [_ Hx]]]]]]] HI. apply in_app_or in HI. destruct HI as [HI|HI].
  - pose proof (wb_nonempty _ W) as Hne. rewrite Forall_forall in Hne. apply (Hne _ HI).
  - rewrite Forall_forall in Hx. apply (Hx _ HI).
Qed.

Lemma log_ok2_in : forall log full, log_ok2 log -> In full log -> exists pre, seg_ok2 pre full.
Proof.
  intros log full H. induction H as [|log f H IH S]; intro HI; [destruct HI|].
  apply in_app_or in HI. destruct HI as [HI|[<-|[]]]; eauto.
Qed.

Lemma recover_cat2 : forall c s s', Inv s -> Cat s -> Cat2 s -> recover c s = Val s' -> Cat2 s'.
Proof.
  intros c s s' I C C2 R.
  destruct (recover_spec _ _ _ I R) as [_ [Hcont [Hack _]]].
  constructor; [rewrite Hack; apply (c2_log _ C2)|].
  intros n t Hn L. rewrite Hcont.
  (* the table existed before the restart *)
  assert (Hin : In n (keys (tabs s))).
  { revert R L. unfold recover.
    set (cursor := match d_cursor s with Some k => k | None => 0 end).
    assert (Ecur : cursor = earliest s).
    { unfold cursor. pose proof (i_cursor _ I) as H. destruct (d_cursor s); congruence. }
    assert (Ekeep : sort_segs (filter (fun x => cursor <=? fst x) (d_wal s)) = d_wal s).
    { rewrite filter_all.
      - eapply sort_segs_sorted. apply (i_ids _ I).
      - intros x HI. apply N.leb_le. rewrite Ecur. eapply seqN_ge. rewrite <- (i_ids _ I). apply in_map. exact HI. }
    rewrite Ekeep.
    destruct (restore_tables code_seed (tabs s)) as [l0| | | |] eqn:E0; cbn [bind]; try discriminate.
    destruct (create_if_empty code_seed s_meta_tables l0) as [l1 b1] eqn:E1.
    destruct (replay code_seed (d_wal s) None l1) as [l2| | | |] eqn:E2; cbn [bind]; try discriminate.
    intro H. injection H as <-. cbn [tabs]. intro L.
    destruct (replay_keys _ _ _ _ _ E2 n (lookup_some_in _ _ _ L)) as [HI|[x [Hx Hnm]]].
    - destruct (create_if_empty_spec _ _ _ _ _ E1) as [_ [_ [_ [_ [_ Kc]]]]].
      destruct (Kc _ HI) as [HI0|E]; [|contradiction]. eapply restore_tables_keys; eauto.
    - apply in_map_iff in Hnm. destruct Hnm as [tb [En Htb]].
      destruct (c_wal _ C) as [pre Epre].
      assert (Hfull : In (sg_data (snd x)) (acked s)).
      { rewrite Epre. apply in_or_app. right. unfold wal_log. apply (in_map (fun y => sg_data (snd y))). exact Hx. }
      destruct (log_ok2_in _ _ (c2_log _ C2) Hfull) as [p0 S2].
      pose proof (seg_ok2_rows _ _ _ S2 Htb) as Hrows.
      assert (Hr : batch_rows n (sg_data (snd x)) <> []).
      { rewrite <- En. apply in_batch_rows; auto. }
      pose proof (wal_rows_in _ _ _ Hx Hr) as Hw. rewrite <- (i_bufs _ I n) in Hw.
      unfold view in Hw. destruct (lookup n (tabs s)) eqn:Lt; [eapply lookup_some_in; eauto|].
      exfalso. apply Hw. reflexivity. }
  destruct (lookup_in_some _ _ Hin) as [t0 L0]. eapply (c2_rows _ C2); eauto.
Qed.

Lemma step_cat2 : forall c s o s', Inv s -> Cat s -> Cat2 s -> wf_op o -> step true c s o = Val s' -> Cat2 s'.
Proof.
  intros c s o s' I C C2 W H. destruct o as [b bytes|bg orc| |]; cbn [step] in H.
  - eapply ingest_cat2; eauto.
  - destruct (bg && negb (bg_enabled c s)); [discriminate|]. eapply flush_cat2; eauto.
  - injection H as <-. exact C2.
  - eapply recover_cat2; eauto.
Qed.

Theorem tables_listed : forall c ops s,
  Forall wf_op ops -> run true c ops (init c) = Val s ->
  exists names, string_column s_name (content s s_meta_tables) = Some names /\ NoDup names /\
    forall n, In n names <-> (n <> s_meta_tables /\ exists t, lookup n (tabs s) = Some t).
Proof.
  intros c ops s W H.
  assert (G : forall ops s0 s1, Forall wf_op ops -> Inv s0 -> Cat s0 -> Cat2 s0 ->
              run true c ops s0 = Val s1 -> Inv s1 /\ Cat s1 /\ Cat2 s1).
  { clear. induction ops as [|o ops IH]; cbn [run]; intros s0 s1 W I C C2 H.
    - injection H as <-. auto.
    - inversion W; subst. destruct (step true c s0 o) as [s2| | | |] eqn:E; cbn [bind] in H; try discriminate.
      eapply IH; [eassumption| | | |exact H].
      + eapply step_inv; eauto.
      + eapply step_cat; eauto.
      + eapply step_cat2; eauto. }
  destruct (G ops (init c) s W (inv_init c) (cat_init c) (cat2_init c) H) as [I [C C2]].
  destruct (mt_names_exact _ (c_log _ C) (c2_log _ C2)) as [ND Hex].
  exists (mt_names (acked s)). split; [|split; [exact ND|]].
  - rewrite (i_acked _ I). apply string_column_mt_rows. apply mt_rows_log. apply (c2_log _ C2).
  - intro n. rewrite Hex. split.
    + intros [Hn Hh]. split; auto. rewrite <- (has_log_has _ _ I C2 Hn) in Hh. unfold has in Hh.
      destruct (lookup n (tabs s)); [eauto|discriminate].
    + intros [Hn [t L]]. split; auto. rewrite <- (has_log_has _ _ I C2 Hn). unfold has. rewrite L. reflexivity.
Qed.
