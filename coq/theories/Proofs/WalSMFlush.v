(* Database-level proofs, part 4: a flush of a reachable state cannot hit the assertions and
   unwraps of the flush protocol itself (frozen buffer not empty, compaction range out of bounds,
   removal of a missing partition file or log segment); what is left are the known-defect sites,
   u64 overflow of the size arithmetic and the catalogue-loading sites. *)
From Coq Require Import NArith ZArith List Bool Lia.
From LV Require Import Model.TableSM Model.Catalogue Model.WalSM
     Proofs.TableSM Proofs.WalSMBase Proofs.WalSM Proofs.WalSMLog.
Import ListNotations.
Open Scope N_scope.

Definition flush_ok_site (st : site) : Prop :=
  st = SOverflow \/ st = SCatalogue \/ st = SNoTable \/ st = SColsNotInit.

Definition flush_shape {A} (r : res A) : Prop :=
  (exists a, r = Val a) \/ (exists k, r = Known k) \/ (exists st, r = Panic st /\ flush_ok_site st).

Lemma compact_in_range : forall g sz i cols t,
  (i < length (t_parts t))%nat -> compact g sz i cols t <> TPanic.
Proof.
  intros g sz i cols t H. unfold compact.
  destruct (skipn i (t_parts t)) eqn:E.
  - exfalso. assert (L : length (skipn i (t_parts t)) = 0%nat) by (rewrite E; reflexivity).
    rewrite skipn_length in L. lia.
  - destruct (g && _); [discriminate|]. destruct (g && _); discriminate.
Qed.

Lemma flush_table_shape : forall g c o n (l : tabsT), flush_shape (flush_table g c o n l).
Proof.
  intros g c o n l. unfold flush_table, flush_shape.
  destruct (lookup n l) as [t|]; [|right; right; eexists; split; [reflexivity|unfold flush_ok_site; auto]].
  destruct (plan_compaction (c_factor c) (t_parts (batch_table (fst (sizes_for o n)) t))) as [|i|] eqn:Ep.
  - left. eauto.
  - destruct (ensure_cols_shape n (upd n (batch_table (fst (sizes_for o n)) t) l)) as [[l1 E1]|[st E1]];
      rewrite E1; cbn [bind].
    + destruct (lookup n l1) as [t2|] eqn:E2;
        [|right; right; eexists; split; [reflexivity|unfold flush_ok_site; auto]].
      destruct (t_cols t2); [|right; right; eexists; split; [reflexivity|unfold flush_ok_site; auto]].
      destruct (compact g (snd (sizes_for o n)) i l0 t2) as [t3|k|] eqn:Ec; cbn [lift_t bind].
      * left. eauto.
      * right. left. eauto.
      * exfalso. eapply compact_in_range; [|exact Ec].
        apply plan_compaction_range in Ep.
        pose proof (ensure_cols_spec _ _ _ E1) as [[_ M] _].
        assert (L : exists t0, lookup n (upd n (batch_table (fst (sizes_for o n)) t) l) = Some t0).
        { destruct (lookup n (upd n (batch_table (fst (sizes_for o n)) t) l)) eqn:E; eauto.
          exfalso. apply lookup_none in E. rewrite keys_upd in E.
          pose proof (ensure_cols_spec _ _ _ E1) as [[K _] _]. apply lookup_some_in in E2.
          rewrite K, keys_upd in E2. contradiction. }
        destruct L as [t0 L0].
        assert (t0 = batch_table (fst (sizes_for o n)) t).
        { destruct (lookup n l) as [tt|] eqn:El.
          - rewrite (lookup_upd_same _ _ _ _ El) in L0. congruence.
          - apply lookup_some_in in L0. rewrite keys_upd in L0. apply lookup_none in El. contradiction. }
        subst t0. destruct (M _ _ L0) as [t2' [L2 M2]]. rewrite E2 in L2. injection L2 as <-.
        destruct (modc_fields _ _ M2) as [_ [_ [Fp _]]]. rewrite Fp. exact Ep.
    + right. right. exists st. split; auto. apply ensure_cols_panic in E1. unfold flush_ok_site. tauto.
  - right. right. eexists. split; [reflexivity|]. unfold flush_ok_site. auto.
Qed.

Lemma flush_tables_shape : forall g c o names (l : tabsT), flush_shape (flush_tables g c o names l).
Proof.
  induction names as [|n names IH]; cbn [flush_tables]; intro l; [left; eauto|].
  destruct (flush_table_shape g c o n l) as [[l1 E]|[[k E]|[st [E Hs]]]]; rewrite E; cbn [bind].
  - apply IH.
  - right. left. eauto.
  - right. right. eauto.
Qed.

(* the flush of a reachable state: a state, a known-defect site, or one of the tolerated sites *)
Lemma flush_outcome : forall c o s, Inv s -> flush_shape (flush true c o s).
Proof.
  intros c o s I. unfold flush, flush_mid.
  destruct (freeze_all (tabs s)) as [l0| |st| |] eqn:E0; cbn [bind].
  2:{ unfold freeze_all in E0. destruct (map_tabs_total _ _ _ _ E0) as [[? ?]|?]; discriminate. }
  2:{ exfalso. unfold freeze_all in E0. apply map_tabs_panic in E0. destruct E0 as [_ [k [v [HI Hf]]]].
      pose proof (in_lookup _ _ _ (i_keys _ I) HI) as L. pose proof (i_tabs _ I k) as T.
      unfold view in T. rewrite L in T. destruct (freeze_spec _ T) as [t' [F _]]. congruence. }
  2:{ unfold freeze_all in E0. destruct (map_tabs_total _ _ _ _ E0) as [[? ?]|?]; discriminate. }
  2:{ unfold freeze_all in E0. destruct (map_tabs_total _ _ _ _ E0) as [[? ?]|?]; discriminate. }
  destruct (flush_tables true c o (map fst l0) l0) as [l1|k|st| |] eqn:E1; cbn [bind].
  2:{ right. left. eauto. }
  2:{ destruct (flush_tables_shape true c o (map fst l0) l0) as [[? E]|[[? E]|[st' [E Hs]]]];
        rewrite E in E1; try discriminate. injection E1 as <-. right. right. eauto. }
  2:{ destruct (flush_tables_shape true c o (map fst l0) l0) as [[? E]|[[? E]|[st' [E Hs]]]];
        rewrite E in E1; discriminate. }
  2:{ destruct (flush_tables_shape true c o (map fst l0) l0) as [[? E]|[[? E]|[st' [E Hs]]]];
        rewrite E in E1; discriminate. }
  (* from here on as in flush_spec: every table is in the mid-flush state *)
  pose proof E0 as E0'. unfold freeze_all in E0'. apply map_tabs_spec in E0'. destruct E0' as [K0 [S0 N0]].
  assert (ND0 : NoDup (keys l0)) by (rewrite K0; apply (i_keys _ I)).
  assert (Hpre : forall n, In n (map fst l0) -> exists t, lookup n l0 = Some t /\ tpre t).
  { intros n HI. fold (keys l0) in HI. rewrite K0 in HI.
    destruct (lookup_in_some _ _ HI) as [t Lt]. destruct (S0 _ _ Lt) as [t0 [F0 L0]].
    exists t0. split; auto.
    pose proof (i_tabs _ I n) as T. unfold view in T. rewrite Lt in T.
    destruct (freeze_spec _ T) as [t0' [F0' [_ [_ [Hp [Hi [Ho [_ [Hf [_ Hd]]]]]]]]]].
    rewrite F0 in F0'. injection F0' as <-.
    destruct T as [[T1 T2 T3] T4 _ _ T7].
    constructor; [constructor|..].
    - rewrite Hp, Ho. exact T1.
    - rewrite Hp, Hi. exact T2.
    - rewrite Hp. exact T3.
    - congruence.
    - congruence. }
  destruct (flush_tables_spec _ _ _ _ _ ND0 Hpre E1) as [K1 [_ F1]].
  destruct (map_tabs SNoTable (fun t => Some (publish_meta t)) l1) as [l2| |st| |] eqn:E2; cbn [bind].
  2:{ destruct (map_tabs_total _ _ _ _ E2) as [[? ?]|?]; discriminate. }
  2:{ exfalso. apply map_tabs_panic in E2. destruct E2 as [_ [k [v [_ Hf]]]]. discriminate. }
  2:{ destruct (map_tabs_total _ _ _ _ E2) as [[? ?]|?]; discriminate. }
  2:{ destruct (map_tabs_total _ _ _ _ E2) as [[? ?]|?]; discriminate. }
  pose proof E2 as E2'. apply map_tabs_spec in E2'. destruct E2' as [K2 [S2 N2]].
  destruct (delete_orphans l2) as [l3| |st| |] eqn:E3; cbn [bind].
  2:{ unfold delete_orphans in E3. destruct (map_tabs_total _ _ _ _ E3) as [[? ?]|?]; discriminate. }
  2:{ exfalso. unfold delete_orphans in E3. apply map_tabs_panic in E3.
      destruct E3 as [_ [k [v [HI Hf]]]].
      assert (ND2 : NoDup (keys l2)) by (rewrite K2, K1; exact ND0).
      pose proof (in_lookup _ _ _ ND2 HI) as L2.
      assert (L1 : exists t1, lookup k l1 = Some t1).
      { destruct (lookup k l1) eqn:E; eauto. apply N2 in E. congruence. }
      destruct L1 as [t1 L1]. destruct (S2 _ _ L1) as [t2 [P2 L2']]. injection P2 as <-.
      rewrite L2 in L2'. injection L2' as ->.
      assert (L0 : exists t0, lookup k l0 = Some t0).
      { apply lookup_in_some. rewrite <- K1. eapply lookup_some_in; eauto. }
      destruct L0 as [t0 L0].
      assert (HI0 : In k (map fst l0)) by (eapply lookup_some_in; eauto).
      destruct (F1 _ _ HI0 L0) as [t1' [L1' [Mid _ _ _ _]]]. rewrite L1 in L1'. injection L1' as <-.
      destruct (finish_spec _ Mid) as [t3 [D3 _]]. congruence. }
  2:{ unfold delete_orphans in E3. destruct (map_tabs_total _ _ _ _ E3) as [[? ?]|?]; discriminate. }
  2:{ unfold delete_orphans in E3. destruct (map_tabs_total _ _ _ _ E3) as [[? ?]|?]; discriminate. }
  rewrite (i_next _ I).
  replace (N.to_nat (earliest s + N.of_nat (length (d_wal s)) - earliest s)) with (length (d_wal s)) by lia.
  rewrite (delete_segments_all _ _ _ (i_ids _ I)). cbn [of_opt bind]. left. eauto.
Qed.
