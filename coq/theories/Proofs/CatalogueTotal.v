(* Catalogue, part 9: a restart of a state reachable by well-formed requests always returns: the
   catalogue-loading sites of the replay cannot fire.  Needs: partitions are never empty (so a
   client table that was restored from partitions has a restored catalogue table). *)
From Coq Require Import NArith ZArith List Bool Lia.
From LV Require Import Model.TableSM Model.Catalogue Model.WalSM
     Proofs.TableSM Proofs.WalSMBase Proofs.WalSM Proofs.WalSMLog Proofs.Catalogue
     Proofs.CatalogueLog Proofs.CatalogueInv Proofs.CatalogueFlush Proofs.CatalogueRecover
     Proofs.CatalogueMain Proofs.CatalogueSeed Proofs.CatalogueKF3.
Import ListNotations.
Open Scope N_scope.

(* ---------------------------------------------------------------------------------------------- *)
(* partitions hold at least one row *)

Definition ne_parts (t : tstate) : Prop := Forall (fun p => p_rows p <> []) (t_parts t).
Definition NE (l : tabsT) : Prop := forall n, ne_parts (view l n).

Lemma ne_modc : forall t t', modc t t' -> ne_parts t -> ne_parts t'.
Proof. intros t t' [c ->] H. exact H. Qed.

Lemma ne_appended : forall rows t t', appended rows t t' -> ne_parts t -> ne_parts t'.
Proof. intros rows t t' [c ->] H. exact H. Qed.

Lemma ne_empty : forall c, ne_parts (empty_table c).
Proof. intro c. constructor. Qed.

Lemma ne_batch_table : forall sz t, ne_parts t -> ne_parts (batch_table sz t).
Proof.
  intros sz t H. unfold batch_table, ne_parts. destruct (t_frozen t) as [|r rows] eqn:E; [exact H|].
  cbn [t_parts]. apply Forall_app. split; [exact H|]. constructor; [cbn; discriminate|constructor].
Qed.

Lemma ne_compact : forall sz i cols t t', ne_parts t -> compact true sz i cols t = TVal t' -> ne_parts t'.
Proof.
  intros sz i cols t t' H E. unfold compact in E.
  destruct (skipn i (t_parts t)) as [|first rest] eqn:Es; [discriminate|]. cbn [andb] in E.
  destruct (cols_complete cols (part_rows (first :: rest))) eqn:Ec; cbn [negb] in E; [|discriminate].
  destruct (f1_free cols (first :: rest)) eqn:Ef; cbn [negb] in E; [|discriminate].
  injection E as <-. unfold ne_parts in *. cbn [t_parts]. apply Forall_app. split.
  - rewrite <- (firstn_skipn i (t_parts t)) in H. apply Forall_app in H. tauto.
  - constructor; [|constructor]. cbn [p_rows]. rewrite (rebuild_rows_id _ _ Ec Ef).
    assert (Hf : p_rows first <> []).
    { rewrite <- (firstn_skipn i (t_parts t)), Es in H. apply Forall_app in H. destruct H as [_ H].
      inversion H; assumption. }
    unfold part_rows. cbn [flat_map]. destruct (p_rows first); [contradiction|discriminate].
Qed.

Lemma ne_of_lookup : forall l, (forall n t, lookup n l = Some t -> ne_parts t) -> NE l.
Proof. intros l H n. unfold view. destruct (lookup n l) eqn:E; [eauto|apply ne_empty]. Qed.

Lemma ne_lookup : forall l n t, NE l -> lookup n l = Some t -> ne_parts t.
Proof. intros l n t H L. specialize (H n). unfold view in H. rewrite L in H. exact H. Qed.

Lemma ne_upd : forall l n t t', NE l -> lookup n l = Some t -> ne_parts t' -> NE (upd n t' l).
Proof.
  intros l n t t' H L Ht. apply ne_of_lookup. intros m tm Lm.
  destruct (list_eq_dec N.eq_dec m n) as [->|Hne].
  - rewrite (lookup_upd_same _ _ _ _ L) in Lm. injection Lm as <-. exact Ht.
  - rewrite lookup_upd_other in Lm; auto. eapply ne_lookup; eauto.
Qed.

Lemma ne_grows : forall l l', grows l l' -> NE l -> NE l'.
Proof. intros l l' G H n. eapply ne_modc; [apply (grows_view _ _ G n)|apply H]. Qed.

Lemma ne_map : forall st f l l',
  (forall t t', f t = Some t' -> t_parts t' = t_parts t) -> NE l -> map_tabs st f l = Val l' -> NE l'.
Proof.
  intros st f l l' Hf H E. apply map_tabs_spec in E. destruct E as [_ [S N]]. apply ne_of_lookup.
  intros n t' L'. destruct (lookup n l) as [t|] eqn:L; [|rewrite (N _ L) in L'; discriminate].
  destruct (S _ _ L) as [t'' [F L'']]. rewrite L' in L''. injection L'' as <-.
  unfold ne_parts. rewrite (Hf _ _ F). eapply ne_lookup; eauto.
Qed.

Lemma ne_flush_table : forall c o n l l', NE l -> flush_table true c o n l = Val l' -> NE l'.
Proof.
  intros c o n l l' H. unfold flush_table. destruct (lookup n l) as [t|] eqn:L; [|discriminate].
  set (t1 := batch_table (fst (sizes_for o n)) t).
  assert (H1 : NE (upd n t1 l)).
  { eapply ne_upd; eauto. apply ne_batch_table. eapply ne_lookup; eauto. }
  destruct (plan_compaction (c_factor c) (t_parts t1)); try discriminate.
  - intro E. injection E as <-. exact H1.
  - destruct (ensure_cols n (upd n t1 l)) as [l1| | | |] eqn:Ee; cbn [bind]; try discriminate.
    pose proof (ensure_cols_spec _ _ _ Ee) as [M _].
    pose proof (ne_grows _ _ (grows_of_modc _ _ M) H1) as H2.
    destruct (lookup n l1) as [t2|] eqn:L2; [|discriminate].
    destruct (t_cols t2) as [cols|]; [|discriminate].
    destruct (compact true (snd (sizes_for o n)) i cols t2) as [t3| |] eqn:Ec; cbn [lift_t bind]; try discriminate.
    intro E. injection E as <-. eapply ne_upd; [exact H2|exact L2|].
    eapply ne_compact; [|exact Ec]. eapply ne_lookup; [exact H2|exact L2].
Qed.

Lemma ne_flush_tables : forall c o names l l', NE l -> flush_tables true c o names l = Val l' -> NE l'.
Proof.
  induction names as [|n names IH]; cbn [flush_tables]; intros l l' H.
  - intro E. injection E as <-. exact H.
  - destruct (flush_table true c o n l) as [l1| | | |] eqn:E; cbn [bind]; try discriminate.
    apply IH. eapply ne_flush_table; eauto.
Qed.

Lemma freeze_parts : forall t t', freeze t = Some t' -> t_parts t' = t_parts t.
Proof. intros t t' H. unfold freeze in H. destruct (t_frozen t); [|discriminate]. injection H as <-. reflexivity. Qed.

Lemma delete_dead_parts : forall t t', delete_dead t = Some t' -> t_parts t' = t_parts t.
Proof.
  intros t t' H. unfold delete_dead in H. destruct (delete_files (t_dead t) (t_files t)); [|discriminate].
  injection H as <-. reflexivity.
Qed.

Lemma step_ne : forall c s o s', Inv s -> NE (tabs s) -> step true c s o = Val s' -> NE (tabs s').
Proof.
  intros c s o s' I H. destruct o as [b bytes|bg orc| |]; cbn [step].
  - unfold ingest. destruct (c_max_wal_bytes c <? wal_size s); [discriminate|].
    destruct (prepare code_seed b (tabs s) [] []) as [[[l1 created] colrows]| | | |] eqn:Ep; cbn [bind]; try discriminate.
    destruct (apply_batch _ l1) as [l2| | | |] eqn:Ea; cbn [bind]; try discriminate.
    intro E. injection E as <-. cbn [tabs]. intro n.
    eapply ne_appended; [apply (apply_batch_view _ _ _ Ea n)|].
    eapply ne_grows; [eapply prepare_grows; eauto|exact H].
  - destruct (bg && negb (bg_enabled c s)); [discriminate|]. unfold flush, flush_mid.
    destruct (freeze_all (tabs s)) as [l0| | | |] eqn:E0; cbn [bind]; try discriminate.
    destruct (flush_tables true c orc (map fst l0) l0) as [l1| | | |] eqn:E1; cbn [bind]; try discriminate.
    destruct (map_tabs SNoTable (fun t => Some (publish_meta t)) l1) as [l2| | | |] eqn:E2; cbn [bind]; try discriminate.
    destruct (delete_orphans l2) as [l3| | | |] eqn:E3; cbn [bind]; try discriminate.
    destruct (delete_segments _ _ _); cbn [of_opt bind]; [|discriminate].
    intro E. injection E as <-. cbn [tabs].
    eapply ne_map; [apply delete_dead_parts| |exact E3].
    eapply ne_map; [| |exact E2]. { intros t t' Ht. injection Ht as <-. reflexivity. }
    eapply ne_flush_tables; [|exact E1]. eapply ne_map; [apply freeze_parts|exact H|exact E0].
  - intro E. injection E as <-. exact H.
  - intro R. destruct (recover_spec _ _ _ I R) as [I' _]. revert R. unfold recover.
    destruct (restore_tables code_seed (tabs s)) as [l0| | | |] eqn:E0; cbn [bind]; try discriminate.
    destruct (create_if_empty code_seed s_meta_tables l0) as [l1 b1] eqn:E1.
    destruct (replay code_seed _ None l1) as [l2| | | |] eqn:E2; cbn [bind]; try discriminate.
    intro E. injection E as <-. cbn [tabs]. intro n.
    destruct (replay_spec _ _ _ _ _ E2) as [_ A]. eapply ne_appended; [apply A|].
    eapply ne_modc; [apply (grows_view _ _ (grows_create _ _ _ _ _ E1) n)|].
    destruct (restore_tables_spec _ _ _ (i_keys _ I) (i_tabs _ I) E0) as [_ H0].
    destruct (H0 n) as [_ [Hp _]]. unfold ne_parts. rewrite Hp. apply H.
Qed.

Lemma ne_init : forall c, NE (tabs (init c)).
Proof. intros c n. unfold view. cbn. destruct (name_eqb n s_meta_tables); apply ne_empty. Qed.

(* ---------------------------------------------------------------------------------------------- *)
(* the replay goes through *)

(* every client table whose column names are not loaded has its catalogue table *)
Definition has_cat (l : tabsT) : Prop :=
  forall n t, user_table n = true -> lookup n l = Some t -> t_cols t = None ->
    exists mc, lookup (meta_columns_of n) l = Some mc.

Lemma replay_entry_unloaded : forall seed tb (l l' : tabsT) n t',
  replay_batch seed [tb] l = Val l' -> user_table n = true ->
  lookup n l' = Some t' -> t_cols t' = None ->
  lookup n l = Some t'.
Proof.
  intros seed tb l l' n t' E Hu L Hc.
  destruct (replay_entry _ _ _ _ E) as [la [ca [lb [tx [cs [Ec [Ee [Lx [_ ->]]]]]]]]].
  destruct (list_eq_dec N.eq_dec n (tb_name tb)) as [->|Hne].
  - rewrite (lookup_upd_same _ _ _ _ Lx) in L. injection L as <-. discriminate.
  - rewrite lookup_upd_other in L; auto. rewrite (ensure_cols_other _ _ _ n Ee Hne) in L.
    destruct (create_if_empty_spec _ _ _ _ _ Ec) as [_ [H2 [H3 _]]].
    destruct (lookup n l) as [t0|] eqn:L0; [rewrite (H2 _ _ L0) in L; exact L|].
    rewrite (H3 _ L0 Hne) in L. discriminate.
Qed.

Lemma replay_batch_unloaded : forall seed b (l l' : tabsT) n t',
  replay_batch seed b l = Val l' -> user_table n = true ->
  lookup n l' = Some t' -> t_cols t' = None -> lookup n l = Some t'.
Proof.
  induction b as [|tb b IH]; intros l l' n t'.
  - cbn. intro H. injection H as <-. auto.
  - rewrite replay_batch_cons. destruct (replay_batch seed [tb] l) as [l1| | | |] eqn:E1; cbn [bind]; try discriminate.
    intros H Hu L Hc. eapply replay_entry_unloaded; eauto.
Qed.

Lemma has_cat_replay_batch : forall seed b (l l' : tabsT),
  replay_batch seed b l = Val l' -> has_cat l -> has_cat l'.
Proof.
  intros seed b l l' E H n t' Hu L Hc.
  pose proof (replay_batch_unloaded _ _ _ _ _ _ E Hu L Hc) as L0.
  destruct (H _ _ Hu L0 Hc) as [mc Lm].
  destruct (replay_batch_spec _ _ _ _ E) as [_ [_ [_ Hs]]]. destruct (Hs _ _ Lm) as [mc' Lm']. eauto.
Qed.

Section Total.
  Variable seed : name.
  Variable lg : list batch.
  Hypothesis LOK : log_ok lg.

  Lemma replay_entry_client_total : forall tb (l : tabsT),
    user_table (tb_name tb) = true -> cat_frozen lg l -> has_cat l ->
    exists l', replay_batch seed [tb] l = Val l'.
  Proof.
    intros tb l Hu Hf Hc. cbn [replay_batch].
    destruct (create_if_empty seed (tb_name tb) l) as [l1 c1] eqn:E1.
    destruct (create_if_empty_spec _ _ _ _ _ E1) as [[ta La] [H2 [H3 [H4 _]]]].
    pose proof (grows_view _ _ (grows_create _ _ _ _ _ E1)) as GV.
    assert (Ee : exists l2, ensure_cols (tb_name tb) l1 = Val l2).
    { unfold ensure_cols. rewrite La. destruct (t_cols ta) as [cs|] eqn:Ec; [eauto|].
      (* not loaded: the table existed before, so its catalogue table does too *)
      assert (L0 : lookup (tb_name tb) l = Some ta).
      { destruct (lookup (tb_name tb) l) as [t0|] eqn:L0.
        - rewrite (H2 _ _ L0) in La. congruence.
        - destruct (H4 eq_refl) as [c0 Hc0]. rewrite La in Hc0. injection Hc0 as ->. cbn in Ec.
          unfold create_if_empty in E1. rewrite L0 in E1. injection E1 as <- _.
          rewrite lookup_app_new, L0, name_eqb_refl in La. injection La as E. rewrite <- E in Ec. cbn in Ec.
          rewrite (user_table_seed _ _ _ Hu) in Ec. discriminate. }
      destruct (Hc _ _ Hu L0 Ec) as [mc Lm]. rewrite (H2 _ _ Lm).
      assert (Em : table_content mc = acked_rows lg (meta_columns_of (tb_name tb))).
      { rewrite <- (Hf _ Hu). unfold view. rewrite Lm. reflexivity. }
      rewrite Em, (log_string_column _ _ LOK Hu). eauto. }
    destruct Ee as [l2 Ee]. rewrite Ee. cbn [bind].
    destruct (ensure_cols_spec _ _ _ Ee) as [_ [t [cs [L2 Hcs]]]]. rewrite L2.
    unfold ingest_rows. rewrite Hcs. cbn [replay_batch]. eauto.
  Qed.

  Lemma replay_client_total : forall rest done (l : tabsT),
    NoDup (map tb_name (done ++ rest)) ->
    Forall (fun tb => user_table (tb_name tb) = true) rest ->
    (forall n, user_table n = true -> table_content (view l n) = acked_rows lg n ++ batch_rows n done) ->
    cols_after lg done l -> cat_frozen lg l -> has_cat l ->
    exists l', replay_batch seed rest l = Val l'.
  Proof.
    induction rest as [|tb rest IH]; intros done l ND Hu Hcont Hc Hf Hh; [cbn; eauto|].
    inversion Hu as [|? ? Hu1 Hu2]; subst. rewrite replay_batch_cons.
    destruct (replay_entry_client_total tb l Hu1 Hf Hh) as [l1 E1]. rewrite E1. cbn [bind].
    (* the invariants after this entry, from the lemma for the replayed prefix [tb] *)
    assert (ND1 : NoDup (map tb_name (done ++ [tb]))).
    { replace (done ++ tb :: rest) with ((done ++ [tb]) ++ rest) in ND by (rewrite <- app_assoc; reflexivity).
      rewrite map_app in ND. eapply nodup_app_l. exact ND. }
    destruct (replay_client_entries lg LOK seed [tb] done l l1 ND1 (Forall_cons _ Hu1 (Forall_nil _)) Hcont Hc Hf E1) as [Hc1 Hf1].
    apply (IH (done ++ [tb]) l1); auto.
    - rewrite <- app_assoc. exact ND.
    - intros n Hun. destruct (replay_batch_spec _ _ _ _ E1) as [_ [A _]].
      rewrite (table_content_appended _ _ _ (A n)), (Hcont _ Hun), batch_rows_app, app_assoc. reflexivity.
    - eapply has_cat_replay_batch; eauto.
  Qed.

  Lemma replay_meta_total : forall extra (l : tabsT),
    meta_named extra -> SeededT seed l -> exists l', replay_batch seed extra l = Val l'.
  Proof.
    induction extra as [|tb extra IH]; intros l M S; [cbn; eauto|].
    inversion M as [|? ? Hm M']; subst. cbn [replay_batch].
    destruct (create_if_empty seed (tb_name tb) l) as [l1 c1] eqn:E1.
    pose proof (seededT_create _ _ _ _ _ S E1) as S1.
    destruct (create_if_empty_spec _ _ _ _ _ E1) as [[ta La] _].
    destruct (S1 _ _ Hm La) as [cs [Hcs _]].
    assert (Ee : ensure_cols (tb_name tb) l1 = Val l1). { unfold ensure_cols. rewrite La, Hcs. reflexivity. }
    rewrite Ee. cbn [bind]. rewrite La. unfold ingest_rows. rewrite Hcs.
    apply IH; auto. eapply seededT_ingest_rows; eauto. unfold ingest_rows. rewrite Hcs. reflexivity.
  Qed.

  Lemma replay_segment_total : forall full (l : tabsT),
    rec_rel lg l -> SeededT seed l -> has_cat l -> seg_ok lg full ->
    exists l', replay_batch seed full l = Val l'.
  Proof.
    intros full l [Rc Rcols Rm] S Hh [b [extra [-> [W [M _]]]]]. rewrite replay_batch_app.
    destruct (replay_client_total b [] l) as [lb Eb]; auto.
    - cbn [app]. apply (wb_names _ W).
    - apply (wb_user _ W).
    - intros n Hu. cbn. rewrite app_nil_r. apply Rc.
    - intros t tt cs Hu L Hcs. cbn. rewrite app_nil_r. eapply Rcols; eauto.
    - intros t Hu. apply Rc.
    - rewrite Eb. cbn [bind]. apply replay_meta_total; auto. eapply seededT_replay_batch; eauto.
  Qed.

End Total.

Lemma replay_total : forall seed k a (w : list (N * segment)) lg expect (l : tabsT),
  map fst w = seqN a k -> (expect = None \/ expect = Some a) ->
  log_ok (lg ++ map (fun x => sg_data (snd x)) w) -> rec_rel lg l -> SeededT seed l -> has_cat l ->
  exists l', replay seed w expect l = Val l'.
Proof.
  induction k as [|k IH]; intros a w lg expect l Hids He LOK R S Hh.
  - destruct w; [cbn; eauto|discriminate].
  - destruct w as [|[id sg] w]; [discriminate|]. cbn in Hids. injection Hids as -> Hids.
    cbn [replay map snd] in *.
    assert (E : match expect with Some e => a =? e | None => true end = true).
    { destruct He as [->| ->]; auto. apply N.eqb_refl. }
    rewrite E.
    assert (LOK1 : log_ok (lg ++ [sg_data sg])).
    { apply (log_ok_prefix _ (map (fun x => sg_data (snd x)) w)). rewrite <- app_assoc. exact LOK. }
    assert (SS : seg_ok lg (sg_data sg) /\ log_ok lg).
    { remember (lg ++ [sg_data sg]) as x eqn:Ex. destruct LOK1 as [|lg0 f0 H0 S0]; [destruct lg; discriminate|].
      apply app_inj_tail in Ex. destruct Ex as [-> ->]. auto. }
    destruct SS as [Sok LOK0].
    destruct (replay_segment_total seed lg LOK0 (sg_data sg) l R S Hh Sok) as [l1 E1]. rewrite E1. cbn [bind].
    apply (IH (a + 1) w (lg ++ [sg_data sg])); auto.
    + rewrite <- app_assoc. exact LOK.
    + eapply replay_segment; eauto.
    + eapply seededT_replay_batch; eauto.
    + eapply has_cat_replay_batch; eauto.
Qed.

(* ---------------------------------------------------------------------------------------------- *)

Lemma restore_tables_origin : forall seed (l l0 : tabsT),
  restore_tables seed l = Val l0 -> forall n t0, lookup n l0 = Some t0 ->
  exists t, In (n, t) l /\ t_meta t <> [].
Proof.
  induction l as [|[k t] l IH]; cbn [restore_tables]; intros l0.
  - intro H. injection H as <-. intros n t0 L. discriminate.
  - destruct (restore_tables seed l) as [r| | | |] eqn:Er; cbn [bind]; try discriminate.
    destruct (t_meta t) eqn:Em.
    + intro H. injection H as <-. intros n t0 L. destruct (IH _ eq_refl _ _ L) as [t' [HI Hm]]. exists t'. split; [right; exact HI|exact Hm].
    + destruct (restore _ t) as [tr|]; cbn [of_opt bind]; [|discriminate].
      intro H. injection H as <-. intros n tq L. cbn in L. destruct (name_eqb n k) eqn:E.
      * apply name_eqb_eq in E. subst. exists t. split; [left; reflexivity|]. rewrite Em. discriminate.
      * destruct (IH _ eq_refl _ _ L) as [t' [HI Hm]]. exists t'. split; [right; exact HI|exact Hm].
Qed.

Lemma restore_tables_present : forall seed (l l0 : tabsT),
  restore_tables seed l = Val l0 -> NoDup (keys l) ->
  forall n t, lookup n l = Some t -> t_meta t <> [] -> exists t0, lookup n l0 = Some t0.
Proof.
  induction l as [|[k t] l IH]; cbn [restore_tables]; intros l0.
  - intros _ _ n t L. discriminate.
  - destruct (restore_tables seed l) as [r| | | |] eqn:Er; cbn [bind]; try discriminate.
    intros H ND n t' L Hm. inversion ND as [|? ? Hk ND']; subst. cbn in L.
    destruct (name_eqb n k) eqn:E.
    + apply name_eqb_eq in E. subst. injection L as <-. destruct (t_meta t) eqn:Em; [contradiction|].
      destruct (restore _ t); cbn [of_opt bind] in H; [|discriminate]. injection H as <-.
      cbn. rewrite name_eqb_refl. eauto.
    + destruct (IH _ eq_refl ND' _ _ L Hm) as [tz L0].
      destruct (t_meta t).
      * injection H as <-. eauto.
      * destruct (restore _ t); cbn [of_opt bind] in H; [|discriminate]. injection H as <-.
        cbn. rewrite E. eauto.
Qed.

Theorem recover_total : forall c s,
  Inv s -> Cat s -> Seeded c s -> NE (tabs s) -> exists s', recover c s = Val s'.
Proof.
  intros c s I C S Hne. unfold recover.
  set (cursor := match d_cursor s with Some k => k | None => 0 end).
  assert (Ecur : cursor = earliest s).
  { unfold cursor. pose proof (i_cursor _ I) as H. destruct (d_cursor s); congruence. }
  assert (Ekeep : sort_segs (filter (fun x => cursor <=? fst x) (d_wal s)) = d_wal s).
  { rewrite filter_all.
    - eapply sort_segs_sorted. apply (i_ids _ I).
    - intros x HI. apply N.leb_le. rewrite Ecur. eapply seqN_ge. rewrite <- (i_ids _ I). apply in_map. exact HI. }
  rewrite Ekeep.
  destruct (restore_tables_total code_seed (tabs s) (i_keys _ I) (i_tabs _ I)) as [l0 E0]. rewrite E0. cbn [bind].
  destruct (create_if_empty code_seed s_meta_tables l0) as [l1 b1] eqn:E1.
  destruct (c_wal _ C) as [pre Epre].
  destruct (restore_tables_spec _ _ _ (i_keys _ I) (i_tabs _ I) E0) as [ND0 H0].
  destruct (create_if_empty_spec _ _ _ _ _ E1) as [_ [C2 [C3 [C4 _]]]].
  pose proof (grows_view _ _ (grows_create _ _ _ _ _ E1)) as GV1.
  assert (Hparts : forall n, part_rows (t_parts (view (tabs s) n)) = acked_rows pre n).
  { intro n. pose proof (i_acked _ I n) as Ha. rewrite Epre, acked_rows_app in Ha.
    unfold wal_log in Ha. rewrite acked_rows_wal, <- (i_bufs _ I n), content_view in Ha.
    unfold table_content in Ha. rewrite (ti_frozen _ (i_tabs _ I n)) in Ha. cbn [app] in Ha.
    apply app_inv_tail in Ha. exact Ha. }
  assert (LOKpre : log_ok pre). { apply (log_ok_prefix pre (wal_log s)). rewrite <- Epre. apply (c_log _ C). }
  assert (R1 : rec_rel pre l1).
  { constructor.
    - intro n. destruct (H0 n) as [_ [Hp [Hb Hf]]]. destruct (modc_fields _ _ (GV1 n)) as [Fb [Ff [Fp _]]].
      unfold table_content. rewrite Fp, Ff, Fb, Hp, Hb, Hf, !app_nil_r. apply Hparts.
    - intros t tt cs Hu L Hcs. exfalso. destruct (lookup t l0) as [t0|] eqn:L0.
      + rewrite (C2 _ _ L0) in L. injection L as <-.
        rewrite (restore_tables_cols _ _ _ E0 _ _ L0), (user_seed_none _ _ Hu) in Hcs. discriminate.
      + assert (Hne' : t <> s_meta_tables) by (intro; subst; discriminate).
        rewrite (C3 _ L0 Hne') in L. discriminate.
    - intros n tt Hu L. destruct (lookup n l0) as [t0|] eqn:L0.
      + rewrite (C2 _ _ L0) in L. injection L as <-.
        rewrite (restore_tables_cols _ _ _ E0 _ _ L0). apply meta_seed_restored. exact Hu.
      + destruct (list_eq_dec N.eq_dec n s_meta_tables) as [->|Hne'].
        * unfold create_if_empty in E1. rewrite L0 in E1. injection E1 as <- _.
          rewrite lookup_app_new, L0, name_eqb_refl in L. injection L as <-. cbn [t_cols empty_table]. apply seed_cols_some.
        * rewrite (C3 _ L0 Hne') in L. discriminate. }
  assert (S1 : SeededT code_seed l1).
  { eapply seededT_create; [|exact E1]. eapply seededT_restore; eauto. }
  (* a restored client table has a restored catalogue table *)
  assert (Hh : has_cat l1).
  { intros n t Hu L Hc.
    assert (L0 : lookup n l0 = Some t).
    { destruct (lookup n l0) as [t0|] eqn:L0; [rewrite (C2 _ _ L0) in L; exact L|].
      assert (Hne' : n <> s_meta_tables) by (intro; subst; discriminate).
      rewrite (C3 _ L0 Hne') in L. discriminate. }
    destruct (restore_tables_origin _ _ _ E0 _ _ L0) as [ts [HIn Hm]].
    pose proof (in_lookup _ _ _ (i_keys _ I) HIn) as Ls.
    pose proof (i_tabs _ I n) as Tn. unfold view in Tn. rewrite Ls in Tn.
    (* the table has partitions, hence rows in the flushed part of the log *)
    assert (Hrows : acked_rows pre n <> []).
    { rewrite <- Hparts. unfold view. rewrite Ls. rewrite (ti_meta _ Tn) in Hm.
      destruct (t_parts ts) as [|p ps] eqn:Ep; [exfalso; apply Hm; reflexivity|].
      pose proof (ne_lookup _ _ _ Hne Ls) as Hn1. unfold ne_parts in Hn1. rewrite Ep in Hn1.
      inversion Hn1; subst. unfold part_rows. cbn [flat_map]. destruct (p_rows p); [contradiction|discriminate]. }
    pose proof (log_rows_names _ _ LOKpre Hu Hrows) as Hnames.
    assert (Hmc : part_rows (t_parts (view (tabs s) (meta_columns_of n))) <> []).
    { rewrite Hparts. unfold log_names in Hnames. intro E. rewrite E in Hnames. apply Hnames. reflexivity. }
    unfold view in Hmc. destruct (lookup (meta_columns_of n) (tabs s)) as [tm|] eqn:Lm; [|exfalso; apply Hmc; reflexivity].
    pose proof (i_tabs _ I (meta_columns_of n)) as Tm. unfold view in Tm. rewrite Lm in Tm.
    assert (Hmeta : t_meta tm <> []).
    { rewrite (ti_meta _ Tm). destruct (t_parts tm); [exfalso; apply Hmc; reflexivity|discriminate]. }
    destruct (restore_tables_present _ _ _ E0 (i_keys _ I) _ _ Lm Hmeta) as [tm0 Lm0].
    exists tm0. apply C2. exact Lm0. }
  assert (LOK : log_ok (pre ++ map (fun x => sg_data (snd x)) (d_wal s))).
  { fold (wal_log s). rewrite <- Epre. apply (c_log _ C). }
  destruct (replay_total code_seed _ _ _ pre None l1 (i_ids _ I) (or_introl eq_refl) LOK R1 S1 Hh) as [l2 E2].
  rewrite E2. cbn [bind]. eauto.
Qed.

(* the invariants hold along every history of well-formed requests *)
Theorem reachable_restart_total : forall c ops s,
  Forall wf_op ops -> run true c ops (init c) = Val s -> exists s', step true c s ORestart = Val s'.
Proof.
  intros c ops s W H.
  assert (G : forall ops s0 s1, Forall wf_op ops -> Inv s0 -> Cat s0 -> Seeded c s0 -> NE (tabs s0) ->
              run true c ops s0 = Val s1 -> Inv s1 /\ Cat s1 /\ Seeded c s1 /\ NE (tabs s1)).
  { clear. induction ops as [|o ops IH]; cbn [run]; intros s0 s1 W I C S Hn H.
    - injection H as <-. auto.
    - inversion W; subst. destruct (step true c s0 o) as [s2| | | |] eqn:E; cbn [bind] in H; try discriminate.
      eapply IH; [eassumption| | | | |exact H].
      + eapply step_inv; eauto.
      + eapply step_cat; eauto.
      + eapply step_seeded; eauto.
      + eapply step_ne; eauto. }
  destruct (G ops (init c) s W (inv_init c) (cat_init c) (seeded_init c) (ne_init c) H) as [I [C [S Hn]]].
  cbn [step]. apply recover_total; auto.
Qed.
