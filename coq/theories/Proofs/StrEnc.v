(* String columns: the three layouts of fast_build_string_column (packed, hex-packed, dictionary
   with u8/u16/u32 indices) decode, through the query-path decoder, to the strings that were
   encoded; and the writer never panics. *)
From Coq Require Import ZArith List Bool Lia.
From LV Require Import Model.CodecBase Model.StrEnc Model.Codec Proofs.CodecBase.
Import ListNotations.
Open Scope Z_scope.

(* ---------------------------------------------------------------------------------------------- *)
(* string equality / membership *)

Lemma str_eqb_eq : forall a b, str_eqb a b = true <-> a = b.
Proof.
  induction a as [|x a IH]; destruct b as [|y b]; cbn; split; intros H; try reflexivity; try discriminate.
  - apply andb_true_iff in H as [H1 H2]. apply Z.eqb_eq in H1. apply IH in H2. now subst.
  - injection H as -> ->. apply andb_true_iff. split; [apply Z.eqb_refl|now apply IH].
Qed.

Lemma mem_In s l : mem s l = true <-> In s l.
Proof.
  induction l as [|x l IH]; cbn; [split; [discriminate|tauto]|].
  rewrite orb_true_iff, IH, str_eqb_eq. split; intros [H|H]; auto.
Qed.

Lemma insert_sorted_In s x l : In s (insert_sorted x l) <-> s = x \/ In s l.
Proof.
  induction l as [|y l IH]; cbn [insert_sorted In].
  - split; [intros [H|[]]; left; congruence | intros [H|[]]; left; congruence].
  - destruct (str_leb x y); cbn [In].
    + split; (intros [H|H]; [left; congruence|right; exact H]).
    + rewrite IH. split; [intros [H|[H|H]]; auto | intros [H|[H|H]]; auto].
Qed.

Lemma sort_strs_In s l : In s (sort_strs l) <-> In s l.
Proof.
  induction l as [|x l IH]; cbn; [tauto|].
  rewrite insert_sorted_In, IH. split; intros [H|H]; auto.
Qed.

(* ---------------------------------------------------------------------------------------------- *)
(* length prefixes *)

Lemma read_len_prefix : forall f len acc rest,
  0 <= len < 255 * Z.of_nat f ->
  read_len acc (len_prefix f len ++ rest) = Val (acc + len, rest).
Proof.
  induction f as [|f IH]; intros len acc rest H; [lia|].
  cbn [len_prefix]. destruct (Z.ltb_spec 254 len) as [L|L].
  - cbn [app read_len]. rewrite Z.eqb_refl. rewrite IH by lia. f_equal. f_equal. lia.
  - cbn [app read_len]. destruct (Z.eqb_spec len 255); [lia|reflexivity].
Qed.

Lemma len_prefix_cons f len : exists b r, len_prefix (S f) len = b :: r.
Proof. cbn [len_prefix]. destruct (254 <? len); eauto. Qed.

Lemma slice_prefix {A} (s rest : list A) : slice (s ++ rest) 0 (zlen s) = Val s.
Proof.
  unfold slice. cbn [Z.to_nat skipn].
  destruct (Z.ltb_spec (Z.of_nat (length (s ++ rest))) (zlen s)) as [L|L].
  - unfold zlen in L. rewrite app_length in L. lia.
  - unfold zlen. rewrite Nat2Z.id. rewrite firstn_app, Nat.sub_diag, firstn_all. cbn. now rewrite app_nil_r.
Qed.

Lemma skipn_prefix {A} (s rest : list A) : skipn (Z.to_nat (zlen s)) (s ++ rest) = rest.
Proof.
  unfold zlen. rewrite Nat2Z.id. rewrite skipn_app, Nat.sub_diag, skipn_all. reflexivity.
Qed.

Lemma read_pack_one s rest :
  read_len 0 (pack_one s ++ rest) = Val (zlen s, s ++ rest).
Proof.
  unfold pack_one. rewrite <- app_assoc. rewrite read_len_prefix; [reflexivity|].
  pose proof (zlen_nonneg s) as H0. split; [exact H0|].
  rewrite Nat2Z.inj_succ, Z2Nat.id by (apply Z.div_pos; lia).
  pose proof (Z.div_mod (zlen s) 255). pose proof (Z.mod_pos_bound (zlen s) 255). lia.
Qed.

Lemma pack_all_length ss : (length ss <= length (pack_all ss))%nat.
Proof.
  induction ss as [|s ss IH]; cbn [pack_all flat_map]; [apply le_n|].
  fold (pack_all ss). rewrite app_length. unfold pack_one. rewrite app_length.
  destruct (len_prefix_cons (Z.to_nat (zlen s / 255)) (zlen s)) as (b & r & ->). cbn [length]. lia.
Qed.

Lemma unpack_pack_all : forall ss fuel,
  (length ss <= fuel)%nat -> unpack fuel (pack_all ss) = Val ss.
Proof.
  induction ss as [|s ss IH]; intros fuel Hf; [now destruct fuel|].
  cbn [pack_all flat_map]. fold (pack_all ss).
  destruct fuel as [|fuel]; [cbn in Hf; lia|].
  assert (Hc : exists b r, pack_one s ++ pack_all ss = b :: r).
  { unfold pack_one. destruct (len_prefix_cons (Z.to_nat (zlen s / 255)) (zlen s)) as (b & r & ->).
    cbn. eauto. }
  destruct Hc as (b & r & Hc). cbn [unpack]. rewrite Hc. rewrite <- Hc.
  rewrite read_pack_one. cbn [bind]. rewrite slice_prefix. cbn [bind].
  rewrite skipn_prefix. rewrite IH by (cbn in Hf; lia). reflexivity.
Qed.

Lemma unpack_strings_pack_all ss : unpack_strings (pack_all ss) = Val ss.
Proof. unfold unpack_strings. apply unpack_pack_all. apply pack_all_length. Qed.

(* ---------------------------------------------------------------------------------------------- *)
(* hex *)

Lemma hex_pair_upper a b :
  is_uhex_char a = true -> is_uhex_char b = true ->
  exists h l, hex_val a = Val h /\ hex_val b = Val l /\
              hex_digit true ((16 * h + l) / 16) = a /\ hex_digit true ((16 * h + l) mod 16) = b.
Proof.
  unfold is_uhex_char, is_digit, hex_val, is_digit, hex_digit. intros Ha Hb.
  assert (Ra : 48 <= a <= 57 \/ 65 <= a <= 70).
  { apply orb_true_iff in Ha as [H|H]; apply andb_true_iff in H as [H1 H2];
      apply Z.leb_le in H1; apply Z.leb_le in H2; lia. }
  assert (Rb : 48 <= b <= 57 \/ 65 <= b <= 70).
  { apply orb_true_iff in Hb as [H|H]; apply andb_true_iff in H as [H1 H2];
      apply Z.leb_le in H1; apply Z.leb_le in H2; lia. }
  destruct Ra as [Ra|Ra]; destruct Rb as [Rb|Rb].
  - exists (a - 48), (b - 48).
    replace ((16 * (a - 48) + (b - 48)) / 16) with (a - 48) by (Z.div_mod_to_equations; lia).
    replace ((16 * (a - 48) + (b - 48)) mod 16) with (b - 48) by (Z.div_mod_to_equations; lia).
    repeat split; zb.
  - exists (a - 48), (b - 55).
    replace ((16 * (a - 48) + (b - 55)) / 16) with (a - 48) by (Z.div_mod_to_equations; lia).
    replace ((16 * (a - 48) + (b - 55)) mod 16) with (b - 55) by (Z.div_mod_to_equations; lia).
    repeat split; zb.
  - exists (a - 55), (b - 48).
    replace ((16 * (a - 55) + (b - 48)) / 16) with (a - 55) by (Z.div_mod_to_equations; lia).
    replace ((16 * (a - 55) + (b - 48)) mod 16) with (b - 48) by (Z.div_mod_to_equations; lia).
    repeat split; zb.
  - exists (a - 55), (b - 55).
    replace ((16 * (a - 55) + (b - 55)) / 16) with (a - 55) by (Z.div_mod_to_equations; lia).
    replace ((16 * (a - 55) + (b - 55)) mod 16) with (b - 55) by (Z.div_mod_to_equations; lia).
    repeat split; zb.
Qed.

Lemma hex_pair_lower a b :
  is_lhex_char a = true -> is_lhex_char b = true ->
  exists h l, hex_val a = Val h /\ hex_val b = Val l /\
              hex_digit false ((16 * h + l) / 16) = a /\ hex_digit false ((16 * h + l) mod 16) = b.
Proof.
  unfold is_lhex_char, is_digit, hex_val, is_digit, hex_digit. intros Ha Hb.
  assert (Ra : 48 <= a <= 57 \/ 97 <= a <= 102).
  { apply orb_true_iff in Ha as [H|H]; apply andb_true_iff in H as [H1 H2];
      apply Z.leb_le in H1; apply Z.leb_le in H2; lia. }
  assert (Rb : 48 <= b <= 57 \/ 97 <= b <= 102).
  { apply orb_true_iff in Hb as [H|H]; apply andb_true_iff in H as [H1 H2];
      apply Z.leb_le in H1; apply Z.leb_le in H2; lia. }
  destruct Ra as [Ra|Ra]; destruct Rb as [Rb|Rb].
  - exists (a - 48), (b - 48).
    replace ((16 * (a - 48) + (b - 48)) / 16) with (a - 48) by (Z.div_mod_to_equations; lia).
    replace ((16 * (a - 48) + (b - 48)) mod 16) with (b - 48) by (Z.div_mod_to_equations; lia).
    repeat split; zb.
  - exists (a - 48), (b - 87).
    replace ((16 * (a - 48) + (b - 87)) / 16) with (a - 48) by (Z.div_mod_to_equations; lia).
    replace ((16 * (a - 48) + (b - 87)) mod 16) with (b - 87) by (Z.div_mod_to_equations; lia).
    repeat split; zb.
  - exists (a - 87), (b - 48).
    replace ((16 * (a - 87) + (b - 48)) / 16) with (a - 87) by (Z.div_mod_to_equations; lia).
    replace ((16 * (a - 87) + (b - 48)) mod 16) with (b - 48) by (Z.div_mod_to_equations; lia).
    repeat split; zb.
  - exists (a - 87), (b - 87).
    replace ((16 * (a - 87) + (b - 87)) / 16) with (a - 87) by (Z.div_mod_to_equations; lia).
    replace ((16 * (a - 87) + (b - 87)) mod 16) with (b - 87) by (Z.div_mod_to_equations; lia).
    repeat split; zb.
Qed.

(* induction over a string two characters at a time *)
Lemma pair_induction {A} (P : list A -> Prop) :
  P [] -> (forall a, P [a]) -> (forall a b r, P r -> P (a :: b :: r)) -> forall l, P l.
Proof.
  intros H0 H1 H2.
  assert (H : forall l, P l /\ forall a, P (a :: l)).
  { induction l as [|x l [IH1 IH2]]; split; auto. }
  intros l. apply H.
Qed.

Lemma even_zlen_cons2 {A} (a b : A) r : Z.even (zlen (a :: b :: r)) = Z.even (zlen r).
Proof.
  rewrite !zlen_cons. replace (1 + (1 + zlen r)) with (zlen r + 2 * 1) by lia. apply Z.even_add_mul_2.
Qed.

Lemma hex_roundtrip_upper : forall s,
  is_uppercase_hex s = true -> exists bs, hex_decode s = Val bs /\ hex_encode true bs = s.
Proof.
  unfold is_uppercase_hex.
  apply (pair_induction (fun s => Z.even (zlen s) && forallb is_uhex_char s = true ->
                                  exists bs, hex_decode s = Val bs /\ hex_encode true bs = s)).
  - intros _. now exists [].
  - intros a H. cbn in H. discriminate.
  - intros a b r IH H. rewrite even_zlen_cons2 in H. cbn [forallb] in H.
    apply andb_true_iff in H as [He H]. apply andb_true_iff in H as [Ha H].
    apply andb_true_iff in H as [Hb Hr].
    destruct IH as (bs & E1 & E2); [now rewrite He, Hr|].
    destruct (hex_pair_upper a b Ha Hb) as (h & l & Eh & El & Da & Db).
    exists (16 * h + l :: bs). cbn [hex_decode]. rewrite Eh, El, E1. cbn [bind hex_encode].
    now rewrite Da, Db, E2.
Qed.

Lemma hex_roundtrip_lower : forall s,
  is_lowercase_hex s = true -> exists bs, hex_decode s = Val bs /\ hex_encode false bs = s.
Proof.
  unfold is_lowercase_hex.
  apply (pair_induction (fun s => Z.even (zlen s) && forallb is_lhex_char s = true ->
                                  exists bs, hex_decode s = Val bs /\ hex_encode false bs = s)).
  - intros _. now exists [].
  - intros a H. cbn in H. discriminate.
  - intros a b r IH H. rewrite even_zlen_cons2 in H. cbn [forallb] in H.
    apply andb_true_iff in H as [He H]. apply andb_true_iff in H as [Ha H].
    apply andb_true_iff in H as [Hb Hr].
    destruct IH as (bs & E1 & E2); [now rewrite He, Hr|].
    destruct (hex_pair_lower a b Ha Hb) as (h & l & Eh & El & Da & Db).
    exists (16 * h + l :: bs). cbn [hex_decode]. rewrite Eh, El, E1. cbn [bind hex_encode].
    now rewrite Da, Db, E2.
Qed.

(* the flag handed to UnhexpackStrings is `uhex`; the hex layout is chosen only if lhex || uhex *)
Lemma hex_roundtrip_all : forall ss (uhex : bool),
  (if uhex then forallb is_uppercase_hex ss else forallb is_lowercase_hex ss) = true ->
  exists bss, mapM hex_decode ss = Val bss /\ map (hex_encode uhex) bss = ss.
Proof.
  induction ss as [|s ss IH]; intros uhex H; [now exists []|].
  assert (Hs : (if uhex then is_uppercase_hex s else is_lowercase_hex s) = true /\
               (if uhex then forallb is_uppercase_hex ss else forallb is_lowercase_hex ss) = true).
  { destruct uhex; cbn [forallb] in H; apply andb_true_iff in H; exact H. }
  destruct Hs as [Hs Hr]. destruct (IH uhex Hr) as (bss & E1 & E2).
  assert (Hb : exists bs, hex_decode s = Val bs /\ hex_encode uhex bs = s).
  { destruct uhex; [now apply hex_roundtrip_upper|now apply hex_roundtrip_lower]. }
  destruct Hb as (bs & E3 & E4).
  exists (bs :: bss). cbn [mapM]. rewrite E3, E1. cbn [bind map]. now rewrite E4, E2.
Qed.

(* ---------------------------------------------------------------------------------------------- *)
(* dictionary *)

Lemma index_of_spec s : forall l i j,
  index_of s l i = Val j -> i <= j /\ nth_error l (Z.to_nat (j - i)) = Some s.
Proof.
  induction l as [|x l IH]; intros i j E; [discriminate|].
  cbn [index_of] in E. destruct (str_eqb s x) eqn:Es.
  - injection E as <-. apply str_eqb_eq in Es. subst x. split; [lia|].
    now rewrite Z.sub_diag.
  - apply IH in E as [E1 E2]. split; [lia|].
    replace (Z.to_nat (j - i)) with (S (Z.to_nat (j - (i + 1)))) by lia. exact E2.
Qed.

Lemma index_of_total s : forall l i, In s l -> exists j, index_of s l i = Val j.
Proof.
  induction l as [|x l IH]; intros i H; [destruct H|].
  cbn [index_of]. destruct (str_eqb s x) eqn:Es; [eauto|].
  destruct H as [H|H]; [subst x; rewrite (proj2 (str_eqb_eq s s) eq_refl) in Es; discriminate|].
  now apply IH.
Qed.

Lemma index_of_bound s : forall l i j, index_of s l i = Val j -> j < i + zlen l.
Proof.
  induction l as [|x l IH]; intros i j E; [discriminate|].
  cbn [index_of] in E. rewrite zlen_cons. pose proof (zlen_nonneg l).
  destruct (str_eqb s x); [injection E as <-; lia|]. apply IH in E. lia.
Qed.

(* entry i of IndexedPackedStrings addresses string i of the concatenation *)
Lemma entry_fields off len : 0 <= off -> 0 <= len < 16777216 ->
  Z.shiftr (Z.shiftl off 24 + len) 24 = off /\ Z.land (Z.shiftl off 24 + len) 16777215 = len.
Proof.
  intros Ho Hl. rewrite Z.shiftr_div_pow2, Z.shiftl_mul_pow2 by lia.
  change 16777215 with (Z.ones 24). rewrite Z.land_ones by lia.
  change (2 ^ 24) with 16777216. split.
  - rewrite Z.div_add_l by lia. rewrite Z.div_small by lia. lia.
  - rewrite Z.add_comm, Z.mod_add by lia. apply Z.mod_small. lia.
Qed.

Lemma dict_entry_nth : forall dict pre i s,
  Forall (fun s => zlen s < 16777216) dict ->
  nth_error dict i = Some s ->
  exists e, nth_error (ips_entries (zlen pre) dict) i = Some e /\
            slice (pre ++ concat dict) (Z.shiftr e 24) (Z.land e 16777215) = Val s.
Proof.
  induction dict as [|x dict IH]; intros pre i s HF Hn; [destruct i; discriminate|].
  inversion HF as [|? ? Hx HF']; subst.
  destruct i as [|i].
  - cbn in Hn. injection Hn as ->. cbn [ips_entries nth_error]. eexists; split; [reflexivity|].
    pose proof (zlen_nonneg pre). pose proof (zlen_nonneg s).
    destruct (entry_fields (zlen pre) (zlen s)) as [-> ->]; try lia.
    cbn [concat]. unfold slice.
    replace (skipn (Z.to_nat (zlen pre)) (pre ++ s ++ concat dict)) with (s ++ concat dict)
      by (now rewrite skipn_prefix).
    destruct (Z.ltb_spec (Z.of_nat (length (s ++ concat dict))) (zlen s)) as [L|L].
    + unfold zlen in L. rewrite app_length in L. lia.
    + unfold zlen. rewrite Nat2Z.id, firstn_app, Nat.sub_diag, firstn_all. cbn. now rewrite app_nil_r.
  - cbn [nth_error] in Hn. cbn [ips_entries nth_error concat].
    destruct (IH (pre ++ x) i s HF' Hn) as (e & E1 & E2).
    exists e. rewrite zlen_app in E1. split; [exact E1|]. now rewrite <- app_assoc in E2.
Qed.

Lemma dict_lookup_indices dict : forall ss idx,
  Forall (fun s => zlen s < 16777216) dict ->
  mapM (fun s => index_of s dict 0) ss = Val idx ->
  dict_lookup idx (ips_entries 0 dict) (ips_store dict) = Val ss.
Proof.
  intros ss. induction ss as [|s ss IH]; intros idx HF E.
  - cbn in E. injection E as <-. reflexivity.
  - cbn [mapM] in E. apply bind_val in E as (j & E1 & E). apply bind_val in E as (idx' & E2 & E).
    injection E as <-.
    apply index_of_spec in E1 as [Hj Hn]. rewrite Z.sub_0_r in Hn.
    destruct (dict_entry_nth dict [] _ s HF Hn) as (e & Ee & Es).
    unfold dict_lookup. cbn [mapM]. unfold dict_entry at 1. change (zlen (@nil Z)) with 0 in Ee.
    rewrite Ee. cbn [app] in Es. unfold ips_store. rewrite Es. cbn [bind].
    fold (dict_lookup idx' (ips_entries 0 dict) (concat dict)).
    change (concat dict) with (ips_store dict). rewrite (IH idx' HF E2). reflexivity.
Qed.

(* the scan collects every string it has passed *)
Lemma scan_unique_seen : forall ss seen n half seen',
  scan_unique seen n half ss = (false, seen') ->
  (forall s, In s seen -> In s seen') /\ (forall s, In s ss -> In s seen').
Proof.
  induction ss as [|x ss IH]; intros seen n half seen' E.
  - cbn in E. injection E as <-. split; [auto|intros s []].
  - cbn [scan_unique] in E. destruct (mem x seen) eqn:Em.
    + destruct (n =? half); [discriminate|].
      apply IH in E as [E1 E2]. split; [exact E1|].
      intros s [<-|H]; [apply E1; now apply mem_In|now apply E2].
    + destruct (n + 1 =? half); [discriminate|].
      apply IH in E as [E1 E2]. split; [intros s H; apply E1; now right|].
      intros s [<-|H]; [apply E1; now left|now apply E2].
Qed.

(* an early exit needs at least two rows: len / 2 >= 1 *)
Lemma scan_unique_early : forall ss seen half seen',
  scan_unique seen (zlen seen) half ss = (true, seen') -> 1 <= half.
Proof.
  induction ss as [|x ss IH]; intros seen half seen' E; [discriminate|].
  cbn [scan_unique] in E. destruct (mem x seen) eqn:Em.
  - destruct (Z.eqb_spec (zlen seen) half) as [<-|]; [|eapply IH; exact E].
    destruct seen as [|y seen]; [discriminate|]. rewrite zlen_cons. pose proof (zlen_nonneg seen). lia.
  - destruct (Z.eqb_spec (zlen seen + 1) half) as [<-|].
    + pose proof (zlen_nonneg seen). lia.
    + apply (IH (x :: seen) half seen'). rewrite zlen_cons. now rewrite Z.add_comm.
Qed.

Lemma scan_unique_sub : forall ss seen n half b seen',
  scan_unique seen n half ss = (b, seen') ->
  forall s, In s seen' -> In s seen \/ In s ss.
Proof.
  induction ss as [|x ss IH]; intros seen n half b seen' E s Hs.
  - cbn in E. injection E as <- <-. now left.
  - cbn [scan_unique] in E. destruct (mem x seen) eqn:Em.
    + destruct (n =? half).
      * injection E as <- <-. now left.
      * destruct (IH _ _ _ _ _ E s Hs) as [H|H]; [now left|right; now right].
    + destruct (n + 1 =? half).
      * injection E as <- <-. destruct Hs as [<-|Hs]; [right; now left|now left].
      * destruct (IH _ _ _ _ _ E s Hs) as [[<-|H]|H]; [right; now left|now left|right; now right].
Qed.

Lemma mapM_total {A B} (f : A -> result B) : forall l,
  (forall a, In a l -> exists b, f a = Val b) -> exists bs, mapM f l = Val bs.
Proof.
  induction l as [|a l IH]; intros H; [now exists []|].
  destruct (H a (or_introl eq_refl)) as (b & Eb).
  destruct IH as (bs & Ebs); [intros x Hx; apply H; now right|].
  exists (b :: bs). cbn [mapM]. now rewrite Eb, Ebs.
Qed.

(* ---------------------------------------------------------------------------------------------- *)
(* the three layouts *)

Definition str_sval (ss : list str) (null : option (list Z)) : sval :=
  match null with
  | None => Plain (DStr ss)
  | Some p => WithNulls (DStr ss) p
  end.

Definition short_strings (ss : list str) : Prop := Forall (fun s => zlen s < 16777216) ss.

Theorem fast_build_decode ss lhex uhex tbytes present col :
  short_strings ss ->
  (lhex = true -> forallb is_lowercase_hex ss = true) ->
  (uhex = true -> forallb is_uppercase_hex ss = true) ->
  fast_build_string_column ss lhex uhex tbytes present = Val col ->
  decode_column col = Val (str_sval ss present).
Proof.
  intros Hshort Hl Hu E. unfold fast_build_string_column in E.
  destruct (scan_unique [] 0 (zlen ss / 2) ss) as [early seen] eqn:Es.
  destruct early.
  - (* packed or hex-packed *)
    apply bind_val in E as ([codec data] & E1 & E).
    destruct ((lhex || uhex) && (5 <? tbytes / zlen ss)) eqn:Eh.
    + apply bind_val in E1 as (bs & Eb & E1). injection E1 as <- <-.
      assert (Hflag : (if uhex then forallb is_uppercase_hex ss else forallb is_lowercase_hex ss) = true).
      { apply andb_true_iff in Eh as [Eh _]. destruct uhex; [now apply Hu|].
        rewrite orb_false_r in Eh. now apply Hl. }
      destruct (hex_roundtrip_all ss uhex Hflag) as (bss & Eb' & Em).
      rewrite Eb in Eb'. injection Eb' as ->.
      destruct present as [p|]; injection E as <-; unfold decode_column; cbn;
        unfold unhexpack_strings; rewrite unpack_strings_pack_all; cbn; now rewrite Em.
    + injection E1 as <- <-.
      destruct present as [p|]; injection E as <-; unfold decode_column; cbn;
        rewrite unpack_strings_pack_all; reflexivity.
  - (* dictionary *)
    apply bind_val in E as (idx & Ei & E).
    assert (Hd : Forall (fun s => zlen s < 16777216) (sort_strs seen)).
    { apply Forall_forall. intros s Hs. apply (proj1 (sort_strs_In _ _)) in Hs.
      destruct (scan_unique_sub _ _ _ _ _ _ Es s Hs) as [[]|H].
      exact (proj1 (Forall_forall _ _) Hshort s H). }
    pose proof (dict_lookup_indices _ _ _ Hd Ei) as Hlook.
    destruct present as [p|]; injection E as <-; unfold decode_column; cbn; rewrite Hlook; reflexivity.
Qed.

Theorem str_finalize_decode ss present col :
  short_strings ss -> str_finalize ss present = Val col ->
  decode_column col = Val (str_sval ss present).
Proof.
  intros Hs E. unfold str_finalize in E. eapply fast_build_decode; try exact E; auto.
Qed.

(* the string writer never panics *)
Theorem str_finalize_total ss present : exists col, str_finalize ss present = Val col.
Proof.
  unfold str_finalize, fast_build_string_column.
  destruct (scan_unique [] 0 (zlen ss / 2) ss) as [early seen] eqn:Es.
  destruct early.
  - destruct ((forallb is_lowercase_hex ss || forallb is_uppercase_hex ss) && (5 <? total_bytes ss / zlen ss)) eqn:Eh.
    + assert (Hflag : (if forallb is_uppercase_hex ss then forallb is_uppercase_hex ss
                       else forallb is_lowercase_hex ss) = true).
      { apply andb_true_iff in Eh as [Eh _]. destruct (forallb is_uppercase_hex ss) eqn:Eu; [reflexivity|].
        now rewrite orb_false_r in Eh. }
      destruct (forallb is_uppercase_hex ss) eqn:Eu.
      * destruct (hex_roundtrip_all ss true) as (bss & -> & _); [exact Eu|].
        cbn [bind]. destruct present; eauto.
      * destruct (hex_roundtrip_all ss false) as (bss & -> & _); [exact Hflag|].
        cbn [bind]. destruct present; eauto.
    + cbn [bind]. destruct present; eauto.
  - destruct (mapM_total (fun s => index_of s (sort_strs seen) 0) ss) as (idx & ->).
    + intros s Hs. apply index_of_total. apply (proj2 (sort_strs_In _ _)).
      exact (proj2 (scan_unique_seen _ _ _ _ _ Es) s Hs).
    + cbn [bind]. destruct present; eauto.
Qed.
