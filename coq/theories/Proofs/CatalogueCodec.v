From Coq Require Import NArith List Bool Lia PeanoNat.
From LV Require Import Model.Routing Proofs.Routing Model.CatalogueCodec.
Import ListNotations.
Open Scope N_scope.

(* ---------- writer then reader ---------- *)
Definition reindex (p : part_meta) : part_meta :=
  {| pm_id := pm_id p; pm_table := pm_table p; pm_offset := pm_offset p; pm_len := pm_len p;
     pm_subs := pm_subs p; pm_index := build_index (pm_subs p) |}.

Definition index_ok (p : part_meta) : Prop := pm_index p = build_index (pm_subs p).

Lemma reindex_id p : index_ok p -> reindex p = p.
Proof. unfold index_ok, reindex. destruct p; cbn. intros <-. reflexivity. Qed.

Lemma map_reindex_id ps : Forall index_ok ps -> map reindex ps = ps.
Proof.
  induction ps as [|p r IH]; intros H; [reflexivity|].
  inversion H as [|? ? Hp Hr]; subst. cbn. rewrite (reindex_id p Hp), (IH Hr). reflexivity.
Qed.

Lemma de_last_ser strings s : de_last strings (ser_sub s) = Some (sm_last s).
Proof. unfold de_last. cbn. destruct (sm_last s); reflexivity. Qed.

Lemma de_subs_ser strings subs : de_subs strings (map ser_sub subs) = Some subs.
Proof.
  induction subs as [|s r IH]; [reflexivity|].
  cbn [map de_subs]. rewrite de_last_ser, IH. destruct s; reflexivity.
Qed.

Lemma de_part_ser strings p : de_part strings (ser_part p) = Some (reindex p).
Proof. unfold de_part. cbn [ser_part w_subs]. rewrite de_subs_ser. reflexivity. Qed.

(* no two entries share (table, id): what a map of maps holds *)
Definition Distinct (l : list part_meta) : Prop :=
  forall i j p q, nth_error l i = Some p -> nth_error l j = Some q -> same_key p q = true -> i = j.

Lemma put_fresh p : forall l, (forall q, In q l -> same_key p q = false) -> put p l = l ++ [p].
Proof.
  induction l as [|q r IH]; intros H; [reflexivity|].
  cbn [put]. rewrite (H q (or_introl eq_refl)). cbn. f_equal. apply IH.
  intros q' Hin. apply H. right. exact Hin.
Qed.

Lemma distinct_fresh acc p rest :
  Distinct (acc ++ p :: rest) -> forall q, In q acc -> same_key p q = false.
Proof.
  intros HD q Hin. destruct (same_key p q) eqn:E; [|reflexivity].
  destruct (In_nth_error _ _ Hin) as (j & Hj).
  assert (Hlt : (j < length acc)%nat) by (apply nth_error_Some; rewrite Hj; discriminate).
  assert (H1 : nth_error (acc ++ p :: rest) (length acc) = Some p).
  { rewrite nth_error_app2 by lia. rewrite Nat.sub_diag. reflexivity. }
  assert (H2 : nth_error (acc ++ p :: rest) j = Some q).
  { rewrite nth_error_app1 by exact Hlt. exact Hj. }
  pose proof (HD _ _ _ _ H1 H2 E). lia.
Qed.

Lemma de_parts_ser strings : forall ps acc,
  Distinct (acc ++ map reindex ps) ->
  de_parts strings (map ser_part ps) acc = Some (acc ++ map reindex ps).
Proof.
  induction ps as [|p r IH]; intros acc HD; cbn [map de_parts].
  - rewrite app_nil_r. reflexivity.
  - rewrite de_part_ser. cbn [map] in HD.
    rewrite (put_fresh (reindex p) acc (distinct_fresh acc (reindex p) (map reindex r) HD)).
    rewrite IH; rewrite <- app_assoc; cbn [app]; [reflexivity | exact HD].
Qed.

Theorem catalogue_roundtrip_reindexed (m : meta) :
  Distinct (map reindex (ms_parts m)) ->
  deserialize (serialize m) =
    DeOk {| ms_next_wal := ms_cursor m; ms_cursor := ms_cursor m; ms_parts := map reindex (ms_parts m) |}.
Proof.
  intros HD. unfold deserialize, serialize. cbn [w_strings w_parts w_next_wal].
  rewrite (de_parts_ser [] (ms_parts m) [] HD). reflexivity.
Qed.

Lemma same_key_reindex p q : same_key (reindex p) (reindex q) = same_key p q.
Proof. reflexivity. Qed.

Lemma distinct_reindex ps : Distinct ps -> Distinct (map reindex ps).
Proof.
  intros HD i j p q Hi Hj E.
  rewrite nth_error_map in Hi, Hj.
  destruct (nth_error ps i) as [p0|] eqn:Ei; [|discriminate].
  destruct (nth_error ps j) as [q0|] eqn:Ej; [|discriminate].
  cbn in Hi, Hj. injection Hi as <-. injection Hj as <-.
  rewrite same_key_reindex in E. exact (HD _ _ _ _ Ei Ej E).
Qed.

(* the property-level statement: a catalogue whose entries have distinct (table, id) and carry the index
   that both constructors build reads back exactly, in the same order, with the flush cursor as both
   cursor and next WAL id *)
Theorem catalogue_roundtrip (m : meta) :
  Distinct (ms_parts m) -> Forall index_ok (ms_parts m) ->
  deserialize (serialize m) =
    DeOk {| ms_next_wal := ms_cursor m; ms_cursor := ms_cursor m; ms_parts := ms_parts m |}.
Proof.
  intros HD HI. rewrite (catalogue_roundtrip_reindexed m (distinct_reindex _ HD)).
  rewrite (map_reindex_id _ HI). reflexivity.
Qed.

(* ---------- the reader on older formats ---------- *)
Lemma max_str_cases acc c : (max_str acc c = c /\ slt acc c) \/ (max_str acc c = acc /\ (slt c acc \/ c = acc)).
Proof.
  unfold max_str. destruct (str_ltb acc c) eqn:E.
  - left. split; [reflexivity|]. apply str_ltb_lt. exact E.
  - right. split; [reflexivity|].
    destruct (slt_total acc c) as [H|[H|H]].
    + apply str_ltb_lt in H. congruence.
    + right. symmetry. exact H.
    + left. exact H.
Qed.

Definition sle (a b : str) : Prop := slt a b \/ a = b.

Lemma sle_refl a : sle a a. Proof. right. reflexivity. Qed.
Lemma sle_trans a b c : sle a b -> sle b c -> sle a c.
Proof.
  intros [H1 | ->] [H2 | ->]; unfold sle; eauto using slt_trans.
Qed.

Lemma max_str_ge_acc acc c : sle acc (max_str acc c).
Proof. destruct (max_str_cases acc c) as [[-> H]|[-> _]]; [left; exact H | apply sle_refl]. Qed.
Lemma max_str_ge_c acc c : sle c (max_str acc c).
Proof. destruct (max_str_cases acc c) as [[-> _]|[-> H]]; [apply sle_refl | exact H]. Qed.

Lemma fold_max_ge : forall cols acc c, In c (acc :: cols) -> sle c (fold_left max_str cols acc).
Proof.
  induction cols as [|x r IH]; intros acc c Hin; cbn [fold_left].
  - destruct Hin as [-> | []]. apply sle_refl.
  - destruct Hin as [-> | [-> | Hin]].
    + eapply sle_trans; [apply (max_str_ge_acc c x)|]. apply IH. left. reflexivity.
    + eapply sle_trans; [apply (max_str_ge_c acc c)|]. apply IH. left. reflexivity.
    + apply IH. right. exact Hin.
Qed.

Lemma fold_max_in : forall cols acc, In (fold_left max_str cols acc) (acc :: cols).
Proof.
  induction cols as [|x r IH]; intros acc; cbn [fold_left]; [left; reflexivity|].
  destruct (IH (max_str acc x)) as [H|H].
  - destruct (max_str_cases acc x) as [[E _]|[E _]]; rewrite E in H |- *.
    + right. left. exact H.
    + left. exact H.
  - right. right. exact H.
Qed.

(* the interned ids resolve, in order, to names of the string table *)
Lemma interned_last_spec strings : forall ids acc l,
  interned_last strings ids acc = Some l ->
  exists cs, Forall2 (fun i c => nth_error strings (N.to_nat i) = Some c) ids cs /\
             l = fold_left max_str cs acc.
Proof.
  induction ids as [|i r IH]; intros acc l H; cbn [interned_last] in H.
  - injection H as <-. exists []. split; [constructor|reflexivity].
  - destruct (nth_error strings (N.to_nat i)) as [c|] eqn:E; [|discriminate].
    destruct (IH _ _ H) as (cs & HF & ->).
    exists (c :: cs). split; [constructor; assumption | reflexivity].
Qed.

Lemma interned_last_total strings : forall ids acc,
  Forall (fun i => (N.to_nat i < length strings)%nat) ids ->
  exists l, interned_last strings ids acc = Some l.
Proof.
  induction ids as [|i r IH]; intros acc HF; cbn [interned_last]; [eauto|].
  inversion HF as [|? ? Hi Hr]; subst.
  destruct (nth_error strings (N.to_nat i)) as [c|] eqn:E.
  - apply IH. exact Hr.
  - apply nth_error_None in E. lia.
Qed.

(* what the reader takes as a file's last column: the explicit field when present; otherwise the
   greatest (bytewise) of the column names listed in the older formats, or "" when there are none *)
Theorem de_last_spec strings s l :
  de_last strings s = Some l ->
  exists cs, Forall2 (fun i c => nth_error strings (N.to_nat i) = Some c) (w_interned s) cs /\
    match w_last s with
    | [] => (forall c, In c (w_columns s ++ cs) -> sle c l) /\ (l = [] \/ In l (w_columns s ++ cs))
    | _ => l = w_last s
    end.
Proof.
  unfold de_last. intros H.
  destruct (interned_last strings (w_interned s) (fold_left max_str (w_columns s) [])) as [legacy|] eqn:E;
    [|discriminate].
  destruct (interned_last_spec _ _ _ _ E) as (cs & HF & Hl).
  exists cs. split; [exact HF|].
  destruct (w_last s) as [|a e].
  - injection H as <-. rewrite <- fold_left_app in Hl. subst legacy. split.
    + intros c Hin. apply fold_max_ge. right. exact Hin.
    + destruct (fold_max_in (w_columns s ++ cs) []) as [H|H]; [left; symmetry; exact H | right; exact H].
  - injection H as <-. reflexivity.
Qed.

(* the reader panics on nothing but an interned column id beyond the string table *)
Definition ids_in_range (g : db_msg) : Prop :=
  Forall (fun p => Forall (fun s => Forall (fun i => (N.to_nat i < length (w_strings g))%nat) (w_interned s))
                          (w_subs p)) (w_parts g).

Lemma de_subs_total strings : forall subs,
  Forall (fun s => Forall (fun i => (N.to_nat i < length strings)%nat) (w_interned s)) subs ->
  exists r, de_subs strings subs = Some r.
Proof.
  induction subs as [|s r IH]; intros HF; cbn [de_subs]; [eauto|].
  inversion HF as [|? ? Hs Hr]; subst.
  unfold de_last.
  destruct (interned_last_total strings (w_interned s) (fold_left max_str (w_columns s) []) Hs) as (l & ->).
  destruct (IH Hr) as (r' & ->). eauto.
Qed.

Lemma de_parts_total strings : forall ps acc,
  Forall (fun p => Forall (fun s => Forall (fun i => (N.to_nat i < length strings)%nat) (w_interned s))
                          (w_subs p)) ps ->
  exists r, de_parts strings ps acc = Some r.
Proof.
  induction ps as [|p r IH]; intros acc HF; cbn [de_parts]; [eauto|].
  inversion HF as [|? ? Hp Hr]; subst.
  unfold de_part. destruct (de_subs_total strings (w_subs p) Hp) as (subs & ->).
  apply IH. exact Hr.
Qed.

Theorem deserialize_total g : ids_in_range g -> exists m, deserialize g = DeOk m.
Proof.
  intros H. unfold deserialize.
  destruct (de_parts_total (w_strings g) (w_parts g) [] H) as (r & ->). eauto.
Qed.

(* ---------- a later entry replaces an earlier one with the same key; others are kept ---------- *)
Lemma str_eqb_refl a : str_eqb a a = true.
Proof. unfold str_eqb. rewrite lex_cmp_refl. reflexivity. Qed.

Lemma same_key_refl p : same_key p p = true.
Proof. unfold same_key. rewrite str_eqb_refl, N.eqb_refl. reflexivity. Qed.

Lemma lookup_put_same p : forall l, lookup (put p l) (pm_table p) (pm_id p) = Some p.
Proof.
  unfold lookup.
  induction l as [|q r IH]; cbn [put find].
  - rewrite str_eqb_refl, N.eqb_refl. reflexivity.
  - destruct (same_key p q) eqn:E; cbn [find].
    + rewrite str_eqb_refl, N.eqb_refl. reflexivity.
    + unfold same_key in E.
      assert (E' : str_eqb (pm_table q) (pm_table p) && (pm_id q =? pm_id p) = false).
      { destruct (str_eqb (pm_table q) (pm_table p)) eqn:E1; [|reflexivity].
        apply str_eqb_eq in E1. rewrite E1, str_eqb_refl in E. cbn in E |- *.
        rewrite N.eqb_sym. exact E. }
      rewrite E'. exact IH.
Qed.
