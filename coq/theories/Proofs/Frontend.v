(* Lemmas about the model of parse_query (Model/Frontend.v): which inputs panic, which are accepted,
   and what the output column names are. *)
From Coq Require Import NArith ZArith List Bool Lia.
From LV Require Import Model.Frontend Model.FrontendSpec.
Import ListNotations.
Open Scope N_scope.

Scheme expr_mind := Induction for expr Sort Prop
  with farg_mind := Induction for farg Sort Prop
  with fargs_mind := Induction for fargs Sort Prop.

(* ------------------------------------------------------------------------------------------- *)
(* result plumbing                                                                              *)
(* ------------------------------------------------------------------------------------------- *)

Definition is_panic {A} (r : result A) : bool := match r with Panic _ => true | _ => false end.
Definition is_val {A} (r : result A) : bool := match r with Val _ => true | _ => false end.
Definition is_err {A} (r : result A) : bool := match r with Err _ => true | _ => false end.

Lemma bind_val : forall A B (r : result A) (f : A -> result B) b,
  bind r f = Val b -> exists a, r = Val a /\ f a = Val b.
Proof. intros A B [a|k|s] f b H; cbn in H; try discriminate. eauto. Qed.

Lemma bind_not_panic : forall A B (r : result A) (f : A -> result B),
  is_panic r = false -> (forall a, r = Val a -> is_panic (f a) = false) -> is_panic (bind r f) = false.
Proof. intros A B [a|k|s] f Hr Hf; cbn in *; auto. Qed.

Lemma bind_is_val : forall A B (r : result A) (f : A -> result B),
  is_val (bind r f) = true <-> exists a, r = Val a /\ is_val (f a) = true.
Proof.
  intros A B [a|k|s] f; cbn; split; intro H; try discriminate; eauto.
  - destruct H as (a' & E & H). injection E as <-. exact H.
  - destruct H as (a' & E & _). discriminate.
  - destruct H as (a' & E & _). discriminate.
Qed.

Lemma trichotomy : forall A (r : result A), is_panic r = false -> is_val r = false -> exists k, r = Err k.
Proof. intros A [a|k|s]; cbn; intros; try discriminate; eauto. Qed.

(* ------------------------------------------------------------------------------------------- *)
(* strip_quotes                                                                                 *)
(* ------------------------------------------------------------------------------------------- *)

Lemma strip_quotes_never_err : forall s k, strip_quotes s <> Err k.
Proof.
  intros s k. unfold strip_quotes.
  destruct (quoted_by 96 s || quoted_by 34 s); [|discriminate].
  destruct (is_char_boundary s 1 && is_char_boundary s (length s - 1)); discriminate.
Qed.

Lemma firstn_pred_removelast : forall (A : Type) (l : list A), firstn (length l - 1) l = removelast l.
Proof.
  intros A l. rewrite removelast_firstn_len. f_equal. lia.
Qed.

(* when strip_quotes returns, it returns the text without its first and last byte (text enclosed in
   a matching pair of quote characters) or the text itself *)
Lemma strip_quotes_val : forall s r, strip_quotes s = Val r -> r = unquoted s.
Proof.
  intros s r. unfold strip_quotes, unquoted.
  destruct (quoted_by 96 s || quoted_by 34 s) eqn:Q.
  - destruct (is_char_boundary s 1 && is_char_boundary s (length s - 1)); [|discriminate].
    intro H. injection H as <-.
    destruct s as [|b t]; [cbn in Q; discriminate|].
    cbn [skipn tl length]. rewrite <- firstn_pred_removelast.
    replace (S (length t) - 2)%nat with (length t - 1)%nat by lia. reflexivity.
  - intro H. injection H as <-. reflexivity.
Qed.

Lemma last_byte_nth : forall s, s <> [] -> last_byte s = nth_error s (length s - 1).
Proof.
  induction s as [|b r IH]; intro H; [contradiction|].
  destruct r as [|c r']; [reflexivity|].
  change (last_byte (b :: c :: r')) with (last_byte (c :: r')).
  rewrite IH by discriminate. cbn [length]. replace (S (S (length r')) - 1)%nat with (S (length r')) by lia.
  cbn [nth_error]. f_equal. lia.
Qed.

(* in valid UTF-8 a byte that starts a character is never a continuation byte *)
Lemma valid_utf8_head : forall c r, valid_utf8 (c :: r) = true -> (c <? 128) || (192 <=? c) = true.
Proof.
  intros c r H. cbn [valid_utf8] in H.
  destruct (N.ltb_spec c 128) as [L|L]; [reflexivity|]. cbn [orb].
  destruct (N.leb_spec 192 c) as [G|G]; [reflexivity|].
  exfalso.
  destruct (N.leb_spec 194 c); cbn [andb] in H; [lia|].
  destruct (N.leb_spec 224 c); cbn [andb] in H; [lia|].
  destruct (N.leb_spec 240 c); cbn [andb] in H; [lia|]. discriminate.
Qed.

Lemma quoted_boundaries : forall q s, q < 128 -> valid_utf8 s = true -> quoted_by q s = true ->
  is_char_boundary s 1 && is_char_boundary s (length s - 1) = true.
Proof.
  intros q s Hq V Q. unfold quoted_by in Q.
  apply andb_true_iff in Q as [Q Hl]. apply andb_true_iff in Q as [Hn Hf].
  apply PeanoNat.Nat.leb_le in Hn.
  destruct s as [|b r]; [discriminate|]. apply N.eqb_eq in Hf. subst b.
  destruct r as [|c r']; [cbn in Hn; lia|].
  assert (Vr : valid_utf8 (c :: r') = true).
  { cbn [valid_utf8] in V. destruct (N.ltb_spec q 128); [exact V|lia]. }
  apply andb_true_iff. split.
  - (* index 1 follows the one-byte quote character *)
    unfold is_char_boundary. cbn [length].
    destruct (Nat.compare 1 (S (S (length r')))) eqn:C.
    + reflexivity.
    + cbn [nth_error]. apply valid_utf8_head in Vr. exact Vr.
    + apply PeanoNat.Nat.compare_gt_iff in C. lia.
  - (* index len-1 is the closing quote character itself *)
    unfold is_char_boundary. cbn [length].
    replace (S (S (length r')) - 1)%nat with (S (length r')) by lia.
    destruct (Nat.compare (S (length r')) (S (S (length r')))) eqn:C.
    + reflexivity.
    + rewrite last_byte_nth in Hl by discriminate. cbn [length] in Hl.
      replace (S (S (length r')) - 1)%nat with (S (length r')) in Hl by lia.
      destruct (nth_error (q :: c :: r') (S (length r'))) as [x|]; [|discriminate].
      apply N.eqb_eq in Hl. subst x.
      destruct (N.ltb_spec q 128); [reflexivity|lia].
    + apply PeanoNat.Nat.compare_gt_iff in C. lia.
Qed.

(* strip_quotes never panics on a valid str (the matching quotes are one-byte characters) *)
Lemma strip_quotes_not_panic : forall s, valid_utf8 s = true -> is_panic (strip_quotes s) = false.
Proof.
  intros s V. unfold strip_quotes.
  destruct (quoted_by 96 s) eqn:Q1; cbn [orb].
  - rewrite (quoted_boundaries 96 s) by (try reflexivity; assumption). reflexivity.
  - destruct (quoted_by 34 s) eqn:Q2; [|reflexivity].
    rewrite (quoted_boundaries 34 s) by (try reflexivity; assumption). reflexivity.
Qed.

Lemma strip_quotes_is_val : forall s, valid_utf8 s = true -> is_val (strip_quotes s) = true.
Proof.
  intros s V. pose proof (strip_quotes_not_panic s V) as P.
  destruct (strip_quotes s) eqn:E; cbn in *; try reflexivity; try discriminate.
  exfalso. eapply strip_quotes_never_err; eauto.
Qed.

(* ------------------------------------------------------------------------------------------- *)
(* expressions: panic freedom outside the class, acceptance = the supported grammar              *)
(* ------------------------------------------------------------------------------------------- *)

Lemma map_binary_not_panic : forall o, is_panic (map_binary_operator o) = false.
Proof. destruct o; reflexivity. Qed.
Lemma map_unary_not_panic : forall o, is_panic (map_unary_operator o) = false.
Proof. destruct o; reflexivity. Qed.

Lemma get_raw_val_panic : forall v, is_panic (get_raw_val v) = negb (number_ok v).
Proof.
  destruct v as [t f| | |]; cbn; try reflexivity.
  destruct (parse_i64 t); cbn; [reflexivity|]. destruct f; reflexivity.
Qed.

Lemma convert_not_panic :
  forall e, expr_wf e = true -> is_panic (convert_expr e) = false.
Proof.
  apply (expr_mind
    (fun e => expr_wf e = true -> is_panic (convert_expr e) = false)
    (fun a => farg_wf a = true -> is_panic (convert_farg a) = false)
    (fun a => fargs_wf a = true ->
       (forall x, a = FList1 x -> is_panic (convert_farg x) = false) /\
       (forall x y, a = FList2 x y -> is_panic (convert_farg x) = false /\ is_panic (convert_farg y) = false))).
  - (* EBinary *) intros op l IHl r IHr H. cbn in H. apply andb_true_iff in H as [Hl Hr].
    cbn [convert_expr]. apply bind_not_panic; [apply map_binary_not_panic|]. intros f _.
    apply bind_not_panic; [auto|]. intros a _. apply bind_not_panic; [auto|]. reflexivity.
  - (* EUnary *) intros op x IH H. cbn in H. cbn [convert_expr].
    apply bind_not_panic; [apply map_unary_not_panic|]. intros f _.
    apply bind_not_panic; [auto|]. reflexivity.
  - (* EValue *) intros v H. cbn in H. cbn [convert_expr].
    apply bind_not_panic; [rewrite get_raw_val_panic, H; reflexivity|]. reflexivity.
  - (* EIdent *) intros v H. reflexivity.
  - (* ENested *) intros x IH H. cbn in H. cbn [convert_expr]. auto.
  - (* EFunction *) intros name args IH H. cbn in H. destruct (IH H) as [H1 H2].
    assert (Hone : forall mk : nexpr -> nexpr,
      is_panic (match args with
                | FList1 a => bind (convert_farg a) (fun x => Val (mk x))
                | _ => Err ParseError end) = false).
    { intros mk. destruct args; try reflexivity.
      apply bind_not_panic; [eapply H1; reflexivity|]. reflexivity. }
    cbn [convert_expr]. destruct (function_kind name); try apply Hone; try reflexivity.
    destruct args; try reflexivity.
    destruct (H2 _ _ eq_refl) as [Ha Hb].
    apply bind_not_panic; [exact Ha|]. intros x _.
    apply bind_not_panic; [exact Hb|]. reflexivity.
  - (* EIsNull *) intros x IH H. cbn in H. cbn [convert_expr].
    apply bind_not_panic; [auto|]. reflexivity.
  - (* EIsNotNull *) intros x IH H. cbn in H. cbn [convert_expr].
    apply bind_not_panic; [auto|]. reflexivity.
  - (* ELike *) intros neg x IHx p IHp esc H. cbn in H. apply andb_true_iff in H as [Hx Hp].
    cbn [convert_expr]. destruct esc; [reflexivity|].
    apply bind_not_panic; [auto|]. intros a _. apply bind_not_panic; [auto|]. reflexivity.
  - (* EFloor *) intros x IH H. cbn in H. cbn [convert_expr].
    apply bind_not_panic; [auto|]. reflexivity.
  - (* EOther *) reflexivity.
  - (* FAExpr *) intros e IH H. cbn in H. cbn [convert_farg]. auto.
  - reflexivity.
  - reflexivity.
  - reflexivity.
  - reflexivity.
  - (* FNone *) intros _. split; intros; discriminate.
  - intros _. split; intros; discriminate.
  - (* FList1 *) intros a IH H. cbn in H. split.
    + intros x E. injection E as <-. auto.
    + intros; discriminate.
  - (* FList2 *) intros a IHa b IHb H. cbn in H. apply andb_true_iff in H as [Ha Hb]. split.
    + intros; discriminate.
    + intros x y E. injection E as <- <-. auto.
  - intros n _. split; intros; discriminate.
Qed.

Lemma map_binary_is_val : forall o, is_val (map_binary_operator o) = binop_supported o.
Proof. destruct o; reflexivity. Qed.
Lemma map_unary_is_val : forall o, is_val (map_unary_operator o) = unop_supported o.
Proof. destruct o; reflexivity. Qed.

Lemma is_val_bind2 : forall A B (r : result A) (f : A -> result B) (b : bool),
  (forall a, r = Val a -> is_val (f a) = b) -> is_val (bind r f) = is_val r && b.
Proof.
  intros A B [a|k|s] f b H; cbn; auto.
Qed.

(* an expression converts iff it is in the supported grammar *)
Lemma convert_is_val :
  forall e, expr_wf e = true -> is_val (convert_expr e) = expr_supported e.
Proof.
  apply (expr_mind
    (fun e => expr_wf e = true -> is_val (convert_expr e) = expr_supported e)
    (fun a => farg_wf a = true -> is_val (convert_farg a) = farg_supported a)
    (fun a => fargs_wf a = true ->
       (forall x, a = FList1 x -> is_val (convert_farg x) = farg_supported x) /\
       (forall x y, a = FList2 x y -> is_val (convert_farg x) = farg_supported x /\
                                      is_val (convert_farg y) = farg_supported y))).
  - intros op l IHl r IHr H. cbn in H. apply andb_true_iff in H as [Hl Hr].
    cbn [convert_expr expr_supported].
    rewrite (is_val_bind2 _ _ _ _ (expr_supported l && expr_supported r)).
    + rewrite map_binary_is_val. now rewrite andb_assoc.
    + intros f _. rewrite (is_val_bind2 _ _ _ _ (expr_supported r)).
      * now rewrite IHl.
      * intros a _. rewrite (is_val_bind2 _ _ _ _ true); [rewrite IHr by assumption; apply andb_true_r|reflexivity].
  - intros op x IH H. cbn in H. cbn [convert_expr expr_supported].
    rewrite (is_val_bind2 _ _ _ _ (expr_supported x)).
    + now rewrite map_unary_is_val.
    + intros f _. rewrite (is_val_bind2 _ _ _ _ true); [rewrite IH by assumption; apply andb_true_r|reflexivity].
  - intros v H. cbn in H. cbn [convert_expr expr_supported].
    destruct v as [t f| | |]; cbn; try reflexivity.
    cbn in H. destruct (parse_i64 t); cbn in *; [reflexivity|]. destruct f; cbn in *; [reflexivity|discriminate].
  - intros v H. reflexivity.
  - intros x IH H. cbn in H. cbn [convert_expr expr_supported]. auto.
  - intros name args IH H. cbn in H. destruct (IH H) as [H1 H2].
    assert (Hone : forall mk : nexpr -> nexpr,
      is_val (match args with
              | FList1 a => bind (convert_farg a) (fun x => Val (mk x))
              | _ => Err ParseError end)
      = match args with FList1 a => farg_supported a | _ => false end).
    { intros mk. destruct args; try reflexivity.
      rewrite (is_val_bind2 _ _ _ _ true); [|reflexivity].
      rewrite (H1 _ eq_refl). apply andb_true_r. }
    cbn [convert_expr expr_supported].
    destruct (function_kind name); try (rewrite Hone; destruct args; reflexivity); try reflexivity.
    destruct args; try reflexivity.
    destruct (H2 _ _ eq_refl) as [Ha Hb].
    rewrite (is_val_bind2 _ _ _ _ (farg_supported b)).
    + now rewrite Ha.
    + intros x _. rewrite (is_val_bind2 _ _ _ _ true); [rewrite Hb; apply andb_true_r|reflexivity].
  - intros x IH H. cbn in H. cbn [convert_expr expr_supported].
    rewrite (is_val_bind2 _ _ _ _ true); [rewrite IH by assumption; apply andb_true_r|reflexivity].
  - intros x IH H. cbn in H. cbn [convert_expr expr_supported].
    rewrite (is_val_bind2 _ _ _ _ true); [rewrite IH by assumption; apply andb_true_r|reflexivity].
  - intros neg x IHx p IHp esc H. cbn in H. apply andb_true_iff in H as [Hx Hp].
    cbn [convert_expr expr_supported]. destruct esc; [reflexivity|]. cbn [negb andb].
    rewrite (is_val_bind2 _ _ _ _ (expr_supported p)).
    + now rewrite IHx.
    + intros a _. rewrite (is_val_bind2 _ _ _ _ true); [rewrite IHp by assumption; apply andb_true_r|reflexivity].
  - intros x IH H. cbn in H. cbn [convert_expr expr_supported].
    rewrite (is_val_bind2 _ _ _ _ true); [rewrite IH by assumption; apply andb_true_r|reflexivity].
  - reflexivity.
  - intros e IH H. cbn in H. cbn [convert_farg farg_supported]. auto.
  - reflexivity.
  - reflexivity.
  - reflexivity.
  - reflexivity.
  - intros _. split; intros; discriminate.
  - intros _. split; intros; discriminate.
  - intros a IH H. cbn in H. split.
    + intros x E. injection E as <-. auto.
    + intros; discriminate.
  - intros a IHa b IHb H. cbn in H. apply andb_true_iff in H as [Ha Hb]. split.
    + intros; discriminate.
    + intros x y E. injection E as <- <-. auto.
  - intros n _. split; intros; discriminate.
Qed.

(* ------------------------------------------------------------------------------------------- *)
(* unsupported constructs inside expressions are error values, whatever surrounds them           *)
(* ------------------------------------------------------------------------------------------- *)

Lemma unsupported_binop : forall l r, convert_expr (EBinary BOther l r) = Err NotImplemented.
Proof. reflexivity. Qed.
Lemma unsupported_unop : forall x, convert_expr (EUnary UOther x) = Err Fatal.
Proof. reflexivity. Qed.
Lemma unsupported_value : convert_expr (EValue VOther) = Err NotImplemented.
Proof. reflexivity. Qed.
Lemma unsupported_node : convert_expr EOther = Err NotImplemented.
Proof. reflexivity. Qed.
Lemma like_escape : forall n x p, convert_expr (ELike n x p true) = Err NotImplemented.
Proof. reflexivity. Qed.
Lemma unknown_function : forall name args, function_kind name = FUnknown ->
  convert_expr (EFunction name args) = Err NotImplemented.
Proof. intros name args H. cbn [convert_expr]. rewrite H. reflexivity. Qed.

Definition arg_rejected (a : farg) : Prop :=
  a = FANamed \/ a = FAWildcard \/ a = FAQualifiedWildcard \/ a = FAOther.

Lemma rejected_arg : forall a, arg_rejected a -> convert_farg a = Err NotImplemented.
Proof. intros a [->|[->|[->| ->]]]; reflexivity. Qed.

Lemma function_named_arg : forall name a, function_kind name <> FUnknown -> function_kind name <> FRegex ->
  arg_rejected a -> convert_expr (EFunction name (FList1 a)) = Err NotImplemented.
Proof.
  intros name a Hk Hr Ha. cbn [convert_expr].
  destruct (function_kind name); try congruence; rewrite (rejected_arg _ Ha); reflexivity.
Qed.

Lemma function_wrong_arity : forall name args, function_kind name <> FUnknown ->
  match function_kind name, args with
  | FRegex, FList2 _ _ => False
  | FRegex, _ => True
  | _, FList1 _ => False
  | _, _ => True
  end -> convert_expr (EFunction name args) = Err ParseError.
Proof.
  intros name args Hk H. cbn [convert_expr].
  destruct (function_kind name); try congruence; destruct args; try reflexivity; contradiction.
Qed.

(* ------------------------------------------------------------------------------------------- *)
(* the query shell                                                                              *)
(* ------------------------------------------------------------------------------------------- *)

Lemma components_not_panic : forall b ob lc, is_panic (get_query_components b ob lc) = false.
Proof.
  intros [s|] ob lc; [|reflexivity]. unfold get_query_components.
  repeat match goal with |- context [if ?c then _ else _] => destruct c; try reflexivity end.
  destruct lc; reflexivity.
Qed.

Lemma item_not_panic : forall it, item_wf it = true -> is_panic (convert_item it) = false.
Proof.
  intros [e d|e a| |] H; cbn in *; try reflexivity;
    apply andb_true_iff in H as [He Hq];
    (apply bind_not_panic; [apply convert_not_panic; exact He|]); intros x _;
    (apply bind_not_panic; [apply strip_quotes_not_panic; exact Hq|]); reflexivity.
Qed.

Lemma projection_not_panic : forall l, forallb item_wf l = true -> is_panic (get_projection l) = false.
Proof.
  induction l as [|it r IH]; intro H; [reflexivity|].
  cbn in H. apply andb_true_iff in H as [Hi Hr]. cbn [get_projection].
  apply bind_not_panic; [apply item_not_panic; exact Hi|]. intros c _.
  apply bind_not_panic; [auto|]. reflexivity.
Qed.

Lemma order_list_not_panic : forall l, forallb (fun p => expr_wf (fst p)) l = true ->
  is_panic (get_order_by_list l) = false.
Proof.
  induction l as [|[e asc] r IH]; intro H; [reflexivity|].
  cbn in H. apply andb_true_iff in H as [He Hr]. cbn [get_order_by_list].
  apply bind_not_panic; [apply convert_not_panic; exact He|]. intros x _.
  apply bind_not_panic; [auto|]. reflexivity.
Qed.

(* LIMIT / OFFSET never panic: a literal that is not a u64 is a ParseError (fix 88d707c) *)
Lemma limit_not_panic : forall l, is_panic (get_limit l) = false.
Proof.
  intros [e|]; [|reflexivity]. destruct e; try reflexivity. destruct v; try reflexivity.
  cbn. destruct (parse_u64 text); reflexivity.
Qed.

Lemma offset_not_panic : forall l, is_panic (get_offset l) = false.
Proof.
  intros [e|]; [|reflexivity]. destruct e; try reflexivity. destruct v; try reflexivity.
  cbn. destruct (parse_u64 text); reflexivity.
Qed.

Lemma components_fields : forall s ob lc c, get_query_components (BdSelect s) ob lc = Val c ->
  c_projection c = s_projection s /\
  c_selection c = s_selection s /\
  c_relation c = match s_from s with f :: _ => Some (fi_relation f) | [] => None end /\
  c_order_by c = match ob with OBExprs l => Some l | _ => None end /\
  (c_limit c, c_offset c) = match lc with LCLimitOffset l o => (l, o) | _ => (None, None) end /\
  (length (s_from s) <= 1)%nat.
Proof.
  intros s ob lc c. unfold get_query_components.
  destruct (match s_group_by s with GBExprs ne nm => _ | GBAll => false end); [discriminate|].
  destruct (s_having s); [discriminate|]. destruct (s_distinct s); [discriminate|].
  destruct (Nat.ltb 1 (length (s_from s))) eqn:L; [discriminate|].
  destruct (match s_from s with f :: _ => _ | [] => false end); [discriminate|].
  apply PeanoNat.Nat.ltb_ge in L.
  destruct lc; intro H; injection H as <-; cbn; repeat split; auto.
Qed.

(* totality: on everything the parser can hand over, the conversion never panics *)
Lemma parse_query_not_panic : forall p, parser_output p = true -> is_panic (parse_query p) = false.
Proof.
  intros [| |stmts] H; try reflexivity.
  cbn [parse_query]. destruct (Nat.ltb 1 (length stmts)) eqn:L; [reflexivity|].
  destruct stmts as [|st rest]; [reflexivity|].
  destruct rest as [|st2 rest]; [|cbn in L; discriminate].
  destruct st as [b ob lc|]; [|reflexivity].
  apply bind_not_panic; [apply components_not_panic|]. intros c Hc.
  destruct b as [s|]; [|discriminate].
  cbn in H. rewrite andb_true_r in H.
  apply andb_true_iff in H as [H Hord]. apply andb_true_iff in H as [H Hsel].
  apply andb_true_iff in H as [Hitems Hrel].
  destruct (components_fields _ _ _ _ Hc) as (Ep & Es & Er & Eo & Elo & Hlen).
  apply bind_not_panic; [rewrite Ep; apply projection_not_panic; assumption|]. intros pr _.
  apply bind_not_panic.
  { rewrite Er. destruct (s_from s) as [|f fr]; [reflexivity|].
    cbn in Hrel. apply andb_true_iff in Hrel as [Hf _].
    unfold relation_wf in Hf. destruct (fi_relation f); [|reflexivity].
    cbn. apply strip_quotes_not_panic. assumption. }
  intros tb _.
  apply bind_not_panic.
  { rewrite Es. destruct (s_selection s); [|reflexivity]. apply convert_not_panic. assumption. }
  intros fl _.
  apply bind_not_panic.
  { rewrite Eo. destruct ob; try reflexivity. cbn. apply order_list_not_panic. assumption. }
  intros od _.
  apply bind_not_panic; [apply limit_not_panic|]. intros lv _.
  apply bind_not_panic; [apply offset_not_panic|]. reflexivity.
Qed.

(* ------------------------------------------------------------------------------------------- *)
(* unsupported query shells are error values                                                    *)
(* ------------------------------------------------------------------------------------------- *)

Definition shell_unsupported (s : select) : Prop :=
  (exists ne nm, s_group_by s = GBExprs ne nm /\ (ne <> 0 \/ nm <> 0)%nat) \/
  s_having s = true \/ s_distinct s = true \/ (1 < length (s_from s))%nat \/
  (exists f r, s_from s = f :: r /\ fi_joins f <> 0%nat).

Lemma shell_unsupported_err : forall s ob lc, shell_unsupported s ->
  parse_query (POk [StQuery (BdSelect s) ob lc]) = Err NotImplemented.
Proof.
  intros s ob lc H. cbn [parse_query length Nat.ltb Nat.leb].
  assert (E : get_query_components (BdSelect s) ob lc = Err NotImplemented).
  { unfold get_query_components.
    destruct (match s_group_by s with
              | GBExprs ne nm => negb (Nat.eqb ne 0) || negb (Nat.eqb nm 0)
              | GBAll => false end) eqn:B; [reflexivity|].
    destruct H as [(ne & nm & E & N)|H].
    { rewrite E in B. apply orb_false_iff in B as [B1 B2].
      apply negb_false_iff, PeanoNat.Nat.eqb_eq in B1. apply negb_false_iff, PeanoNat.Nat.eqb_eq in B2.
      lia. }
    destruct (s_having s); [reflexivity|]. destruct (s_distinct s); [reflexivity|].
    destruct (Nat.ltb 1 (length (s_from s))) eqn:L; [reflexivity|].
    destruct H as [H|[H|[H|(f & r & E & N)]]]; try discriminate.
    - apply PeanoNat.Nat.ltb_ge in L. lia.
    - rewrite E. destruct (Nat.eqb (fi_joins f) 0) eqn:J; [apply PeanoNat.Nat.eqb_eq in J; contradiction|reflexivity]. }
  rewrite E. reflexivity.
Qed.

Lemma set_operation_err : forall ob lc, parse_query (POk [StQuery BdOther ob lc]) = Err NotImplemented.
Proof. reflexivity. Qed.
Lemma non_select_err : forall rest, (length rest = 0)%nat -> parse_query (POk (StOther :: rest)) = Err ParseError.
Proof. intros [|x r] H; [reflexivity|discriminate]. Qed.
Lemma several_statements_err : forall a b rest, parse_query (POk (a :: b :: rest)) = Err ParseError.
Proof. reflexivity. Qed.
Lemma parser_error_err : parse_query PParserError = Err ParseError /\ parse_query POtherError = Err Fatal.
Proof. split; reflexivity. Qed.

(* ------------------------------------------------------------------------------------------- *)
(* acceptance = supported grammar (whole query)                                                 *)
(* ------------------------------------------------------------------------------------------- *)

Lemma item_is_val : forall it, item_wf it = true -> is_val (convert_item it) = item_supported it.
Proof.
  intros [e d|e a| |] H; cbn in *; try reflexivity;
    apply andb_true_iff in H as [He Hq];
    rewrite (is_val_bind2 _ _ _ _ true);
    try (rewrite convert_is_val by assumption; apply andb_true_r);
    intros x _; rewrite (is_val_bind2 _ _ _ _ true); try reflexivity;
    rewrite strip_quotes_is_val by assumption; reflexivity.
Qed.

Lemma projection_is_val : forall l, forallb item_wf l = true ->
  is_val (get_projection l) = forallb item_supported l.
Proof.
  induction l as [|it r IH]; intro H; [reflexivity|].
  cbn in H. apply andb_true_iff in H as [Hi Hr]. cbn [get_projection forallb].
  rewrite (is_val_bind2 _ _ _ _ (forallb item_supported r)).
  - now rewrite item_is_val.
  - intros c _. rewrite (is_val_bind2 _ _ _ _ true); [rewrite IH by assumption; apply andb_true_r|reflexivity].
Qed.

Lemma order_list_is_val : forall l, forallb (fun p => expr_wf (fst p)) l = true ->
  is_val (get_order_by_list l) = forallb (fun p => expr_supported (fst p)) l.
Proof.
  induction l as [|[e asc] r IH]; intro H; [reflexivity|].
  cbn in H. apply andb_true_iff in H as [He Hr]. cbn [get_order_by_list forallb fst].
  rewrite (is_val_bind2 _ _ _ _ (forallb (fun p => expr_supported (fst p)) r)).
  - now rewrite convert_is_val.
  - intros c _. rewrite (is_val_bind2 _ _ _ _ true); [rewrite IH by assumption; apply andb_true_r|reflexivity].
Qed.

Lemma limit_is_val : forall l, is_val (get_limit l) = count_supported l.
Proof.
  intros [e|]; [|reflexivity]. destruct e; try reflexivity. destruct v; try reflexivity.
  cbn. destruct (parse_u64 text); reflexivity.
Qed.
Lemma offset_is_val : forall l, is_val (get_offset l) = count_supported l.
Proof.
  intros [e|]; [|reflexivity]. destruct e; try reflexivity. destruct v; try reflexivity.
  cbn. destruct (parse_u64 text); reflexivity.
Qed.

(* a LIMIT / OFFSET literal that is not a u64 is a ParseError *)
Lemma limit_literal_err : forall text f, parse_u64 text = None ->
  get_limit (Some (EValue (VNumber text f))) = Err ParseError /\
  get_offset (Some (EValue (VNumber text f))) = Err ParseError.
Proof. intros text f H. cbn. rewrite H. split; reflexivity. Qed.

(* names of a converted projection *)
Lemma projection_names : forall l cs, get_projection l = Val cs ->
  map (fun c => Some (ci_name c)) cs = map expected_name l.
Proof.
  induction l as [|it r IH]; intros cs H.
  - injection H as <-. reflexivity.
  - cbn [get_projection] in H.
    apply bind_val in H as (c & Hc & H). apply bind_val in H as (cs' & Hcs & H). injection H as <-.
    cbn [map]. f_equal; [|auto].
    destruct it as [e d|e a| |]; cbn in Hc.
    + apply bind_val in Hc as (x & _ & Hc). apply bind_val in Hc as (n & Hn & Hc). injection Hc as <-.
      cbn. f_equal. apply strip_quotes_val. exact Hn.
    + apply bind_val in Hc as (x & _ & Hc). apply bind_val in Hc as (n & Hn & Hc). injection Hc as <-.
      cbn. f_equal. apply strip_quotes_val. exact Hn.
    + injection Hc as <-. reflexivity.
    + discriminate.
Qed.
