(* Query::normalize: every select position is mapped to an existing projection / aggregate slot
   that carries the item's name, and the slots are used exactly once, in order. *)
From Coq Require Import NArith ZArith List Bool Lia.
From LV Require Import Model.Frontend Model.FrontendSpec Proofs.Frontend.
Import ListNotations.
Open Scope N_scope.

Fixpoint proj_slots (l : list result_column) : list nat :=
  match l with
  | [] => []
  | Proj k :: r => k :: proj_slots r
  | Agg _ :: r => proj_slots r
  end.

Fixpoint agg_slots (l : list result_column) : list nat :=
  match l with
  | [] => []
  | Agg k :: r => k :: agg_slots r
  | Proj _ :: r => agg_slots r
  end.

(* the name carried by the slot a select position is mapped to *)
Definition slot_name (sel : list column_info) (agg : list (aggregator * column_info)) (o : result_column)
  : option bytes :=
  match o with
  | Proj k => option_map ci_name (nth_error sel k)
  | Agg k => option_map (fun a => ci_name (snd a)) (nth_error agg k)
  end.

Lemma proj_slots_app : forall a b, proj_slots (a ++ b) = proj_slots a ++ proj_slots b.
Proof. induction a as [|[k|k] a IH]; intro b; cbn; rewrite ?IH; reflexivity. Qed.
Lemma agg_slots_app : forall a b, agg_slots (a ++ b) = agg_slots a ++ agg_slots b.
Proof. induction a as [|[k|k] a IH]; intro b; cbn; rewrite ?IH; reflexivity. Qed.

Lemma slot_name_mono : forall sel agg s2 a2 o n,
  slot_name sel agg o = Some n -> slot_name (sel ++ s2) (agg ++ a2) o = Some n.
Proof.
  intros sel agg s2 a2 [k|k] n; cbn; intro H.
  - destruct (nth_error sel k) eqn:E; [|discriminate].
    rewrite nth_error_app1 by (apply nth_error_Some; congruence). now rewrite E.
  - destruct (nth_error agg k) eqn:E; [|discriminate].
    rewrite nth_error_app1 by (apply nth_error_Some; congruence). now rewrite E.
Qed.

Lemma map_slot_name_mono : forall sel agg s2 a2 ord (names : list bytes),
  map (slot_name sel agg) ord = map (fun n => Some n) names ->
  map (slot_name (sel ++ s2) (agg ++ a2)) ord = map (fun n => Some n) names.
Proof.
  induction ord as [|o ord IH]; intros [|n names] H; try discriminate; [reflexivity|].
  cbn in *. injection H as Ho Hr. f_equal; [apply slot_name_mono; exact Ho|auto].
Qed.

(* extract_aggregators *)
Lemma extract_names : forall e k alias full ags k',
  extract_aggregators e k alias = Val (full, ags, k') ->
  Forall (fun a => ci_name (snd a) = alias) ags.
Proof.
  induction e as [n|v|f x IH|f x IHx y IHy|a x IH]; intros k alias full ags k' H; cbn in H.
  - injection H as <- <- <-. constructor.
  - injection H as <- <- <-. constructor.
  - apply bind_val in H as ([[x' ags'] k1] & Hx & H). injection H as <- <- <-. eauto.
  - apply bind_val in H as ([[x' a1] k1] & Hx & H).
    apply bind_val in H as ([[y' a2] k2] & Hy & H). injection H as <- <- <-.
    apply Forall_app. split; eauto.
  - destruct (has_aggregate x); [discriminate|]. injection H as <- <- <-.
    constructor; [reflexivity|constructor].
Qed.

Lemma extract_colname_single : forall e k alias full ags k',
  extract_aggregators e k alias = Val (full, ags, k') ->
  is_colname full = true -> ags <> [] -> exists a, ags = [a].
Proof.
  intros [n|v|f x|f x y|a x] k alias full ags k' H C N; cbn in H.
  - injection H as <- <- <-. contradiction.
  - injection H as <- <- <-. contradiction.
  - apply bind_val in H as ([[x' ags'] k1] & Hx & H). injection H as <- <- <-. discriminate.
  - apply bind_val in H as ([[x' a1] k1] & Hx & H).
    apply bind_val in H as ([[y' a2] k2] & Hy & H). injection H as <- <- <-. discriminate.
  - destruct (has_aggregate x); [discriminate|]. injection H as <- <- <-. eauto.
Qed.

Definition nontrivial (l : list column_info) : bool :=
  existsb (fun c => negb (is_colname (ci_expr c))) l.

Record inv (st : nstate) (l : list column_info) : Prop := {
  inv_len : length (ns_ordering st) = length l;
  inv_final : map ci_name (ns_final_projection st) = map ci_name l;
  inv_proj : proj_slots (ns_ordering st) = seq 0 (length (ns_select st));
  inv_agg : nontrivial (ns_final_projection st) = false ->
            agg_slots (ns_ordering st) = seq 0 (length (ns_aggregate st));
  inv_names : map (slot_name (ns_select st) (ns_aggregate st)) (ns_ordering st)
              = map (fun n => Some n) (map ci_name l) }.

Lemma inv0 : inv nstate0 [].
Proof. constructor; reflexivity. Qed.

Lemma nontrivial_app : forall a b, nontrivial (a ++ b) = nontrivial a || nontrivial b.
Proof. intros. unfold nontrivial. apply existsb_app. Qed.

Lemma inv_step : forall st l c st', inv st l -> normalize_item st c = Val st' -> inv st' (l ++ [c]).
Proof.
  intros st l c st' [Hlen Hfin Hproj Hagg Hnames] H.
  unfold normalize_item in H.
  apply bind_val in H as ([[full ags] k'] & Hx & H).
  destruct ags as [|a ags].
  - injection H as <-. constructor; cbn [ns_ordering ns_final_projection ns_select ns_aggregate].
    + rewrite !app_length, Hlen. reflexivity.
    + rewrite !map_app, Hfin. reflexivity.
    + rewrite proj_slots_app, Hproj, app_length. cbn [proj_slots length].
      rewrite PeanoNat.Nat.add_1_r, seq_S. reflexivity.
    + rewrite nontrivial_app. intro N. apply orb_false_iff in N as [N _].
      rewrite agg_slots_app, Hagg by assumption. cbn. apply app_nil_r.
    + rewrite !map_app. f_equal.
      * rewrite <- (app_nil_r (ns_aggregate st)). apply map_slot_name_mono. exact Hnames.
      * cbn. rewrite nth_error_app2 by lia. rewrite PeanoNat.Nat.sub_diag. reflexivity.
  - injection H as <-. constructor; cbn [ns_ordering ns_final_projection ns_select ns_aggregate].
    + rewrite !app_length, Hlen. reflexivity.
    + rewrite !map_app, Hfin. reflexivity.
    + rewrite proj_slots_app, Hproj. cbn. apply app_nil_r.
    + rewrite nontrivial_app. intro N. apply orb_false_iff in N as [N1 N2].
      cbn in N2. rewrite orb_false_r in N2. apply negb_false_iff in N2.
      destruct (extract_colname_single _ _ _ _ _ _ Hx N2) as (a' & E); [discriminate|].
      injection E as <- ->.
      rewrite agg_slots_app, Hagg by assumption. rewrite app_length. cbn [agg_slots length].
      rewrite PeanoNat.Nat.add_1_r, seq_S. reflexivity.
    + rewrite !map_app. f_equal.
      * rewrite <- (app_nil_r (ns_select st)). apply map_slot_name_mono. exact Hnames.
      * cbn. rewrite nth_error_app2 by lia. rewrite PeanoNat.Nat.sub_diag. cbn.
        apply extract_names in Hx. inversion Hx as [|? ? Ha _]. rewrite Ha. reflexivity.
Qed.

Lemma inv_items : forall l2 st l1 st', inv st l1 -> normalize_items st l2 = Val st' -> inv st' (l1 ++ l2).
Proof.
  induction l2 as [|c r IH]; intros st l1 st' I H.
  - injection H as <-. now rewrite app_nil_r.
  - cbn in H. apply bind_val in H as (st1 & H1 & H).
    replace (l1 ++ c :: r) with ((l1 ++ [c]) ++ r) by (rewrite <- app_assoc; reflexivity).
    eapply IH; [eapply inv_step; eauto|exact H].
Qed.

Lemma order_keeps_final : forall l acc acc', normalize_order acc l = Val acc' ->
  ns_final_projection (fst acc') = ns_final_projection (fst acc).
Proof.
  induction l as [|o r IH]; intros acc acc' H.
  - injection H as <-. reflexivity.
  - cbn in H. apply bind_val in H as (acc1 & H1 & H). rewrite (IH _ _ H).
    destruct acc as [st fob], o as [e desc]. unfold normalize_order_item in H1.
    apply bind_val in H1 as ([[full ags] k'] & _ & H1).
    destruct ags; injection H1 as <-; reflexivity.
Qed.

(* without a final pass: the sources are the per-item slots *)
Lemma normalize_direct : forall q main src, normalize q = Val (main, None, src) ->
  length src = length (q_select q) /\
  proj_slots src = seq 0 (length (nf_projection main)) /\
  agg_slots src = seq 0 (length (nf_aggregate main)) /\
  map (slot_name (nf_projection main) (nf_aggregate main)) src
  = map (fun n => Some n) (map ci_name (q_select q)).
Proof.
  intros q main src H. unfold normalize in H.
  apply bind_val in H as (st & Hst & H).
  pose proof (inv_items _ _ _ _ inv0 Hst) as I. cbn [app] in I.
  destruct (negb (is_nil (ns_aggregate st)) && negb (is_nil (q_order_by q))
            || existsb (fun c => negb (is_colname (ci_expr c))) (ns_final_projection st)) eqn:B.
  - apply bind_val in H as ([st' fob] & _ & H). discriminate.
  - injection H as <- <-. apply orb_false_iff in B as [_ B].
    destruct I as [Hlen Hfin Hproj Hagg Hnames]. cbn [nf_projection nf_aggregate].
    repeat split; auto.
Qed.

(* with a final pass: the sources are the final projection, one per select item, same names *)
Lemma normalize_final : forall q main fin src, normalize q = Val (main, Some fin, src) ->
  src = map Proj (seq 0 (length (q_select q))) /\
  map ci_name (nf_projection fin) = map ci_name (q_select q) /\
  nf_limit fin = q_limit q /\ nf_offset fin = q_offset q.
Proof.
  intros q main fin src H. unfold normalize in H.
  apply bind_val in H as (st & Hst & H).
  pose proof (inv_items _ _ _ _ inv0 Hst) as I. cbn [app] in I.
  destruct (negb (is_nil (ns_aggregate st)) && negb (is_nil (q_order_by q))
            || existsb (fun c => negb (is_colname (ci_expr c))) (ns_final_projection st)) eqn:B.
  - apply bind_val in H as ([st' fob] & Ho & H). injection H as <- <- <-.
    apply order_keeps_final in Ho. cbn [fst] in Ho. cbn [nf_projection nf_limit nf_offset].
    rewrite Ho. destruct I as [Hlen Hfin _ _ _].
    pose proof (f_equal (@length _) Hfin) as L. rewrite !map_length in L. rewrite L.
    repeat split; auto.
  - discriminate.
Qed.

Lemma normalize_never_panics : forall q, is_panic (normalize q) = false.
Proof.
  assert (E : forall e k alias, is_panic (extract_aggregators e k alias) = false).
  { induction e as [n|v|f x IH|f x IHx y IHy|a x IH]; intros k alias; cbn; try reflexivity.
    - apply bind_not_panic; [apply IH|]. intros [[? ?] ?] _. reflexivity.
    - apply bind_not_panic; [apply IHx|]. intros [[? ?] ?] _.
      apply bind_not_panic; [apply IHy|]. intros [[? ?] ?] _. reflexivity.
    - destruct (has_aggregate x); reflexivity. }
  assert (It : forall l st, is_panic (normalize_items st l) = false).
  { induction l as [|c r IH]; intro st; [reflexivity|]. cbn.
    apply bind_not_panic; [|intros; apply IH].
    unfold normalize_item. apply bind_not_panic; [apply E|]. intros [[? [|? ?]] ?] _; reflexivity. }
  assert (Or : forall l acc, is_panic (normalize_order acc l) = false).
  { induction l as [|o r IH]; intro acc; [reflexivity|]. cbn.
    apply bind_not_panic; [|intros; apply IH].
    destruct acc as [st fob], o as [e d]. unfold normalize_order_item.
    apply bind_not_panic; [apply E|]. intros [[? [|? ?]] ?] _; reflexivity. }
  intro q. unfold normalize. apply bind_not_panic; [apply It|]. intros st _.
  destruct (_ || _); [|reflexivity].
  apply bind_not_panic; [apply Or|]. intros [? ?] _. reflexivity.
Qed.
