(* Float columns: bit-exact round trip through FloatColumn::new_boxed and the query-path decoder. *)
From Coq Require Import ZArith List Bool Lia.
From LV Require Import Model.CodecBase Model.Codec Model.FloatEnc.
Import ListNotations.
Open Scope Z_scope.

(* overwriting the NULL slots does not touch any slot whose bit is set *)
Lemma mask_fill_nulls p : forall vs i last,
  mask_cells p i (map CFloat (fill_nulls p i last vs)) = mask_cells p i (map CFloat vs).
Proof.
  induction vs as [|v vs IH]; intros i last; [reflexivity|].
  cbn [fill_nulls]. destruct (bv_get p i) eqn:E.
  - cbn [map mask_cells]. rewrite E. f_equal. apply IH.
  - cbn [map mask_cells]. rewrite E. f_equal. apply IH.
Qed.

Lemma float_roundtrip (fs : list Z) (null : option (list Z)) :
  column_cells (float_new_boxed fs null) =
  Val (match null with
       | None => map CFloat fs
       | Some p => mask_cells p 0 (map CFloat fs)
       end).
Proof.
  destruct null as [p|]; cbn.
  - now rewrite mask_fill_nulls.
  - reflexivity.
Qed.
