(* The ColumnBuffer state machine refines the specification of Model/Ingest.v:
   after any sequence of ingestion pushes the buffer's content, seen through its null bitmap, is the
   list of cells the specification prescribes (invariant [Inv]). *)
From Coq Require Import ZArith List Bool Lia.
From LV Require Import Model.CodecBase Model.IntEnc Model.FloatEnc Model.StrEnc Model.Codec
  Model.ColumnBuffer Model.Ingest Proofs.CodecBase Proofs.IntEnc Proofs.StrEnc.
Import ListNotations.
Open Scope Z_scope.

Lemma mask_cells_eq p : forall cs i, mask_cells p i cs = mask_list p i CNull cs.
Proof. induction cs as [|c cs IH]; intros i; cbn; [reflexivity|now rewrite IH]. Qed.

(* the buffer's cells seen through its bitmap *)
Definition view (cells : list cell) (present : option (list Z)) : list cell :=
  match present with None => cells | Some p => mask_cells p 0 cells end.

(* bits at and beyond the current length are unset *)
Definition bitmap_wf (len : Z) (present : option (list Z)) : Prop :=
  match present with None => True | Some p => forall j, len <= j -> bv_get p j = false end.

(* push_present with no supplied map *)
Definition grow_present (present : option (list Z)) (len : Z) (count : nat) : option (list Z) :=
  match present with Some all => Some (bv_set_run all len count) | None => None end.

Lemma view_length cells present : length (view cells present) = length cells.
Proof.
  destruct present as [p|]; cbn; [|reflexivity]. rewrite mask_cells_eq. apply mask_list_length.
Qed.

Lemma view_map g cells present : g CNull = CNull ->
  view (map g cells) present = map g (view cells present).
Proof.
  intros Hg. destruct present as [p|]; cbn; [|reflexivity].
  rewrite !mask_cells_eq. now apply mask_list_map.
Qed.

Lemma view_push raw new present len :
  zlen raw = len -> bitmap_wf len present ->
  view (raw ++ new) (grow_present present len (length new)) = view raw present ++ new /\
  bitmap_wf (len + zlen new) (grow_present present len (length new)).
Proof.
  intros Hl Hwf. destruct present as [p|]; cbn [grow_present view bitmap_wf]; [|auto].
  pose proof (zlen_nonneg raw) as Hr. pose proof (zlen_nonneg new) as Hn.
  split.
  - rewrite !mask_cells_eq, mask_list_app. f_equal.
    + apply mask_list_ext. intros j Hj. rewrite bv_get_set_run by lia.
      destruct (bv_get p j); zb.
    + rewrite Hl. apply mask_list_all_set. intros j Hj. rewrite bv_get_set_run by lia.
      unfold zlen in Hj. destruct (bv_get p j); zb.
  - intros j Hj. rewrite bv_get_set_run by lia. cbn in Hwf. rewrite Hwf by lia.
    unfold zlen in Hj. zb.
Qed.

Lemma bv_get_all_present len j : 0 <= len -> 0 <= j -> bv_get (all_present len) j = (j <? len).
Proof.
  intros Hl Hj. unfold all_present.
  pose proof (Z.div_mod len 8) as Hdm. pose proof (Z.mod_pos_bound len 8) as Hm.
  assert (Hq : 0 <= len / 8) by (apply Z.div_pos; lia).
  rewrite bv_get_set_run by lia. rewrite bv_get_ones by lia.
  rewrite !Z2Nat.id by lia. zb.
Qed.

(* push_nulls: `count` cells without a bit *)
Lemma view_push_nulls raw ph present len :
  0 <= len -> zlen raw = len -> bitmap_wf len present ->
  let present' := match present with Some p => Some p | None => Some (all_present len) end in
  view (raw ++ ph) present' = view raw present ++ repeat CNull (length ph) /\
  bitmap_wf (len + zlen ph) present'.
Proof.
  intros H0 Hl Hwf. pose proof (zlen_nonneg ph) as Hn.
  destruct present as [p|]; cbn [view bitmap_wf] in *.
  - split.
    + rewrite !mask_cells_eq, mask_list_app. f_equal.
      rewrite Hl. apply mask_list_none_set. intros j Hj. apply Hwf. lia.
    + intros j Hj. apply Hwf. lia.
  - split.
    + rewrite !mask_cells_eq, mask_list_app. f_equal.
      * apply mask_list_all_set. intros j Hj. rewrite bv_get_all_present by lia. zb.
      * rewrite Hl. apply mask_list_none_set. intros j Hj. rewrite bv_get_all_present by lia. zb.
    + intros j Hj. rewrite bv_get_all_present by lia. zb.
Qed.

(* a buffer that was empty with `len` rows and receives its first values *)
Lemma view_first_values (ph new : list cell) len :
  0 <= len -> zlen ph = len ->
  let present' := grow_present (if 0 <? len then Some (repeat 0 (Z.to_nat (len / 8))) else None) len (length new) in
  view (ph ++ new) present' = repeat CNull (length ph) ++ new /\
  bitmap_wf (len + zlen new) present'.
Proof.
  intros H0 Hl. pose proof (zlen_nonneg new) as Hn. cbn zeta.
  destruct (Z.ltb_spec 0 len) as [L|L]; cbn [grow_present view bitmap_wf].
  - split.
    + rewrite !mask_cells_eq, mask_list_app. f_equal.
      * apply mask_list_none_set. intros j Hj. rewrite bv_get_set_run by lia.
        rewrite bv_get_zeros by lia. zb.
      * rewrite Hl. apply mask_list_all_set. intros j Hj. rewrite bv_get_set_run by lia.
        unfold zlen in Hj. rewrite bv_get_zeros by lia. zb.
    + intros j Hj. rewrite bv_get_set_run by lia. rewrite bv_get_zeros by lia. unfold zlen in Hj. zb.
  - assert (ph = []) by (destruct ph; [reflexivity|rewrite zlen_cons in Hl; pose proof (zlen_nonneg ph); lia]).
    subst ph. cbn. auto.
Qed.

(* ---------------------------------------------------------------------------------------------- *)
(* mixed buffers *)

Section WithF2S.
Variable f2s : Z -> str.

Lemma mixed_strings_app a b : mixed_strings f2s (a ++ b) = mixed_strings f2s a ++ mixed_strings f2s b.
Proof.
  induction a as [|v a IH]; [reflexivity|]. cbn [app mixed_strings].
  destruct (raw_to_string f2s v); cbn; now rewrite IH.
Qed.

Lemma mixed_strings_rstr l : mixed_strings f2s (map RStr l) = l.
Proof. induction l as [|s l IH]; cbn; [reflexivity|now rewrite IH]. Qed.

Lemma mixed_strings_rint l : mixed_strings f2s (map RInt l) = map i64_to_string l.
Proof. induction l as [|s l IH]; cbn; [reflexivity|now rewrite IH]. Qed.

Lemma mixed_strings_rfloat l : mixed_strings f2s (map RFloat l) = map f2s l.
Proof. induction l as [|s l IH]; cbn; [reflexivity|now rewrite IH]. Qed.

Lemma mixed_strings_rnull n : mixed_strings f2s (repeat RNull n) = repeat [] n.
Proof. induction n as [|n IH]; cbn; [reflexivity|now rewrite IH]. Qed.

(* ---------------------------------------------------------------------------------------------- *)
(* the invariant *)

Definition raw_cells (b : tbuf) : list cell :=
  match b with
  | TEmpty => []
  | TInt data _ => map CInt data
  | TFloat data => map CFloat data
  | TStr values => map CStr values
  | TMixed data => map CStr (mixed_strings f2s data)
  end.

Definition kind_of (b : tbuf) : kind :=
  match b with
  | TEmpty => KEmpty | TInt _ _ => KInt | TFloat _ => KFloat | TStr _ => KStr | TMixed _ => KMixed
  end.

Definition buf_ok (b : tbuf) : Prop :=
  match b with
  | TEmpty => True
  | TInt data st => st = istats_push_all istats_init data /\ i64s data
  | TFloat _ => True
  | TStr values => short_strings values
  | TMixed data => short_strings (mixed_strings f2s data)
  end.

Record Inv (cb : colbuf) (k : kind) (cs : list cell) : Prop := mk_inv {
  inv_len : cb_len cb = zlen cs;
  inv_kind : kind_of (cb_buf cb) = k;
  inv_wf : bitmap_wf (cb_len cb) (cb_present cb);
  inv_ok : buf_ok (cb_buf cb);
  inv_cells :
    match cb_buf cb with
    | TEmpty => cb_present cb = None /\ cs = repeat CNull (length cs)
    | b => zlen (raw_cells b) = cb_len cb /\ cs = view (raw_cells b) (cb_present cb)
    end
}.

Lemma inv_init : Inv (colbuf_null 0) KEmpty [].
Proof. constructor; cbn; auto. Qed.

(* side conditions of an ingestion push in kind k *)
Definition op_ok (k : kind) (op : push_op) : Prop :=
  match op with
  | PInts xs np => np = None /\ i64s xs
  | PFloats fs np => np = None
  | PStrs ss np => np = None /\ short_strings ss
  | PNulls n => 0 <= n          (* until /repo f5be0e2 also: not (k = KMixed /\ 0 < n), finding F4 *)
  end.

Hypothesis f2s_short : forall f, zlen (f2s f) < 16777216.

Lemma dec_digits_length : forall fuel n acc, (length (dec_digits fuel n acc) <= fuel + length acc)%nat.
Proof.
  induction fuel as [|f IH]; intros n acc; cbn [dec_digits]; [lia|].
  destruct (n <? 10); [cbn [length]; lia|]. specialize (IH (n / 10) (48 + n mod 10 :: acc)). cbn [length] in IH. lia.
Qed.

Lemma i64_to_string_short i : zlen (i64_to_string i) < 16777216.
Proof.
  unfold i64_to_string, zlen. destruct (i <? 0).
  - pose proof (dec_digits_length 20 (- i) []) as H. change (length (@nil Z)) with 0%nat in H.
    change (length (45 :: dec_digits 20 (- i) [])) with (S (length (dec_digits 20 (- i) []))). lia.
  - pose proof (dec_digits_length 20 i []) as H. change (length (@nil Z)) with 0%nat in H. lia.
Qed.

Lemma short_map {A} (f : A -> str) l : (forall a, zlen (f a) < 16777216) -> short_strings (map f l).
Proof. intros H. apply Forall_forall. intros s Hs. apply in_map_iff in Hs as (a & <- & _). apply H. Qed.

Lemma short_app a b : short_strings a -> short_strings b -> short_strings (a ++ b).
Proof. intros; apply Forall_app; auto. Qed.

Lemma short_repeat_nil n : short_strings (repeat [] n).
Proof. apply Forall_forall. intros s Hs. apply repeat_spec in Hs. subst. cbn. lia. Qed.

Lemma i64s_app a b : i64s a -> i64s b -> i64s (a ++ b).
Proof. intros; apply Forall_app; auto. Qed.

Lemma i64s_zeros n : i64s (repeat 0 n).
Proof. apply Forall_forall. intros s Hs. apply repeat_spec in Hs. subst. unfold i64_min, i64_max. lia. Qed.

Lemma to_string_cell_str l p : map (to_string_cell f2s) (view (map CStr l) p) = view (map CStr l) p.
Proof.
  rewrite <- view_map by reflexivity. f_equal. rewrite map_map. reflexivity.
Qed.

Lemma repeat_app_eq {A} (x : A) a b : repeat x a ++ repeat x b = repeat x (a + b).
Proof. symmetry. apply repeat_app. Qed.

Ltac len_simpl :=
  repeat (rewrite ?zlen_app, ?zlen_map, ?zlen_repeat, ?zlen_cons, ?app_length, ?map_length,
            ?repeat_length, ?view_length in * ).

(* the generic step: values appended to a non-empty buffer *)
Lemma inv_append cb k cs buf' new (g : cell -> cell) :
  Inv cb k cs -> cb_buf cb <> TEmpty -> g CNull = CNull ->
  raw_cells buf' = map g (raw_cells (cb_buf cb)) ++ new ->
  buf_ok buf' -> buf' <> TEmpty ->
  Inv (finish_push cb buf' (cb_present cb) None (length new)) (kind_of buf') (map g cs ++ new).
Proof.
  intros [Il Ik Iw Io Ic] Hne Hg Hraw Hok Hne'.
  assert (Hc : zlen (raw_cells (cb_buf cb)) = cb_len cb /\ cs = view (raw_cells (cb_buf cb)) (cb_present cb))
    by (destruct (cb_buf cb); [congruence|exact Ic..]).
  destruct Hc as [Hc1 Hc2].
  destruct (view_push (map g (raw_cells (cb_buf cb))) new (cb_present cb) (cb_len cb)) as [V1 V2];
    [now rewrite zlen_map|exact Iw|].
  unfold finish_push, push_present. cbn [cb_buf cb_len cb_present].
  fold (grow_present (cb_present cb) (cb_len cb) (length new)).
  constructor; cbn [cb_buf cb_len cb_present].
  - rewrite zlen_app, zlen_map, Il. reflexivity.
  - reflexivity.
  - exact V2.
  - exact Hok.
  - assert (Hgoal : zlen (raw_cells buf') = cb_len cb + Z.of_nat (length new) /\
                    map g cs ++ new = view (raw_cells buf') (grow_present (cb_present cb) (cb_len cb) (length new))).
    { rewrite Hraw. split.
      - rewrite zlen_app, zlen_map, Hc1. reflexivity.
      - rewrite V1. rewrite view_map by exact Hg. now rewrite <- Hc2. }
    destruct buf'; [congruence|exact Hgoal..].
Qed.

Lemma inv_append_id cb k cs buf' new :
  Inv cb k cs -> cb_buf cb <> TEmpty ->
  raw_cells buf' = raw_cells (cb_buf cb) ++ new ->
  buf_ok buf' -> buf' <> TEmpty ->
  Inv (finish_push cb buf' (cb_present cb) None (length new)) (kind_of buf') (cs ++ new).
Proof.
  intros HI Hne Hraw Hok Hne'.
  pose proof (inv_append cb k cs buf' new (fun c => c) HI Hne eq_refl) as H.
  rewrite !map_id in H. now apply H.
Qed.

(* the first values of a buffer that was empty *)
Lemma inv_first cb cs buf' (ph new : list cell) :
  Inv cb KEmpty cs -> cb_buf cb = TEmpty ->
  raw_cells buf' = ph ++ new -> zlen ph = cb_len cb ->
  buf_ok buf' -> buf' <> TEmpty ->
  Inv (finish_push cb buf' (init_present_empty cb) None (length new)) (kind_of buf') (cs ++ new).
Proof.
  intros [Il Ik Iw Io Ic] He Hraw Hph Hok Hne'. rewrite He in Ic. destruct Ic as [Ip Ic].
  assert (H0 : 0 <= cb_len cb) by (rewrite Il; apply zlen_nonneg).
  destruct (view_first_values ph new (cb_len cb) H0 Hph) as [V1 V2]. cbn zeta in V1, V2.
  unfold finish_push, push_present, init_present_empty. cbn [cb_buf cb_len cb_present]. rewrite Ip.
  assert (Hp : match (if 0 <? cb_len cb then Some (repeat 0 (Z.to_nat (cb_len cb / 8))) else None) with
               | Some all => Some (bv_set_run all (cb_len cb) (length new))
               | None => None
               end = grow_present (if 0 <? cb_len cb then Some (repeat 0 (Z.to_nat (cb_len cb / 8))) else None)
                                  (cb_len cb) (length new)) by reflexivity.
  rewrite Hp.
  constructor; cbn [cb_buf cb_len cb_present].
  - rewrite zlen_app, Il. reflexivity.
  - reflexivity.
  - exact V2.
  - exact Hok.
  - assert (Hgoal : zlen (raw_cells buf') = cb_len cb + Z.of_nat (length new) /\
                    cs ++ new = view (raw_cells buf')
                      (grow_present (if 0 <? cb_len cb then Some (repeat 0 (Z.to_nat (cb_len cb / 8))) else None)
                                    (cb_len cb) (length new))).
    { rewrite Hraw. split.
      - rewrite zlen_app, Hph. reflexivity.
      - rewrite V1. f_equal. rewrite Ic. f_equal.
        unfold zlen in Hph, Il. lia. }
    destruct buf'; [congruence|exact Hgoal..].
Qed.

Lemma zlen_zeros n : 0 <= n -> zlen (zeros n) = n.
Proof. intros H. unfold zeros. rewrite zlen_repeat. lia. Qed.

Lemma inv_len_nonneg cb k cs : Inv cb k cs -> 0 <= cb_len cb.
Proof. intros [Il _ _ _ _]. rewrite Il. apply zlen_nonneg. Qed.

(* ---------------------------------------------------------------------------------------------- *)
(* every push preserves the invariant and follows the specification *)

Theorem push_refines cb k cs op :
  Inv cb k cs -> op_ok k op ->
  let '(k', cs') := spec_push f2s (k, cs) op in
  Inv (push f2s cb op) k' cs'.
Proof.
  intros HI Hop. pose proof (inv_len_nonneg _ _ _ HI) as H0.
  destruct op as [xs np|fs np|ss np|n]; cbn [op_ok] in Hop.
  - (* push_ints *)
    destruct Hop as [-> Hxs]. cbn [push spec_push mask_new]. unfold push_ints.
    destruct (cb_buf cb) as [|values|data st|data|data] eqn:Eb;
      pose proof (inv_kind _ _ _ HI) as Hk; rewrite Eb in Hk; cbn in Hk; subst k.
    + replace (length xs) with (length (map CInt xs)) by apply map_length.
      apply (inv_first cb cs (TInt (zeros (cb_len cb) ++ xs) (istats_push_all istats_init (zeros (cb_len cb) ++ xs)))
                       (map CInt (zeros (cb_len cb))) (map CInt xs) HI Eb).
      * cbn. now rewrite map_app.
      * rewrite zlen_map. now apply zlen_zeros.
      * cbn. split; [reflexivity|]. apply i64s_app; [apply i64s_zeros|exact Hxs].
      * discriminate.
    + replace (length xs) with (length (map (fun i => CStr (i64_to_string i)) xs)) by apply map_length.
      apply (inv_append_id cb KStr cs (TMixed (map RStr values ++ map RInt xs)) _ HI);
        [rewrite Eb; discriminate| | |discriminate].
      * rewrite Eb. cbn. rewrite mixed_strings_app, mixed_strings_rstr, mixed_strings_rint.
        rewrite map_app, map_map. reflexivity.
      * pose proof (inv_ok _ _ _ HI) as Ho. rewrite Eb in Ho. cbn in Ho. cbn.
        rewrite mixed_strings_app, mixed_strings_rstr, mixed_strings_rint.
           apply short_app; [exact Ho|apply short_map; apply i64_to_string_short].
    + replace (length xs) with (length (map CInt xs)) by apply map_length.
      apply (inv_append_id cb KInt cs (TInt (data ++ xs) (istats_push_all st xs)) _ HI);
        [rewrite Eb; discriminate| | |discriminate].
      * rewrite Eb. cbn. rewrite map_app. reflexivity.
      * pose proof (inv_ok _ _ _ HI) as Ho. rewrite Eb in Ho. cbn in Ho. destruct Ho as [-> Hd]. cbn. split.
        -- symmetry. apply istats_push_all_app.
        -- now apply i64s_app.
    + replace (length xs) with (length (map (fun i => CFloat (i64_to_f64 i)) xs)) by apply map_length.
      apply (inv_append_id cb KFloat cs (TFloat (data ++ map i64_to_f64 xs)) _ HI);
        [rewrite Eb; discriminate| |exact I|discriminate].
      rewrite Eb. cbn. rewrite map_app, map_map. reflexivity.
    + replace (length xs) with (length (map (fun i => CStr (i64_to_string i)) xs)) by apply map_length.
      apply (inv_append_id cb KMixed cs (TMixed (data ++ map RInt xs)) _ HI);
        [rewrite Eb; discriminate| | |discriminate].
      * rewrite Eb. cbn. rewrite mixed_strings_app, mixed_strings_rint.
        rewrite map_app, map_map. reflexivity.
      * pose proof (inv_ok _ _ _ HI) as Ho. rewrite Eb in Ho. cbn in Ho. rename Ho into Ho2. cbn.
        rewrite mixed_strings_app, mixed_strings_rint.
           apply short_app; [exact Ho2|apply short_map; apply i64_to_string_short].
  - (* push_floats *)
    subst np. cbn [push spec_push mask_new]. unfold push_floats.
    destruct (cb_buf cb) as [|values|data st|data|data] eqn:Eb;
      pose proof (inv_kind _ _ _ HI) as Hk; rewrite Eb in Hk; cbn in Hk; subst k.
    + replace (length fs) with (length (map CFloat fs)) by apply map_length.
      apply (inv_first cb cs (TFloat (zeros (cb_len cb) ++ fs)) (map CFloat (zeros (cb_len cb))) (map CFloat fs) HI Eb).
      * cbn. now rewrite map_app.
      * rewrite zlen_map. now apply zlen_zeros.
      * exact I.
      * discriminate.
    + replace (length fs) with (length (map (fun f => CStr (f2s f)) fs)) by apply map_length.
      apply (inv_append_id cb KStr cs (TMixed (map RStr values ++ map RFloat fs)) _ HI);
        [rewrite Eb; discriminate| | |discriminate].
      * rewrite Eb. cbn. rewrite mixed_strings_app, mixed_strings_rstr, mixed_strings_rfloat.
        rewrite map_app, map_map. reflexivity.
      * pose proof (inv_ok _ _ _ HI) as Ho. rewrite Eb in Ho. cbn in Ho. cbn.
        rewrite mixed_strings_app, mixed_strings_rstr, mixed_strings_rfloat.
           apply short_app; [exact Ho|apply short_map; apply f2s_short].
    + replace (length fs) with (length (map CFloat fs)) by apply map_length.
      apply (inv_append cb KInt cs (TFloat (map i64_to_f64 data ++ fs)) _ int_to_float_cell HI);
        [rewrite Eb; discriminate|reflexivity| |exact I|discriminate].
      rewrite Eb. cbn. rewrite map_app, !map_map. reflexivity.
    + replace (length fs) with (length (map CFloat fs)) by apply map_length.
      apply (inv_append_id cb KFloat cs (TFloat (data ++ fs)) _ HI);
        [rewrite Eb; discriminate| |exact I|discriminate].
      rewrite Eb. cbn. rewrite map_app. reflexivity.
    + replace (length fs) with (length (map (fun f => CStr (f2s f)) fs)) by apply map_length.
      apply (inv_append_id cb KMixed cs (TMixed (data ++ map RFloat fs)) _ HI);
        [rewrite Eb; discriminate| | |discriminate].
      * rewrite Eb. cbn. rewrite mixed_strings_app, mixed_strings_rfloat.
        rewrite map_app, map_map. reflexivity.
      * pose proof (inv_ok _ _ _ HI) as Ho. rewrite Eb in Ho. cbn in Ho. rename Ho into Ho2. cbn.
        rewrite mixed_strings_app, mixed_strings_rfloat.
           apply short_app; [exact Ho2|apply short_map; apply f2s_short].
  - (* push_strings *)
    destruct Hop as [-> Hss]. cbn [push spec_push mask_new]. unfold push_strings.
    destruct (cb_buf cb) as [|values|data st|data|data] eqn:Eb;
      pose proof (inv_kind _ _ _ HI) as Hk; rewrite Eb in Hk; cbn in Hk; subst k.
    + replace (length ss) with (length (map CStr ss)) by apply map_length.
      apply (inv_first cb cs (TStr (repeat [] (Z.to_nat (cb_len cb)) ++ ss))
                       (map CStr (repeat [] (Z.to_nat (cb_len cb)))) (map CStr ss) HI Eb).
      * cbn. now rewrite map_app.
      * rewrite zlen_map, zlen_repeat. lia.
      * cbn. apply short_app; [apply short_repeat_nil|exact Hss].
      * discriminate.
    + replace (length ss) with (length (map CStr ss)) by apply map_length.
      apply (inv_append_id cb KStr cs (TStr (values ++ ss)) _ HI);
        [rewrite Eb; discriminate| | |discriminate].
      * rewrite Eb. cbn. rewrite map_app. reflexivity.
      * pose proof (inv_ok _ _ _ HI) as Ho. rewrite Eb in Ho. cbn in Ho. cbn. now apply short_app.
    + replace (length ss) with (length (map CStr ss)) by apply map_length.
      apply (inv_append cb KInt cs (TMixed (map (fun i => RStr (i64_to_string i)) data ++ map RStr ss)) _
                        (to_string_cell f2s) HI);
        [rewrite Eb; discriminate|reflexivity| | |discriminate].
      * rewrite Eb. cbn. rewrite mixed_strings_app, mixed_strings_rstr.
        replace (map (fun i => RStr (i64_to_string i)) data) with (map RStr (map i64_to_string data))
          by (now rewrite map_map).
        rewrite mixed_strings_rstr. rewrite map_app, !map_map. reflexivity.
      * cbn.
        rewrite mixed_strings_app, mixed_strings_rstr.
           replace (map (fun i => RStr (i64_to_string i)) data) with (map RStr (map i64_to_string data))
             by (now rewrite map_map).
           rewrite mixed_strings_rstr.
           apply short_app; [apply short_map; apply i64_to_string_short|exact Hss].
    + replace (length ss) with (length (map CStr ss)) by apply map_length.
      apply (inv_append cb KFloat cs (TMixed (map (fun f => RStr (f2s f)) data ++ map RStr ss)) _
                        (to_string_cell f2s) HI);
        [rewrite Eb; discriminate|reflexivity| | |discriminate].
      * rewrite Eb. cbn. rewrite mixed_strings_app, mixed_strings_rstr.
        replace (map (fun f => RStr (f2s f)) data) with (map RStr (map f2s data)) by (now rewrite map_map).
        rewrite mixed_strings_rstr. rewrite map_app, !map_map. reflexivity.
      * cbn.
        rewrite mixed_strings_app, mixed_strings_rstr.
           replace (map (fun f => RStr (f2s f)) data) with (map RStr (map f2s data)) by (now rewrite map_map).
           rewrite mixed_strings_rstr.
           apply short_app; [apply short_map; apply f2s_short|exact Hss].
    + replace (length ss) with (length (map CStr ss)) by apply map_length.
      apply (inv_append cb KMixed cs (TMixed (data ++ map RStr ss)) _ (to_string_cell f2s) HI);
        [rewrite Eb; discriminate|reflexivity| | |discriminate].
      * rewrite Eb. cbn. rewrite mixed_strings_app, mixed_strings_rstr.
        rewrite map_app, map_map. reflexivity.
      * pose proof (inv_ok _ _ _ HI) as Ho. rewrite Eb in Ho. cbn in Ho. rename Ho into Ho2. cbn.
        rewrite mixed_strings_app, mixed_strings_rstr. now apply short_app.
  - (* push_nulls *)
    rename Hop into Hn. cbn [push spec_push]. unfold push_nulls.
    destruct HI as [Il Ik Iw Io Ic].
    destruct (cb_buf cb) as [|values|data st|data|data] eqn:Eb; cbn in Ik; subst k.
    + destruct Ic as [Ip Ic]. constructor; cbn [cb_buf cb_len cb_present].
      * rewrite zlen_app, zlen_repeat, Il. lia.
      * reflexivity.
      * now rewrite Ip.
      * exact I.
      * split; [exact Ip|]. rewrite app_length, repeat_length. rewrite Ic at 1.
        rewrite repeat_app_eq. reflexivity.
    + destruct Ic as [Ic1 Ic2]. cbn [raw_cells] in Ic1, Ic2.
      destruct (view_push_nulls (map CStr values) (map CStr (repeat [] (Z.to_nat n))) (cb_present cb) (cb_len cb) H0 Ic1 Iw)
        as [V1 V2]. cbn zeta in V1, V2. rewrite map_length, repeat_length in V1.
      rewrite zlen_map, zlen_repeat, Z2Nat.id in V2 by lia.
      constructor; cbn [cb_buf cb_len cb_present raw_cells kind_of].
      * rewrite zlen_app, zlen_repeat, Il. lia.
      * reflexivity.
      * exact V2.
      * cbn. cbn in Io. apply short_app; [exact Io|apply short_repeat_nil].
      * split; [rewrite zlen_map, zlen_app, zlen_repeat; rewrite zlen_map in Ic1; lia|].
        rewrite map_app. rewrite Ic2 at 1. symmetry. exact V1.
    + destruct Ic as [Ic1 Ic2]. cbn [raw_cells] in Ic1, Ic2.
      destruct (view_push_nulls (map CInt data) (map CInt (repeat 0 (Z.to_nat n))) (cb_present cb) (cb_len cb) H0 Ic1 Iw)
        as [V1 V2]. cbn zeta in V1, V2. rewrite map_length, repeat_length in V1.
      rewrite zlen_map, zlen_repeat, Z2Nat.id in V2 by lia.
      constructor; cbn [cb_buf cb_len cb_present raw_cells kind_of].
      * rewrite zlen_app, zlen_repeat, Il. lia.
      * reflexivity.
      * exact V2.
      * cbn. cbn in Io. destruct Io as [-> Hd]. split; [symmetry; apply istats_push_all_app|].
        apply i64s_app; [exact Hd|apply i64s_zeros].
      * split; [rewrite zlen_map, zlen_app, zlen_repeat; rewrite zlen_map in Ic1; lia|].
        rewrite map_app. rewrite Ic2 at 1. symmetry. exact V1.
    + destruct Ic as [Ic1 Ic2]. cbn [raw_cells] in Ic1, Ic2.
      destruct (view_push_nulls (map CFloat data) (map CFloat (repeat 0 (Z.to_nat n))) (cb_present cb) (cb_len cb) H0 Ic1 Iw)
        as [V1 V2]. cbn zeta in V1, V2. rewrite map_length, repeat_length in V1.
      rewrite zlen_map, zlen_repeat, Z2Nat.id in V2 by lia.
      constructor; cbn [cb_buf cb_len cb_present raw_cells kind_of].
      * rewrite zlen_app, zlen_repeat, Il. lia.
      * reflexivity.
      * exact V2.
      * exact I.
      * split; [rewrite zlen_map, zlen_app, zlen_repeat; rewrite zlen_map in Ic1; lia|].
        rewrite map_app. rewrite Ic2 at 1. symmetry. exact V1.
    + (* Mixed (until /repo f5be0e2 only push_nulls(0) was in the domain: finding F4) *)
      destruct Ic as [Ic1 Ic2]. cbn [raw_cells] in Ic1, Ic2.
      destruct (view_push_nulls (map CStr (mixed_strings f2s data)) (map CStr (repeat [] (Z.to_nat n)))
                                (cb_present cb) (cb_len cb) H0 Ic1 Iw) as [V1 V2].
      cbn zeta in V1, V2. rewrite map_length, repeat_length in V1.
      rewrite zlen_map, zlen_repeat, Z2Nat.id in V2 by lia.
      constructor; cbn [cb_buf cb_len cb_present raw_cells kind_of].
      * rewrite zlen_app, zlen_repeat, Il. lia.
      * reflexivity.
      * exact V2.
      * cbn. cbn in Io. rewrite mixed_strings_app, mixed_strings_rnull.
        apply short_app; [exact Io|apply short_repeat_nil].
      * rewrite mixed_strings_app, mixed_strings_rnull.
        split; [rewrite zlen_map, zlen_app, zlen_repeat; rewrite zlen_map in Ic1; lia|].
        rewrite map_app. rewrite Ic2 at 1. symmetry. exact V1.
Qed.

End WithF2S.
