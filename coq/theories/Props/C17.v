(* C17 — The HTTP interface behaves like the embedded one: response encoders and error mapping.
   Gen/ServerMap.v is regenerated from src/errors.rs and src/server/mod.rs on every run. *)
From Coq Require Import ZArith NArith List Bool.
From LV Require Import Model.XorFloat Model.Server Proofs.Server Gen.ServerMap.
Import ListNotations.

(* binary responses without float compression: for every column kind and every mix of value types
   in a Mixed column (all 15 type signatures) the client reads exactly the embedded cells *)
Theorem C17_binary_equiv :
  forall (o : encoding_opts) (c : basic_column),
    xor_float_compression o = false ->
    client_cells (encode_column o c) = Some (basic_cells c).
Proof. exact encode_column_cells. Qed.

(* binary responses with XOR float compression: the floats the client decodes agree with the
   embedded ones on every bit the requested mantissa keeps (all 64 bits when none is requested) *)
Theorem C17_binary_xor_equiv :
  forall (o : encoding_opts) (fs : list N) (mask : N),
    xor_float_compression o = true -> mask_of (mantissa o) = Some mask ->
    Forall (fun f => (f < 2 ^ 64)%N) fs -> (N.of_nat (length fs) < 2 ^ 64)%N ->
    exists bytes ds,
      encode_floats o fs = AXor (Some bytes) /\ decode_bytes bytes = Some ds /\
      Forall2 (fun f x => N.land x mask = N.land f mask) fs ds.
Proof. exact encode_floats_xor. Qed.

(* every query error maps to a 4xx/5xx status (over the regenerated variant list and arms) *)
Theorem C17_error_status :
  forall e : query_error, exists s, status_of e = Some s /\ (400 <= s < 600)%N.
Proof. intros e; destruct e; eexists; (split; [reflexivity|]); split; vm_compute; congruence. Qed.

(* every query endpoint passes query errors through that mapping (none unwraps the result) *)
Theorem C17_endpoints_map_errors :
  forall ep : endpoint, endpoint_maps_errors ep = true.
Proof. intros ep; destruct ep; reflexivity. Qed.

Example C17_example :
  let o := {| xor_float_compression := false; mantissa := None |} in
  encode_column o (BMixed [RFloat 4609434218613702656; RNull; RFloat 0]) =
    AFloat [4609434218613702656; null_nan; 0]%N /\
  encode_column o (BMixed [RInt 1; RStr [97]%N]) = AMixed [RInt 1; RStr [97]%N] /\
  encode_column o (BMixed [RNull; RNull]) = ANull 2.
Proof. vm_compute. repeat split. Qed.
