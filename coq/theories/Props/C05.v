(* C05 — ORDER BY, LIMIT and OFFSET return the right rows in the right order.
   (models transcribed at /repo HEAD 1c4a1c7)
   Property theorems only.  Model/SortKernels.v transcribes merge.rs, merge_keep.rs, the select
   branch of batch_merging::combine and the final slice of query_task.rs; it is tied to the Rust
   kernels by the lv_query harness (suite c05_kernel) and the whole path is checked against
   Model/QuerySpec.v through LocustDB::run_query (suite c05_order) on every run.

   The comparator is a parameter: [le] is Comparator::cmp_eq (CmpLessThan / CmpGreaterThan on the
   key type, NULL placed by the comparator on Val / fused sentinels); the theorems hold for every
   total and transitive [le]. *)
From Coq Require Import NArith ZArith Arith List Bool Permutation Sorting.Sorted.
From LV Require Import Model.QuerySpec Model.SortKernels Proofs.SortKernels Proofs.QuerySpec.
Import ListNotations.

Section C05.
  Context {A : Type}.
  Variable le : A -> A -> bool.
  Hypothesis le_total : forall x y, le x y = true \/ le y x = true.
  Hypothesis le_trans : forall x y z, le x y = true -> le y z = true -> le x z = true.

  (* merge with limit: the merged key column is the first [limit] elements of the stable merge of
     the inputs (no index arithmetic can fail in the model: the loops are structural) ... *)
  Theorem C05_merge_limit :
    forall (l r : list A) (limit : N),
      fst (merge le l r limit) = firstn (N.to_nat limit) (mspec le l r).
  Proof. exact (merge_is_prefix_of_stable_merge le). Qed.

  (* ... which is sorted and a permutation of both inputs *)
  Theorem C05_stable_merge_sorted :
    forall l r, sorted le l -> sorted le r ->
                sorted le (mspec le l r) /\ Permutation (mspec le l r) (l ++ r).
  Proof. intros l r Hl Hr. split; [apply mspec_sorted; assumption|apply mspec_perm]. Qed.

  (* the relation of the property: [topk k rows out] = out is sorted, has min(k, |rows|) rows, and
     every row left out is >= every row kept (so every row strictly before the cut-off is present;
     ties are free).  Merging two correct partial answers gives a correct answer for the
     concatenation ... *)
  Theorem C05_merge_preserves_topk :
    forall (k : nat) (a b x y : list A),
      topk le k a x -> topk le k b y -> topk le k (a ++ b) (firstn k (mspec le x y)).
  Proof. exact (topk_merge le le_total le_trans). Qed.

  (* ... a sorted partition cut at k is a correct partial answer ... *)
  Theorem C05_sort_then_limit :
    forall (k : nat) (rows s : list A), sorted le s -> Permutation s rows -> topk le k rows (firstn k s).
  Proof. exact (topk_of_sorted le). Qed.

  (* ... hence (C05_spec) per-partition (sort | top-n) followed by ANY binary merge tree with
     `merge` satisfies the relation for the whole table *)
  Theorem C05_spec :
    forall (limit : N) (t : rtree),
      leaves_ok le (N.to_nat limit) t ->
      topk le (N.to_nat limit) (rtree_rows t) (rtree_out le limit t).
  Proof. exact (topk_any_tree le le_total le_trans). Qed.
End C05.

(* the other projected / sort columns are carried by replaying the merge ops: merging the key column
   and applying merge_keep to a payload column is the same as merging whole rows by key *)
Theorem C05_merge_keep_aligns_rows :
  forall (A B : Type) (le : A -> A -> bool) (n : nat) (l r : list A) (pl pr : list B),
    length pl = length l -> length pr = length r ->
    let '(m, ops) := merge_n le n l r in
    let '(mrows, ops') := merge_n (le_row le) n (combine l pl) (combine r pr) in
    ops' = ops /\ map fst mrows = m /\ merge_keep ops pl pr = Some (map snd mrows).
Proof. intros A B le n l r pl pr. apply merge_keep_rows. Qed.

(* without ORDER BY the result is the ingestion-order prefix, for every merge tree *)
Theorem C05_no_order :
  forall (B : Type) (limit : N) (t : @stree B),
    stree_out limit t = firstn (N.to_nat limit) (stree_rows t).
Proof. intros B. exact (@select_any_tree B). Qed.

(* the final slice (query_task.rs convert_to_output_format, after fix 0df51a0) is TOTAL and returns rows
   offset+1 .. offset+limit, fewer or none when the result is shorter: C05_slice_total now holds
   (finding F5 fixed) ... *)
Theorem C05_slice_total :
  forall (B : Type) (limit offset : N) (rows : list B),
    final_slice limit offset rows = firstn (N.to_nat limit) (skipn (N.to_nat offset) rows).
Proof. intros B. exact (@final_slice_spec B). Qed.

(* ... it is exactly the LIMIT / OFFSET window of the specification (Model/QuerySpec.v) ... *)
Theorem C05_slice_is_spec_window :
  forall (B : Type) (limit offset : N) (rows : list B),
    final_slice limit offset rows = QuerySpec.window offset (Some limit) rows.
Proof. intros B. exact (@final_slice_is_window B). Qed.

(* ... and limit + offset (each partition keeps that many rows) saturates instead of overflowing *)
Theorem C05_combined_limit_total :
  forall limit offset,
    (combined_limit limit offset <= u64_max)%N /\
    ((limit + offset <= u64_max)%N -> combined_limit limit offset = (limit + offset)%N).
Proof. intros limit offset. split; [apply combined_limit_bounded|apply combined_limit_exact]. Qed.

(* non-vacuity: the hypotheses are satisfiable (Z.leb), and a concrete merge with limit *)
Example C05_example_Z :
  (forall x y, Z.leb x y = true \/ Z.leb y x = true) /\
  (forall x y z, Z.leb x y = true -> Z.leb y z = true -> Z.leb x z = true) /\
  merge Z.leb [1; 3; 3; 9]%Z [2; 3; 10]%Z 5 = ([1; 2; 3; 3; 3]%Z, [true; false; true; true; false]) /\
  merge_keep [true; false; true; true; false] [10; 11; 12; 13]%nat [20; 21; 22]%nat = Some [10; 20; 11; 12; 21]%nat.
Proof.
  split; [intros x y; rewrite !Z.leb_le; apply Z.le_ge_cases|].
  split; [intros x y z; rewrite !Z.leb_le; apply Z.le_trans|].
  split; reflexivity.
Qed.
