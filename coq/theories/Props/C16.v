(* C16 — Client/server encodings are lossless.  Property theorems only: each is closed by
   [exact <lemma>] so that the statement is what is pinned.  Print Assumptions is run by the
   driver's audit file on every check. *)
From Coq Require Import NArith List.
From LV Require Import Model.XorFloat Proofs.XorFloat.
Import ListNotations.
Open Scope N_scope.

(* XOR float coder, full precision: for every list of 64-bit patterns and every max_regret the
   decoder returns the input bit for bit (whatever follows the stream, e.g. byte padding). *)
Theorem C16_xor_roundtrip :
  forall (maxr : N) (fs : list N) (bits pad : list bool),
    Forall (fun f => f < 2 ^ 64) fs -> N.of_nat (length fs) < 2 ^ 64 ->
    encode all_ones maxr fs = Some bits ->
    decode (bits ++ pad) = Some fs.
Proof.
  intros maxr fs bits pad HF Hl E.
  rewrite (decode_encode_suffix all_ones maxr fs bits pad HF Hl E).
  f_equal. exact (expected_all_ones fs HF).
Qed.

(* The encoder cannot panic (u32 arithmetic on the regret counter) unless max_regret is within 62
   of u32::MAX. *)
Theorem C16_xor_encode_total :
  forall (mask maxr : N) (fs : list N),
    Forall (fun f => f < 2 ^ 64) fs -> maxr + 62 <= u32_max ->
    exists bits, encode mask maxr fs = Some bits.
Proof. exact encode_total. Qed.

(* Reduced mantissa: the decoder returns, for every position, a value that agrees with the input on
   every bit the mask keeps ... *)
Theorem C16_xor_mantissa :
  forall (m mask maxr : N) (fs : list N) (bits pad : list bool),
    mask_of (Some m) = Some mask ->
    Forall (fun f => f < 2 ^ 64) fs -> N.of_nat (length fs) < 2 ^ 64 ->
    encode mask maxr fs = Some bits ->
    exists ds, decode (bits ++ pad) = Some ds /\
               Forall2 (fun f x => N.land x mask = N.land f mask) fs ds.
Proof.
  intros m mask maxr fs bits pad _ HF Hl E.
  exists (expected mask fs). split.
  - exact (decode_encode_suffix mask maxr fs bits pad HF Hl E).
  - exact (expected_masked mask fs).
Qed.

(* ... and the kept bits are exactly sign, exponent and the m leading mantissa bits. *)
Theorem C16_xor_mantissa_bits :
  forall (m mask f x : N),
    mask_of (Some m) = Some mask -> f < 2 ^ 64 -> x < 2 ^ 64 ->
    N.land x mask = N.land f mask ->
    N.shiftr x (52 - m) = N.shiftr f (52 - m).
Proof. exact mask_keeps_top. Qed.

(* non-vacuity: a concrete sequence with repeats, a sign flip, a NaN payload and a subnormal *)
Example C16_xor_example :
  let fs := [4607182418800017408; 4607182418800017408; 13830554455654793216;
             9221120237041090561; 1; 0; 4607182418800017409] in
  exists bits, encode all_ones 100 fs = Some bits /\ decode bits = Some fs /\
               Nat.ltb 128 (length bits) = true.
Proof. eexists. split; [vm_compute; reflexivity|]. split; vm_compute; reflexivity. Qed.
