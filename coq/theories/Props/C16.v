(* C16 — Client/server encodings are lossless.  Property theorems only: each is closed by
   [exact <lemma>] so that the statement is what is pinned.  Print Assumptions is run by the
   driver's audit file on every check. *)
From Coq Require Import NArith ZArith List.
From LV Require Import Model.XorFloat Proofs.XorFloat Model.IntResponse Proofs.IntResponse Model.EventBuf Proofs.EventBuf.
From LV Require Import Model.Routing Model.EventWire Proofs.EventWire.
Import ListNotations.
Open Scope N_scope.

(* XOR float coder, full precision: for every list of 64-bit patterns and every max_regret the
   decoder returns the input bit for bit (whatever follows the stream, e.g. byte padding). *)
Theorem C16_xor_roundtrip :
  forall (maxr : N) (fs : list N) (bits pad : list bool),
    Forall (fun f => f < 2 ^ 64) fs -> N.of_nat (length fs) < 2 ^ 64 ->
    XorFloat.encode all_ones maxr fs = Some bits ->
    XorFloat.decode (bits ++ pad) = Some fs.
Proof.
  intros maxr fs bits pad HF Hl E.
  rewrite (decode_encode_suffix all_ones maxr fs bits pad HF Hl E).
  f_equal. exact (expected_all_ones fs HF).
Qed.

(* The encoder cannot panic (u32 arithmetic on the regret counter) unless max_regret is within 62
   of u32::MAX. *)
Theorem C16_xor_encode_total :
  forall (mask maxr : N) (fs : list N),
    Forall (fun f => f < 2 ^ 64) fs -> maxr + 62 <= u32_max ->
    exists bits, XorFloat.encode mask maxr fs = Some bits.
Proof. exact encode_total. Qed.

(* Reduced mantissa: the decoder returns, for every position, a value that agrees with the input on
   every bit the mask keeps ... *)
Theorem C16_xor_mantissa :
  forall (m mask maxr : N) (fs : list N) (bits pad : list bool),
    mask_of (Some m) = Some mask ->
    Forall (fun f => f < 2 ^ 64) fs -> N.of_nat (length fs) < 2 ^ 64 ->
    XorFloat.encode mask maxr fs = Some bits ->
    exists ds, XorFloat.decode (bits ++ pad) = Some ds /\
               Forall2 (fun f x => N.land x mask = N.land f mask) fs ds.
Proof.
  intros m mask maxr fs bits pad _ HF Hl E.
  exists (expected mask fs). split.
  - exact (decode_encode_suffix mask maxr fs bits pad HF Hl E).
  - exact (expected_masked mask fs).
Qed.

(* ... and the kept bits are exactly sign, exponent and the m leading mantissa bits. *)
Theorem C16_xor_mantissa_bits :
  forall (m mask f x : N),
    mask_of (Some m) = Some mask -> f < 2 ^ 64 -> x < 2 ^ 64 ->
    N.land x mask = N.land f mask ->
    N.shiftr x (52 - m) = N.shiftr f (52 - m).
Proof. exact mask_keeps_top. Qed.

Open Scope Z_scope.
(* Integer response columns: every list of i64 values decodes to itself through whichever of the
   eight layouts (range, delta i8/i16/i32, double-delta i8/i16/i32, plain) the encoder picks, and
   the encoder's narrowing conversions never fail.  (Model of the code after fix 6c5a64e; before
   it the unchecked differences overflowed, see known_findings.json F15.) *)
Theorem C16_int_roundtrip :
  forall xs : list Z, Forall in_i64 xs -> roundtrip xs = Some xs.
Proof. exact roundtrip_ok. Qed.

Example C16_int_example :
  (* layouts actually taken: range, delta-i8, double-delta-i8, plain with a wrapped difference *)
  (exists s n d, IntResponse.encode [10; 13; 16; 19] = Some (LRange s n d)) /\
  (exists f d, IntResponse.encode [5; 7; 6; 9] = Some (LDelta W8 f d)) /\
  (exists f g d, IntResponse.encode [0; 1000; 2001; 3003; 4006] = Some (LDD W8 f g d)) /\
  roundtrip [-9223372036854775808; 9223372036854775807; 0] =
    Some [-9223372036854775808; 9223372036854775807; 0].
Proof. repeat split; try (vm_compute; eauto). Qed.

Close Scope Z_scope.

(* Row API of the binary ingestion message (client side): one push extends what a column buffer
   denotes by exactly the pushed cell; when an integer column receives a float the cells already
   there become floats (documented degradation), nothing else changes, rows are never shifted.
   [i2f] is Rust's `i64 as f64`, a parameter. *)
Theorem C16_event_push :
  forall (i2f : Z -> N) (d : coldata) (v : anyval) (len : nat) (d' : coldata),
    wf d len -> push i2f d v len = Pushed d' ->
    wf d' (S len) /\
    denote d' (S len) = map (degrade i2f d d') (denote d len) ++ [cell_of i2f d' v].
Proof. exact push_ok. Qed.

(* ... hence, for EVERY sequence of rows the row API accepts (by induction over the history), the
   column buffer it ends with denotes exactly the pushed cells, row for row: nothing lost, nothing
   shifted, NULL where a row did not mention the column, integers shown as floats iff the column
   ended up a float column *)
Theorem C16_event_rows :
  forall (i2f : Z -> N) (cells : list (option anyval)) (d' : coldata),
    push_rows i2f CEmpty 0 cells = Pushed d' ->
    denote d' (length cells) = map (cellc i2f d') cells.
Proof. exact push_rows_ok. Qed.

Example C16_event_rows_example :
  (* late start (sparse), a gap, then a float arriving in an integer column *)
  exists d', push_rows (fun i => Z.to_N (i + 1000)) CEmpty 0
               [None; Some (VInt 5); None; Some (VInt 7); Some (VFloat 42%N)] = Pushed d' /\
             denote d' 5 = [XNone; XFloat 1005%N; XNone; XFloat 1007%N; XFloat 42%N].
Proof. eexists. split; vm_compute; reflexivity. Qed.

(* ... and the pushes the client library rejects (assert!/unimplemented!) are exactly: strings into
   numeric columns and numbers into string columns, a string that would make a string column sparse,
   anything into a Mixed column *)
Theorem C16_event_push_rejects :
  forall (i2f : Z -> N) (d : coldata) (v : anyval) (len : nat),
    push i2f d v len = PushPanic <->
    match v, d with
    | VNull, _ => False
    | _, CMixed _ => True
    | VStr _, CEmpty => len <> 0%nat
    | VStr _, CString data => length data <> len
    | VStr _, _ => True
    | (VInt _ | VFloat _), CString _ => True
    | _, _ => False
    end.
Proof. exact push_panics_iff. Qed.

(* non-vacuity: a concrete sequence with repeats, a sign flip, a NaN payload and a subnormal *)
Example C16_xor_example :
  let fs := [4607182418800017408; 4607182418800017408; 13830554455654793216;
             9221120237041090561; 1; 0; 4607182418800017409] in
  exists bits, XorFloat.encode all_ones 100 fs = Some bits /\ XorFloat.decode bits = Some fs /\
               Nat.ltb 128 (length bits) = true.
Proof. eexists. split; [vm_compute; reflexivity|]. split; vm_compute; reflexivity. Qed.

(* ---------- the binary event-buffer message (ingestion request; also the payload of WAL segments),
   at capnp FIELD level ---------- *)

(* every representation of a column -- empty, dense / sparse floats, dense / sparse integers, strings,
   mixed cells -- goes through the message unchanged *)
Theorem C16_event_wire_column :
  forall d : coldata, de_data (ser_data d) = d.
Proof. exact de_ser_data. Qed.

(* the message is lossless: a buffer whose tables have distinct names and whose columns have distinct
   names within a table (they are hash maps) comes out of the reader exactly as it went into the writer,
   table by table, with its row count, column by column, value by value *)
Theorem C16_event_wire_roundtrip :
  forall e : event_buf,
    NoDup (map fst e) -> cols_distinct e -> EventWire.deserialize (EventWire.serialize e) = e.
Proof. exact event_wire_roundtrip. Qed.

(* messages not produced by the writer: a sparse column whose index and value lists differ in length
   is cut to the shorter; a repeated table / column name denotes the later entry and leaves every other
   name alone *)
Theorem C16_event_wire_sparse_truncates :
  forall i v, de_data (MSparseF64 i v) = CSparse (combine i v) /\
              length (combine i v) = Nat.min (length i) (length v).
Proof. exact de_sparse_truncates. Qed.

Theorem C16_event_wire_later_entry_wins :
  forall (B : Type) k (v : B) l, alookup k (aput k v l) = Some v.
Proof. intros B k v l. apply aput_lookup. Qed.

Theorem C16_event_wire_other_entries_kept :
  forall (B : Type) k k' (v : B) l, k <> k' -> alookup k' (aput k v l) = alookup k' l.
Proof. intros B k k' v l Hne. apply aput_lookup_other. exact Hne. Qed.

Example C16_event_wire_example :
  let t := {| tb_len := 3;
              tb_cols := [([97], CSparse [(0%nat, 5); (2%nat, 7)]); ([98], CString [[120]; []; [121]]);
                          ([99], CMixed [VInt (-1)%Z; VNull; VStr [122]])] |} in
  EventWire.deserialize (EventWire.serialize [([116], t); ([117], {| tb_len := 0; tb_cols := [] |})]) =
    [([116], t); ([117], {| tb_len := 0; tb_cols := [] |})] /\
  de_data (MSparseI64 [1%nat; 2%nat; 3%nat] [10%Z]) = CSparseI64 [(1%nat, 10%Z)].
Proof. vm_compute. split; reflexivity. Qed.
