(* C11 — Every call completes; a failing request does not damage the database.
   Theorems about the scheduler bookkeeping model (Model/PoolSM.v): the damage state machine that
   the canary differential runs against the real database, the task queue, and the force_flush
   hand-shake.  Real thread interleavings are outside the model: "completes" is a statement about
   iterations of a live worker / the flush thread (fairness is the premise, fuel its measure). *)
From Coq Require Import NArith List Bool Arith Lia.
From LV Require Import Model.PoolSM Proofs.PoolSM Gen.PanicSites.
Import ListNotations.

(* requests that return VALUES — results or error values of any kind — leave the worker pool, the
   locks and the flush thread exactly as they were, for every sequence of rounds of concurrent
   requests; and after every round all four canaries (query, ingestion, force_flush, stats) succeed *)
Theorem C11_errors_preserve_state :
  forall rounds d,
    healthy d = true ->
    (forall rd r o, In rd rounds -> In (r, o) rd -> o = OOk \/ o = OErr) ->
    run d rounds = (d, map (fun _ => all_ok) rounds).
Proof.
  intros rounds d H V. apply values_preserve; [exact H|].
  apply forallb_forall. intros rd I. apply forallb_forall. intros [r o] I2.
  destruct (V rd r o I I2) as [-> | ->]; reflexivity.
Qed.

(* a single value-returning request changes nothing in ANY state (also a damaged one) *)
Theorem C11_value_is_no_op :
  forall d r o, o = OOk \/ o = OErr -> apply_obs d r o = d.
Proof. intros d r o [-> | ->]; reflexivity. Qed.

(* progress of the pool: while a live worker keeps iterating and no task panics, the queue drains
   within `measure` iterations and every scheduled task has answered its caller *)
Theorem C11_progress :
  forall s fuel, measure (pq s) <= fuel ->
    pq (Nat.iter fuel worker_iter s) = [] /\
    (forall t p, In (t, p) (pq s) -> In t (pdone (Nat.iter fuel worker_iter s))) /\
    incl (pdone s) (pdone (Nat.iter fuel worker_iter s)).
Proof.
  intros s fuel M. destruct (progress fuel s M) as [E D].
  repeat split; auto. apply iter_done_grows.
Qed.

(* the refutation side: the unguarded statement "a failing request leaves the database able to
   serve the next one" is false in the model as soon as a request panics in a pool thread: the
   worker is lost, and with the last worker gone every later query hangs (witness: one worker,
   one request whose task panics - still reachable on the repaired tree: SELECT SUM(i) +
   9223372036854775807 (finding F27), a constant select item (F32), ORDER BY a nullable column
   with a small LIMIT (F23)) *)
Theorem C11_panic_damages :
  let d := {| alive := 1; ingest_poisoned := false; table_poisoned := false; flush_dead := false |} in
  healthy d = true /\
  run d [[(RQuery, OCanceled 1)]; [(RQuery, OOk)]]
  = ({| alive := 0; ingest_poisoned := false; table_poisoned := false; flush_dead := false |},
     [[OOk; OOk; OHang 0 HNone]]).
Proof. vm_compute. split; reflexivity. Qed.

Theorem C11_pool_panics_lose_workers :
  forall k d, alive (apply_round d (repeat (RQuery, OCanceled 1) k)) = alive d - k.
Proof. exact pool_panics_lose_workers. Qed.

(* a panicking flush job (still reachable: compaction of a hex-packed string column, finding F2)
   leaves wal_flush waiting forever: this and every later force_flush never return, everything
   else keeps working *)
Theorem C11_flush_job_panic_damages :
  forall a, a <> 0 ->
  let d := {| alive := a; ingest_poisoned := false; table_poisoned := false; flush_dead := false |} in
  snd (run d [[(RFlush, OHang 0 HNone)]]) = [[OOk; OHang 0 HNone; OOk; OOk]].
Proof.
  intros a H. cbn. destruct a; [contradiction|]. reflexivity.
Qed.

(* what a caller-side panic below ingest_efficient does (it holds the wal_size lock): every later
   ingestion panics and force_flush never returns.  The two reachable instances (F11, F12) are fixed
   (1c4a1c7, 1eb96cd); the statement stays as the model's account of that panic site class *)
Example C11_example_ingest_lock_poison :
  forall a, a <> 0 ->
  let d := {| alive := a; ingest_poisoned := false; table_poisoned := false; flush_dead := false |} in
  snd (run d [[(RIngest, OCallerPanic HIngest)]]) = [[OCallerPanic HNone; OHang 0 HNone; OOk; OOk]].
Proof.
  intros a H. cbn. destruct a; [contradiction|]. reflexivity.
Qed.

(* damage is monotone: a lost worker is never replaced, a poisoned lock never heals, a dead flush
   thread stays dead — whatever requests follow *)
Theorem C11_damage_is_permanent :
  forall rounds d, damage_le d (fst (run d rounds)).
Proof. exact run_monotone. Qed.

(* the canaries are a complete detector of the modelled damage except a partially depleted pool
   (which the harness observes directly through the panic recorder) *)
Theorem C11_canaries_detect :
  forall d, snd (run_canaries d canaries) = all_ok <-> healthy d = true.
Proof.
  intro d. split; [apply canaries_ok_healthy|]. intro H. rewrite healthy_canaries by assumption. reflexivity.
Qed.

(* a panicking task consumes its queue entry and answers nobody *)
Theorem C11_panicking_task_answers_nobody :
  forall s, pdone (worker_iter_panic s) = pdone s.
Proof. exact panic_iter_answers_nobody. Qed.

(* force_flush hand-shake: every caller registered before an iteration of the flush thread is
   answered after the flush of that iteration; a caller registering during it is answered by the
   next one; at shutdown the rest is answered; after a panicking flush job nobody ever is *)
Theorem C11_flush_handshake :
  (forall s forced, stuck s = false -> pending s <> [] ->
     let s' := flush_iter forced false s in
     pending s' = [] /\ flushes s' = S (flushes s) /\ stuck s' = false /\
     forall c, In c (pending s) -> In (c, S (flushes s)) (released s')) /\
  (forall s c forced, stuck s = false -> pending s <> [] ->
     let s1 := trigger (flush_iter forced false s) c in
     pending s1 = [c] /\ In (c, S (S (flushes s))) (released (flush_iter false false s1))) /\
  (forall s, stuck s = false ->
     pending (shutdown s) = [] /\ forall c, In c (pending s) -> exists n, In (c, n) (released (shutdown s))) /\
  (forall s forced, stuck s = false -> pending s <> [] ->
     stuck (flush_iter forced true s) = true /\ released (flush_iter forced true s) = released s) /\
  (forall s forced b, stuck s = true -> flush_iter forced b s = s /\ shutdown s = s).
Proof.
  repeat match goal with |- _ /\ _ => split end.
  - exact flush_answers_pending.
  - exact late_caller_waits_one_more.
  - exact shutdown_answers_all.
  - exact job_panic_sticks.
  - exact stuck_is_forever.
Qed.

(* the panic-site inventory (translator T7, regenerated from /repo on every run): every unwrap /
   expect / panic! / assert! / range slice / LIMIT-OFFSET arithmetic in the request-path files is
   classified - by a rule (lock unwraps fire only after an earlier panic poisoned the lock, see
   C11_errors_preserve_state and C11_damage_is_permanent; send / recv / join unwraps only when the
   peer thread is gone), as guarded, as off the request path, or as a recorded finding.  A new
   construct in those files is Unclassified and breaks this obligation. *)
Theorem C11_sites_classified : forallb PanicSites.classified PanicSites.sites = true.
Proof. vm_compute. reflexivity. Qed.

(* non-vacuity: three tasks with 1, 3 and 0 partitions, one worker: 7 iterations answer all *)
Example C11_example_progress :
  let s := schedule (schedule (schedule {| pq := []; pdone := [] |} 10 1) 11 3) 12 0 in
  measure (pq s) = 7 /\ pdone (Nat.iter 7 worker_iter s) = [12; 11; 10] /\ pq (Nat.iter 7 worker_iter s) = [].
Proof. vm_compute. repeat split. Qed.

Example C11_example_values :
  let d := {| alive := 2; ingest_poisoned := false; table_poisoned := false; flush_dead := false |} in
  run d [[(RQuery, OErr); (RIngest, OOk)]; [(RFlush, OOk); (RStats, OOk); (RQuery, OErr)]]
  = (d, [all_ok; all_ok]).
Proof. vm_compute. reflexivity. Qed.

(* a table lock poisoned by a caller-side panic (the former finding F4, fixed by f5be0e2): table_stats
   kills a worker per call, force_flush kills the flush thread and poisons the ingestion lock on the way *)
Example C11_example_table_poison :
  let d := {| alive := 2; ingest_poisoned := false; table_poisoned := false; flush_dead := false |} in
  snd (run d [[(RIngest, OCallerPanic HTable)]; [(RQuery, OOk)]])
  = [[OOk; OFlushLost; OOk; OCanceled 1]; [OCallerPanic HNone; OHang 0 HNone; OOk; OCanceled 1]].
Proof. vm_compute. reflexivity. Qed.
