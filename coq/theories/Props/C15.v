(* C15 — Each column is found in the file it was written to, under any name.
   Unicode predicates, to_lowercase, the UTF-8 length and sha256 are universally quantified: the
   theorems hold for any tables; only the 32-byte / byte-range shape of the digest is assumed. *)
From Coq Require Import NArith List.
From LV Require Import Model.Routing Proofs.Routing Proofs.RoutingGroups.
Import ListNotations.
Open Scope N_scope.

Section C15.
  Variable u_alnum : N -> bool.
  Variable u_lower : N -> bool.
  Variable to_lowercase : str -> str.
  Variable utf8_len : str -> N.
  Variable sha256 : str -> list N.
  Hypothesis sha_len : forall s, length (sha256 s) = 32%nat.
  Hypothesis sha_bytes : forall s, Forall (fun b => b < 256) (sha256 s).

  Notation subpartition := (subpartition u_alnum u_lower utf8_len sha256).
  Notation sanitize := (sanitize_table_name to_lowercase sha256).
  Notation safe := (is_filesystem_safe u_alnum u_lower utf8_len).

  (* every column is routed to exactly the sub-partition (file) that contains it, for every size
     limit and every size oracle *)
  Theorem C15_route_present :
    forall mx columns i s c, NoDup (names columns) ->
      nth_error (subpartition mx columns) i = Some s -> In c (sp_cols s) ->
      route (subpartition mx columns) c = Some (N.of_nat i).
  Proof. intros; eapply route_present; eauto. Qed.

  (* the files together hold exactly the supplied columns *)
  Theorem C15_covers :
    forall mx columns c,
      In c (names columns) <-> exists s, In s (subpartition mx columns) /\ In c (sp_cols s).
  Proof. intros; eapply subpartition_covers; eauto. Qed.

  (* a name the partition does not contain is routed nowhere or to a file that lacks it *)
  Theorem C15_route_absent :
    forall mx columns name, ~ In name (names columns) ->
      match route (subpartition mx columns) name with
      | None => True
      | Some i => forall s, nth_error (subpartition mx columns) (N.to_nat i) = Some s ->
                            ~ In name (sp_cols s)
      end.
  Proof. intros; eapply route_absent; eauto. Qed.

  (* file keys of one partition are pairwise distinct, up to the two stated digest coincidences *)
  Theorem C15_keys_distinct :
    forall mx columns i j si sj, NoDup (names columns) -> i <> j ->
      nth_error (subpartition mx columns) i = Some si ->
      nth_error (subpartition mx columns) j = Some sj ->
      sp_key si = sp_key sj ->
      (safe (sp_last si) = false /\ safe (sp_last sj) = false /\ sp_last si <> sp_last sj /\
       sha256 (sp_last si) = sha256 (sp_last sj)) \/
      (safe (sp_last si) <> safe (sp_last sj) /\
       (hex (sha256 (sp_last si)) = sp_last sj \/ hex (sha256 (sp_last sj)) = sp_last si)).
  Proof. intros; eapply keys_distinct; eauto. Qed.

  (* file names: (id, key) is recovered from the name *)
  Theorem C15_filename_injective :
    forall id1 k1 id2 k2, partition_filename id1 k1 = partition_filename id2 k2 ->
      fmt05 id1 = fmt05 id2 /\ k1 = k2.
  Proof. exact partition_filename_inj. Qed.

  (* distinct table names get distinct directories unless their sha256 digests coincide *)
  Theorem C15_sanitize_injective :
    forall a b, sanitize a = sanitize b -> a = b \/ sha256 a = sha256 b.
  Proof. intros; eapply sanitize_injective; eauto. Qed.

  (* a directory name is one path component: no '/', no NUL, not "." or "..", no leading dot,
     at most 255 characters (all ASCII) *)
  Theorem C15_sanitize_safe : forall table, component_safe (sanitize table).
  Proof. intros; eapply sanitize_safe; eauto. Qed.
End C15.

(* non-vacuity: three columns split one per file; routing of present and absent names *)
Example C15_example :
  let al := fun c : N => orb (andb (N.leb 97 c) (N.leb c 122)) (andb (N.leb 48 c) (N.leb c 57)) in
  let lo := fun c : N => andb (N.leb 97 c) (N.leb c 122) in
  let subs := subpartition al lo (fun s => N.of_nat (length s)) (fun _ => repeat 7 32) 1
                [([98], 10); ([97], 10); ([99; 49], 10)] in
  map sp_last subs = [[97]; [98]; [99; 49]] /\
  route subs [98] = Some 1 /\ route subs [97; 97] = Some 1 /\ route subs [100] = None /\
  length (sp_key (nth 2 subs (Build_subpart [] [] 0 []))) = 64%nat.
Proof. vm_compute. repeat split. Qed.
