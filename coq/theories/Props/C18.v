(* C18 — A finished flush leaves no garbage and unblocks ingestion.
   Statements are about Model/WalSM.v (see Props/C08.v for the reading of [run true]). *)
From Coq Require Import NArith ZArith List Bool Lia.
From LV Require Import Model.TableSM Model.Catalogue Model.WalSM
     Proofs.TableSM Proofs.WalSMBase Proofs.WalSM Proofs.WalSMLog Proofs.WalSMFlush.
Import ListNotations.
Open Scope N_scope.

(* After a completed flush of any reachable state, for every compaction factor and size oracle:
   no log segment is left, the accounted log size is 0, the catalogue file holds the cursor
   [next_wal], and for every table the directory holds exactly one file per partition the catalogue
   file lists, with that partition's rows - no file of a merged-away partition, nothing pending
   deletion. *)
Theorem C18_quiescent_files :
  forall (c : cfg) (ops : list op) (bg : bool) (o : oracle) (s s' : db),
    run true c ops (init c) = Val s ->
    step true c s (OFlush bg o) = Val s' ->
    d_wal s' = [] /\ wal_size s' = 0 /\ d_cursor s' = Some (next_wal s) /\
    forall n t, lookup n (tabs s') = Some t ->
      t_files t = map file_of (t_parts t) /\
      map fst (t_files t) = map pm_id (t_meta t) /\
      t_dead t = [] /\ t_buf t = [] /\ t_frozen t = [].
Proof.
  intros c ops bg o s s' H F. pose proof (reachable_inv _ _ _ H) as I. cbn [step] in F.
  destruct (bg && negb (bg_enabled c s)); [discriminate|].
  destruct (flush_spec _ _ _ _ I F) as [I' [_ [_ [Hw [Hs [Hc [_ [_ Hb]]]]]]]].
  split; [exact Hw|]. split; [exact Hs|]. split; [exact Hc|].
  intros n t L. pose proof (i_tabs _ I' n) as T. pose proof (Hb n) as B. unfold view in T, B.
  rewrite L in T, B. destruct T as [_ Tf Tfr Tm Td].
  split; [exact Tf|]. split; [rewrite Tf, Tm, !map_map; reflexivity|]. auto.
Qed.

(* The same holds in every reachable state between flushes as far as partition files are concerned:
   the directory of a table is exactly the partitions of the durable catalogue (ingestion only adds
   log segments), and the log holds one segment per ingestion since the last flush, whose sizes add
   up to the accounted log size. *)
Theorem C18_bounded :
  forall (c : cfg) (ops : list op) (s : db),
    run true c ops (init c) = Val s ->
    (forall n t, lookup n (tabs s) = Some t ->
       map fst (t_files t) = map pm_id (t_meta t) /\ length (t_files t) = length (t_parts t)) /\
    N.of_nat (length (d_wal s)) = next_wal s - earliest s /\
    wal_size s = sum_bytes (d_wal s).
Proof.
  intros c ops s H. pose proof (reachable_inv _ _ _ H) as I. split; [|split].
  - intros n t L. pose proof (i_tabs _ I n) as T. unfold view in T. rewrite L in T.
    destruct T as [_ Tf _ Tm _]. rewrite Tf, Tm, !map_map, map_length. auto.
  - rewrite (i_next _ I). lia.
  - apply (i_size _ I).
Qed.

Theorem C18_ingest_adds_one_segment :
  forall (c : cfg) (ops : list op) (b : batch) (bytes : N) (s s' : db),
    run true c ops (init c) = Val s ->
    step true c s (OIngest b bytes) = Val s' ->
    length (d_wal s') = S (length (d_wal s)) /\ wal_size s' = wal_size s + bytes /\
    forall n t, lookup n (tabs s) = Some t ->
      exists t', lookup n (tabs s') = Some t' /\ t_files t' = t_files t /\ t_meta t' = t_meta t.
Proof.
  intros c ops b bytes s s' H F. pose proof (reachable_inv _ _ _ H) as I. cbn [step] in F.
  destruct (ingest_spec _ _ _ _ _ I F) as [_ [extra [_ [_ [Hw [_ [_ [_ Hs]]]]]]]].
  split; [rewrite Hw, app_length; cbn; lia|]. split; [exact Hs|].
  intros n t L. revert F. unfold ingest.
  destruct (c_max_wal_bytes c <? wal_size s); [discriminate|].
  destruct (prepare code_seed b (tabs s) [] []) as [[[l1 created] colrows]| | | |] eqn:Ep;
    cbn [bind]; try discriminate.
  destruct (apply_batch _ l1) as [l2| | | |] eqn:Ea; cbn [bind]; try discriminate.
  intro F. injection F as <-. cbn [tabs].
  destruct (prepare_grows _ _ _ _ _ _ _ _ Ep) as [G1 _]. destruct (G1 _ _ L) as [t1 [L1 M1]].
  destruct (apply_batch_spec _ _ _ Ea) as [_ A]. destruct (A _ _ L1) as [t2 [L2 [x ->]]].
  exists (set_cols (set_buf t1 (t_buf t1 ++ batch_rows n (b ++ meta_tables_batch created ++ colrows))) x).
  destruct (modc_fields _ _ M1) as [_ [_ [_ [_ [_ [Ff [Fm _]]]]]]]. cbn. auto.
Qed.

(* Ingestion is held back exactly while the accounted log size exceeds the limit; that is also a
   trigger of the background flush; and after any completed flush ingestion is not held back. *)
Theorem C18_unblocks :
  forall (c : cfg) (ops : list op) (bg : bool) (o : oracle) (b : batch) (bytes : N) (s s' : db),
    run true c ops (init c) = Val s ->
    (step true c s (OIngest b bytes) = Blocked -> bg_enabled c s = true) /\
    (step true c s (OFlush bg o) = Val s' -> step true c s' (OIngest b bytes) <> Blocked).
Proof.
  intros c ops bg o b bytes s s' H. pose proof (reachable_inv _ _ _ H) as I. split.
  - cbn [step]. intro F. apply ingest_blocked in F. unfold bg_enabled. rewrite F. reflexivity.
  - intro F. cbn [step] in F. destruct (bg && negb (bg_enabled c s)); [discriminate|].
    destruct (flush_spec _ _ _ _ I F) as [_ [_ [_ [_ [Hs _]]]]].
    cbn [step]. intro B. apply ingest_blocked in B. rewrite Hs in B.
    apply N.ltb_lt in B. lia.
Qed.

(* A flush of a reachable state cannot trip over its own bookkeeping: no "frozen buffer is not
   empty", no removal of a partition file or log segment that is not there, no compaction range out
   of bounds.  It ends in a state, at a guarded site of compaction (F1; incomplete name set), in the u64
   overflow of the size arithmetic, or at a catalogue-loading site. *)
Theorem C18_flush_outcome :
  forall (c : cfg) (ops : list op) (bg : bool) (o : oracle) (s : db),
    run true c ops (init c) = Val s ->
    (exists s', flush true c o s = Val s') \/ (exists k, flush true c o s = Known k) \/
    (exists st, flush true c o s = Panic st /\
                (st = SOverflow \/ st = SCatalogue \/ st = SNoTable \/ st = SColsNotInit)).
Proof. intros c ops bg o s H. apply flush_outcome. eapply reachable_inv; eauto. Qed.

(* non-vacuity: cycles of ingestion and flush with compaction; the directory after the last flush *)
Definition ex_cfg : cfg :=
  {| c_factor := 1; c_max_wal_files := 1000; c_max_wal_bytes := 250 |}.
Definition ex_t : name := [116].
Definition ex_id : name := [105; 100].
Definition ex_b (k : Z) : batch :=
  [{| tb_name := ex_t; tb_cols := [ex_id]; tb_rows := [[(ex_id, CInt k)]; [(ex_id, CInt (k + 1))]] |}].
Definition ex_o : oracle := [(ex_t, (4, 6)); (s_meta_tables, (20, 22)); (meta_columns_of ex_t, (5, 7))].
Definition ex_ops : list op :=
  [OIngest (ex_b 0) 200; OFlush false ex_o; OIngest (ex_b 2) 100; OIngest (ex_b 4) 200].

Example C18_example :
  exists s s', run true ex_cfg ex_ops (init ex_cfg) = Val s /\
    step true ex_cfg s (OIngest (ex_b 6) 1) = Blocked /\ bg_enabled ex_cfg s = true /\
    step true ex_cfg s (OFlush true ex_o) = Val s' /\
    d_wal s' = [] /\
    (exists t, lookup ex_t (tabs s') = Some t /\ map fst (t_files t) = [2] /\ length (t_parts t) = 1%nat).
Proof.
  eexists. eexists. split; [vm_compute; reflexivity|]. split; [vm_compute; reflexivity|].
  split; [vm_compute; reflexivity|]. split; [vm_compute; reflexivity|].
  split; [vm_compute; reflexivity|]. eexists. split; [vm_compute; reflexivity|]. vm_compute. auto.
Qed.
