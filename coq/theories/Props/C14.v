(* C14 — Stored files read back as written or are rejected: the versioned, checksummed envelope.
   The digest H is universally quantified (nothing is assumed about sha256 except its 32-byte
   output length), so collisions appear as explicit disjuncts, never as hidden assumptions. *)
From Coq Require Import NArith List.
From LV Require Import Model.Envelope Proofs.Envelope Gen.SegmentMap.
Import ListNotations.
Open Scope N_scope.

Section C14.
  Variable H : list N -> list N.
  Hypothesis H_len : forall p, length (H p) = 32%nat.

  (* what was stored is what is loaded *)
  Theorem C14_envelope_roundtrip :
    forall p, N.of_nat (length p) <= u64_max - 48 -> load H (store H p) = Loaded p.
  Proof. intros; eapply load_store; eauto. Qed.

  (* whatever load accepts is byte for byte what store writes for the payload it returns *)
  Theorem C14_envelope_sound :
    forall b p, bytes_ok b -> load H b = Loaded p -> b = store H p.
  Proof. intros; eapply load_sound; eauto. Qed.

  (* a blob that differs from a stored one (bit flip, foreign file) is never decoded into the stored
     payload; if it is accepted at all it is the genuine file of a different payload, and when it
     has the stored length and header it is a sha256 collision *)
  Theorem C14_tamper_rejected_or_collision :
    forall p b p', bytes_ok b -> b <> store H p -> load H b = Loaded p' ->
      p' <> p /\ (length b = length (store H p) -> length p' = length p /\
                  (firstn 48 b = firstn 48 (store H p) -> H p' = H p)).
  Proof. intros; eapply tamper_rejected_or_collision; eauto. Qed.

  (* every truncation and every extension of a stored blob is rejected: pure length argument *)
  Theorem C14_truncation_extension_rejected :
    forall p b, N.of_nat (length p) <= u64_max - 48 -> bytes_ok b ->
      length b <> length (store H p) ->
      (exists n, b = firstn n (store H p)) \/ (exists s, b = store H p ++ s) ->
      forall p', load H b <> Loaded p'.
  Proof. intros; eapply wrong_length_rejected; eauto. Qed.
End C14.

(* foreign files whose length field is >= 2^64 - 48 are rejected (before the fix of finding F18 the
   addition overflowed: a panic in the dev profile) *)
Theorem C14_huge_length_rejected :
  forall (H : list N -> list N) (b : list N),
    u64_max < 48 + be_decode (firstn 8 (skipn 8 b)) -> forall p, load H b <> Loaded p.
Proof.
  intros H b Hov p. unfold load.
  destruct (N.of_nat (length b) <? 48); [discriminate|].
  destruct (negb _); [discriminate|].
  destruct (N.ltb_spec u64_max (48 + be_decode (firstn 8 (skipn 8 b)))) as [_|Hc]; [discriminate|].
  exfalso. apply N.lt_nge in Hov. apply Hov. exact Hc.
Qed.

(* Partition-segment codec maps, REGENERATED from partition_segment.rs / codec.rs on every run (T1):
   the serialiser and the deserialiser enumerate codec ops, data-section kinds and encoding types by
   hand in two places; these theorems say the two places agree. *)
Theorem C14_types_roundtrip :
  forall t w, ser_ty t = Some w -> de_ty w = Some t.
Proof. intros t w Hs; destruct t; cbn in Hs; injection Hs as <-; reflexivity. Qed.

Theorem C14_ops_roundtrip :
  forall o w, ser_op o = Some w -> de_op w = Some o.
Proof.
  intros o w Hs; destruct o;
    repeat match goal with a : enc_type |- _ => destruct a end;
    cbn in Hs; try discriminate; injection Hs as <-; reflexivity.
Qed.

(* every codec op except the placeholder `Unknown` can be written, for every encoding type the type
   map knows *)
Theorem C14_ops_total :
  forall o, o <> CO_Unknown -> exists w, ser_op o = Some w.
Proof.
  intros o Hne; destruct o;
    repeat match goal with a : enc_type |- _ => destruct a end;
    try congruence; eexists; reflexivity.
Qed.

Theorem C14_sections_roundtrip :
  forall k, exists w, ser_sec k = Some w /\ de_sec w = Some k.
Proof. intros k; destruct k; eexists; split; reflexivity. Qed.

(* non-vacuity *)
Example C14_example :
  let Hd := fun p : list N => repeat (fold_left N.add p 0 mod 256) 32 in
  load Hd (store Hd [1; 2; 3]) = Loaded [1; 2; 3] /\
  load Hd (flip_bit (store Hd [1; 2; 3]) 49 0) = Rejected /\
  load Hd (firstn 50 (store Hd [1; 2; 3])) = Rejected.
Proof. vm_compute. repeat split. Qed.
