(* C14 — Stored files read back as written or are rejected: the versioned, checksummed envelope.
   The digest H is universally quantified (nothing is assumed about sha256 except its 32-byte
   output length), so collisions appear as explicit disjuncts, never as hidden assumptions. *)
From Coq Require Import NArith List.
From LV Require Import Model.Envelope Proofs.Envelope Gen.SegmentMap.
From LV Require Import Model.Routing Proofs.Routing Model.CatalogueCodec Proofs.CatalogueCodec Proofs.SegmentCodec.
Import ListNotations.
Open Scope N_scope.

Section C14.
  Variable H : list N -> list N.
  Hypothesis H_len : forall p, length (H p) = 32%nat.

  (* what was stored is what is loaded *)
  Theorem C14_envelope_roundtrip :
    forall p, N.of_nat (length p) <= u64_max - 48 -> load H (store H p) = Loaded p.
  Proof. intros; eapply load_store; eauto. Qed.

  (* whatever load accepts is byte for byte what store writes for the payload it returns *)
  Theorem C14_envelope_sound :
    forall b p, bytes_ok b -> load H b = Loaded p -> b = store H p.
  Proof. intros; eapply load_sound; eauto. Qed.

  (* a blob that differs from a stored one (bit flip, foreign file) is never decoded into the stored
     payload; if it is accepted at all it is the genuine file of a different payload, and when it
     has the stored length and header it is a sha256 collision *)
  Theorem C14_tamper_rejected_or_collision :
    forall p b p', bytes_ok b -> b <> store H p -> load H b = Loaded p' ->
      p' <> p /\ (length b = length (store H p) -> length p' = length p /\
                  (firstn 48 b = firstn 48 (store H p) -> H p' = H p)).
  Proof. intros; eapply tamper_rejected_or_collision; eauto. Qed.

  (* every truncation and every extension of a stored blob is rejected: pure length argument *)
  Theorem C14_truncation_extension_rejected :
    forall p b, N.of_nat (length p) <= u64_max - 48 -> bytes_ok b ->
      length b <> length (store H p) ->
      (exists n, b = firstn n (store H p)) \/ (exists s, b = store H p ++ s) ->
      forall p', load H b <> Loaded p'.
  Proof. intros; eapply wrong_length_rejected; eauto. Qed.
End C14.

(* foreign files whose length field is >= 2^64 - 48 are rejected (before the fix of finding F18 the
   addition overflowed: a panic in the dev profile) *)
Theorem C14_huge_length_rejected :
  forall (H : list N -> list N) (b : list N),
    u64_max < 48 + be_decode (firstn 8 (skipn 8 b)) -> forall p, load H b <> Loaded p.
Proof.
  intros H b Hov p. unfold load.
  destruct (N.of_nat (length b) <? 48); [discriminate|].
  destruct (negb _); [discriminate|].
  destruct (N.ltb_spec u64_max (48 + be_decode (firstn 8 (skipn 8 b)))) as [_|Hc]; [discriminate|].
  exfalso. apply N.lt_nge in Hov. apply Hov. exact Hc.
Qed.

(* Partition-segment codec maps, REGENERATED from partition_segment.rs / codec.rs on every run (T1):
   the serialiser and the deserialiser enumerate codec ops, data-section kinds and encoding types by
   hand in two places; these theorems say the two places agree. *)
Theorem C14_types_roundtrip :
  forall t w, ser_ty t = Some w -> de_ty w = Some t.
Proof. intros t w Hs; destruct t; cbn in Hs; injection Hs as <-; reflexivity. Qed.

Theorem C14_ops_roundtrip :
  forall o w, ser_op o = Some w -> de_op w = Some o.
Proof.
  intros o w Hs; destruct o;
    repeat match goal with a : enc_type |- _ => destruct a end;
    cbn in Hs; try discriminate; injection Hs as <-; reflexivity.
Qed.

(* every codec op except the placeholder `Unknown` can be written, for every encoding type the type
   map knows *)
Theorem C14_ops_total :
  forall o, o <> CO_Unknown -> exists w, ser_op o = Some w.
Proof.
  intros o Hne; destruct o;
    repeat match goal with a : enc_type |- _ => destruct a end;
    try congruence; eexists; reflexivity.
Qed.

Theorem C14_sections_roundtrip :
  forall k, exists w, ser_sec k = Some w /\ de_sec w = Some k.
Proof. intros k; destruct k; eexists; split; reflexivity. Qed.

(* ... lifted to a column's whole codec (the list of ops a partition file stores): any codec free of the
   placeholder op can be written, and what is written reads back as the same list, op for op, parameter
   for parameter *)
Theorem C14_codec_roundtrip :
  forall ops ws, map_opt ser_op ops = Some ws -> map_opt de_op ws = Some ops.
Proof. exact codec_roundtrip. Qed.

Theorem C14_codec_total :
  forall ops, Forall (fun o => o <> CO_Unknown) ops -> exists ws, map_opt ser_op ops = Some ws.
Proof. exact codec_total. Qed.

(* non-vacuity *)
Example C14_example :
  let Hd := fun p : list N => repeat (fold_left N.add p 0 mod 256) 32 in
  load Hd (store Hd [1; 2; 3]) = Loaded [1; 2; 3] /\
  load Hd (flip_bit (store Hd [1; 2; 3]) 49 0) = Rejected /\
  load Hd (firstn 50 (store Hd [1; 2; 3])) = Rejected.
Proof. vm_compute. repeat split. Qed.

(* ---------- the catalogue (MetaStore::serialize / deserialize), at capnp FIELD level ---------- *)

(* A catalogue whose entries have pairwise distinct (table, id) -- it is a map of maps -- and whose
   per-partition index is the one both constructors build reads back exactly: every partition with its
   id, table, offset, length, every sub-partition with size, file key and last column, in order; the
   persisted flush cursor becomes both the cursor and the next WAL id. *)
Theorem C14_catalogue_roundtrip :
  forall m : meta, Distinct (ms_parts m) -> Forall index_ok (ms_parts m) ->
    deserialize (serialize m) =
      DeOk {| ms_next_wal := ms_cursor m; ms_cursor := ms_cursor m; ms_parts := ms_parts m |}.
Proof. exact catalogue_roundtrip. Qed.

(* ... and whatever index an entry carried, the reader rebuilds it from the sub-partitions it read *)
Theorem C14_catalogue_roundtrip_reindexed :
  forall m : meta, Distinct (ms_parts m) ->
    deserialize (serialize m) =
      DeOk {| ms_next_wal := ms_cursor m; ms_cursor := ms_cursor m; ms_parts := map reindex (ms_parts m) |}.
Proof. intros m HD. apply catalogue_roundtrip_reindexed. apply distinct_reindex. exact HD. Qed.

(* Catalogues written by older versions: a sub-partition's last column is the explicit field when it
   is present, otherwise the bytewise greatest of the column names listed directly (v0) or through the
   string table (v1) -- an upper bound of all of them and one of them (or "" when there are none). *)
Theorem C14_catalogue_legacy_last :
  forall strings s l, de_last strings s = Some l ->
    exists cs, Forall2 (fun i c => nth_error strings (N.to_nat i) = Some c) (w_interned s) cs /\
      match w_last s with
      | [] => (forall c, In c (w_columns s ++ cs) -> sle c l) /\ (l = [] \/ In l (w_columns s ++ cs))
      | _ => l = w_last s
      end.
Proof. exact de_last_spec. Qed.

(* The reader's only panic is an interned column id outside the string table. *)
Theorem C14_catalogue_reader_total :
  forall g, ids_in_range g -> exists m, deserialize g = DeOk m.
Proof. exact deserialize_total. Qed.

(* A message that lists a (table, id) twice yields the later entry for that key. *)
Theorem C14_catalogue_later_entry_wins :
  forall p l, lookup (put p l) (pm_table p) (pm_id p) = Some p.
Proof. exact lookup_put_same. Qed.

(* non-vacuity: two tables, a partition with two files, a duplicated last column (the later file wins
   in the index), a legacy v0/v1 sub-partition *)
Example C14_catalogue_example :
  let s1 := {| sm_size := 10; sm_key := [97]; sm_last := [97] |} in
  let s2 := {| sm_size := 20; sm_key := [122]; sm_last := [122] |} in
  let p1 := {| pm_id := 3; pm_table := [116]; pm_offset := 0; pm_len := 5; pm_subs := [s1; s2];
               pm_index := [([97], 0); ([122], 1)] |} in
  let p2 := {| pm_id := 3; pm_table := [117]; pm_offset := 5; pm_len := 7; pm_subs := [s2; s2];
               pm_index := [([122], 1)] |} in
  let m := {| ms_next_wal := 9; ms_cursor := 4; ms_parts := [p1; p2] |} in
  deserialize (serialize m) = DeOk {| ms_next_wal := 4; ms_cursor := 4; ms_parts := [p1; p2] |} /\
  de_last [[98]; [120]] {| w_size := 1; w_key := []; w_last := []; w_columns := [[99]; [97]];
                           w_interned := [1; 0] |} = Some [120] /\
  de_last [[98]] {| w_size := 1; w_key := []; w_last := []; w_columns := []; w_interned := [1] |} = None.
Proof. vm_compute. repeat split. Qed.
