(* C12 — Every query string gets a well-formed answer or an error value.
   Theorems about the model of the conversion sqlparser AST -> LocustDB query (Model/Frontend.v:
   parse_query, Query::normalize, the output slice), stated on the reduced AST the harness produces
   from the query text.  sqlparser itself is outside the model (the statements quantify over every
   reduced AST, i.e. over everything the parser could return). *)
From Coq Require Import NArith ZArith List Bool Lia.
From LV Require Import Model.Frontend Model.FrontendSpec Proofs.Frontend Proofs.FrontendQuery
  Proofs.FrontendNormalize.
Import ListNotations.
Open Scope N_scope.

(* the invariants of what sqlparser and Rust's str type can hand to parse_query: texts are valid
   UTF-8 and number tokens parse as f64 (FrontendSpec.parser_output; facts about the trusted
   parser, checked on every generated case by the correspondence run) *)
Definition ParserOutput (p : parsed) : Prop := parser_output p = true.

(* ---- former witnesses --------------------------------------------------------------------------- *)

Definition b_i : bytes := [105].
Definition b_t : bytes := [116].

Definition plain_select (items : list select_item) (table : bytes) (lc : limit_clause) : parsed :=
  POk [StQuery (BdSelect {| s_distinct := false; s_projection := items;
                            s_from := [{| fi_relation := TFTable table; fi_joins := 0 |}];
                            s_selection := None; s_group_by := GBExprs 0 0; s_having := false |})
               OBNone lc].

(* SELECT i FROM t LIMIT 1.5 *)
Definition w_limit_fraction : parsed :=
  plain_select [SIUnnamed (EIdent b_i) b_i] b_t
    (LCLimitOffset (Some (EValue (VNumber [49; 46; 53] (Some 4609434218613702656)))) None).
(* SELECT i FROM t LIMIT 99999999999999999999999 *)
Definition w_limit_huge : parsed :=
  plain_select [SIUnnamed (EIdent b_i) b_i] b_t
    (LCLimitOffset (Some (EValue (VNumber (repeat 57 23) (Some 4906019910204099648)))) None).
(* SELECT i FROM t LIMIT 1 OFFSET 1.5 *)
Definition w_offset_fraction : parsed :=
  plain_select [SIUnnamed (EIdent b_i) b_i] b_t
    (LCLimitOffset (Some (EValue (VNumber [49] (Some 4607182418800017408))))
                   (Some (EValue (VNumber [49; 46; 53] (Some 4609434218613702656))))).
(* SELECT """" FROM t : the identifier's value is a lone double quote *)
Definition w_lone_quote : parsed :=
  plain_select [SIUnnamed (EIdent [34]) [34; 34; 34; 34]] b_t LCNone.
(* SELECT "i" = é FROM t : the written text starts with a quote and ends in a two-byte character *)
Definition w_multibyte_text : parsed :=
  plain_select [SIUnnamed (EBinary BEq (EIdent b_i) (EIdent [195; 169])) [34; 105; 34; 32; 61; 32; 195; 169]] b_t LCNone.
(* SELECT i FROM "t".é *)
Definition w_multibyte_table : parsed :=
  plain_select [SIUnnamed (EIdent b_i) b_i] [34; 116; 34; 46; 195; 169] LCNone.
(* the empty string, ";" : no statement at all *)
Definition w_no_statement : parsed := POk [].

(* the inputs on which the unrepaired conversion panicked in the caller (finding F6, fixed by
   ec6c954, 88d707c, 7f4db9b) now yield ParseError, or convert with the expected names *)
Theorem C12_former_witnesses_repaired :
  parse_query w_limit_fraction = Err ParseError /\
  parse_query w_limit_huge = Err ParseError /\
  parse_query w_offset_fraction = Err ParseError /\
  parse_query w_no_statement = Err ParseError /\
  (exists q, parse_query w_lone_quote = Val q /\ output_names q = [[34; 34]] /\
             map ci_expr (q_select q) = [ColName [34]]) /\
  (exists q, parse_query w_multibyte_text = Val q /\
             output_names q = [[34; 105; 34; 32; 61; 32; 195; 169]]) /\
  (exists q, parse_query w_multibyte_table = Val q /\ q_table q = [34; 116; 34; 46; 195; 169]).
Proof.
  repeat match goal with |- _ /\ _ => split end; try (vm_compute; reflexivity);
    eexists; vm_compute; repeat split; reflexivity.
Qed.

(* ---- totality ------------------------------------------------------------------------------------- *)

(* for EVERY reduced AST the parser can produce, the conversion returns a query or an error value *)
Theorem C12_total :
  forall p, ParserOutput p ->
    (exists q, parse_query p = Val q) \/ (exists k, parse_query p = Err k).
Proof.
  intros p H. pose proof (parse_query_not_panic p H) as P.
  destruct (parse_query p) as [q|k|s]; [left|right|discriminate]; eauto.
Qed.

(* the two panic sites left in the conversion are exactly the parser invariants: without them the
   model does panic (so the premise of C12_total is not decoration) *)
Theorem C12_total_needs_parser_invariants :
  convert_expr (EValue (VNumber [120] None)) = Panic PSFloatUnwrap /\
  strip_quotes [34; 169; 34] = Panic PSStripBoundary /\
  parser_output (plain_select [SIUnnamed (EIdent b_i) [34; 169; 34]] b_t LCNone) = false.
Proof. vm_compute. repeat split. Qed.

(* LIMIT / OFFSET and the statement count never panic, whatever the AST *)
Theorem C12_counts_total :
  (forall l, exists r, get_limit l = Val r \/ exists k, get_limit l = Err k) /\
  (forall o, exists r, get_offset o = Val r \/ exists k, get_offset o = Err k) /\
  (forall text f, parse_u64 text = None ->
     get_limit (Some (EValue (VNumber text f))) = Err ParseError /\
     get_offset (Some (EValue (VNumber text f))) = Err ParseError).
Proof.
  repeat split.
  - intro l. pose proof (limit_not_panic l) as P.
    destruct (get_limit l) as [v|k|s]; [exists v; left; reflexivity|exists 0; right; eauto|discriminate].
  - intro o. pose proof (offset_not_panic o) as P.
    destruct (get_offset o) as [v|k|s]; [exists v; left; reflexivity|exists 0; right; eauto|discriminate].
  - apply limit_literal_err. assumption.
  - apply limit_literal_err. assumption.
Qed.

(* ... and it returns a query exactly for the supported grammar *)
Theorem C12_accepts_exactly_supported :
  forall p, ParserOutput p ->
    (supported p = true -> exists q, parse_query p = Val q) /\
    (supported p = false -> exists k, parse_query p = Err k).
Proof.
  intros p N.
  pose proof (parse_query_not_panic p N) as P. pose proof (parse_query_is_val p N) as V.
  split; intro S; rewrite S in V; destruct (parse_query p) as [q|k|s]; try discriminate; eauto.
Qed.

(* normalisation (nested aggregates are a TypeError) never panics either *)
Theorem C12_normalize_total :
  forall q, (exists r, normalize q = Val r) \/ (exists k, normalize q = Err k).
Proof.
  intro q. pose proof (normalize_never_panics q) as P.
  destruct (normalize q) as [r|k|s]; [left|right|discriminate]; eauto.
Qed.

(* ---- unsupported constructs are error values ---------------------------------------------------- *)

Theorem C12_unsupported_is_error :
  (* query shell: GROUP BY, HAVING, DISTINCT, several FROM items, JOIN *)
  (forall s ob lc, shell_unsupported s ->
     parse_query (POk [StQuery (BdSelect s) ob lc]) = Err NotImplemented) /\
  (* set operations, VALUES, nested query bodies *)
  (forall ob lc, parse_query (POk [StQuery BdOther ob lc]) = Err NotImplemented) /\
  (* INSERT / UPDATE / DELETE / DDL, several statements, text the parser rejects *)
  parse_query (POk [StOther]) = Err ParseError /\
  parse_query (POk []) = Err ParseError /\
  (forall a b rest, parse_query (POk (a :: b :: rest)) = Err ParseError) /\
  parse_query PParserError = Err ParseError /\
  parse_query POtherError = Err Fatal /\
  (* expressions: the unsupported node decides, whatever its operands are *)
  (forall l r, convert_expr (EBinary BOther l r) = Err NotImplemented) /\
  (forall x, convert_expr (EUnary UOther x) = Err Fatal) /\
  convert_expr (EValue VOther) = Err NotImplemented /\
  convert_expr EOther = Err NotImplemented /\
  (forall n x p, convert_expr (ELike n x p true) = Err NotImplemented) /\
  (forall name args, function_kind name = FUnknown ->
     convert_expr (EFunction name args) = Err NotImplemented) /\
  (* named / wildcard / qualified-wildcard arguments of a known function *)
  (forall name a, function_kind name <> FUnknown -> function_kind name <> FRegex -> arg_rejected a ->
     convert_expr (EFunction name (FList1 a)) = Err NotImplemented) /\
  (forall name a b, function_kind name = FRegex -> arg_rejected a ->
     convert_expr (EFunction name (FList2 a b)) = Err NotImplemented) /\
  (* wrong number of arguments, no argument list, subquery argument *)
  (forall name args, function_kind name <> FUnknown ->
     match function_kind name, args with
     | FRegex, FList2 _ _ => False
     | FRegex, _ => True
     | _, FList1 _ => False
     | _, _ => True
     end -> convert_expr (EFunction name args) = Err ParseError).
Proof.
  repeat match goal with |- _ /\ _ => split end.
  - exact shell_unsupported_err.
  - exact set_operation_err.
  - reflexivity.
  - reflexivity.
  - exact several_statements_err.
  - reflexivity.
  - reflexivity.
  - exact unsupported_binop.
  - exact unsupported_unop.
  - exact unsupported_value.
  - exact unsupported_node.
  - exact like_escape.
  - exact unknown_function.
  - exact function_named_arg.
  - intros name a b K A. cbn [convert_expr]. rewrite K, (rejected_arg _ A). reflexivity.
  - exact function_wrong_arity.
Qed.

(* a statement with an unsupported part anywhere is rejected with an error value: this is
   C12_accepts_exactly_supported read from right to left *)
Theorem C12_not_supported_never_answered :
  forall p q, ParserOutput p -> parse_query p = Val q -> supported p = true.
Proof.
  intros p q H E. destruct (supported p) eqn:S; [reflexivity|].
  destruct (C12_accepts_exactly_supported p H) as [_ B]. destruct (B S) as (k & K). congruence.
Qed.

(* ---- names --------------------------------------------------------------------------------------- *)

(* when the conversion succeeds there is exactly one output column name per select item, in
   select-list order: `*`, or the alias / written text without its surrounding quote characters *)
Theorem C12_names :
  forall p q, parse_query p = Val q ->
    length (output_names q) = length (projection_of p) /\
    map (fun n => Some n) (output_names q) = map expected_name (projection_of p).
Proof.
  intros p q H. split; [eapply parse_query_names_length|eapply parse_query_names]; eauto.
Qed.

(* ---- normalize: select positions <-> projection / aggregate slots --------------------------------- *)

(* without a final pass every select position is mapped to an existing slot that carries the
   item's name, and the projection (aggregate) slots are used exactly once each, in order *)
Theorem C12_slots_direct :
  forall q main src, normalize q = Val (main, None, src) ->
    length src = length (q_select q) /\
    proj_slots src = seq 0 (length (nf_projection main)) /\
    agg_slots src = seq 0 (length (nf_aggregate main)) /\
    map (slot_name (nf_projection main) (nf_aggregate main)) src
    = map (fun n => Some n) (map ci_name (q_select q)).
Proof. exact normalize_direct. Qed.

(* with a final pass the output is the final projection: position i <-> final column i, same
   names, and LIMIT/OFFSET move to the final pass *)
Theorem C12_slots_final :
  forall q main fin src, normalize q = Val (main, Some fin, src) ->
    src = map Proj (seq 0 (length (q_select q))) /\
    map ci_name (nf_projection fin) = map ci_name (q_select q) /\
    nf_limit fin = q_limit q /\ nf_offset fin = q_offset q.
Proof. exact normalize_final. Qed.

(* ---- the output slice ------------------------------------------------------------------------------ *)

(* convert_to_output_format returns `count` rows starting at `offset'`: never more than LIMIT, never
   past the end, for EVERY limit / offset / result length (since fix 0df51a0 the offset is clamped:
   an OFFSET beyond the result leaves no rows instead of underflowing) *)
Theorem C12_slice :
  forall limit offset len,
    let '(o, c) := output_slice limit offset len in
    o <= len /\ c <= limit /\ o + c <= len /\
    (offset <= len -> o = offset /\ c = N.min limit (len - offset)) /\
    (len <= offset -> c = 0).
Proof.
  intros limit offset len. unfold output_slice. repeat split; try lia.
Qed.

(* limit + offset saturates instead of overflowing *)
Theorem C12_combined_limit :
  forall limit offset,
    combined_limit limit offset <= u64_max /\
    (limit + offset <= u64_max -> combined_limit limit offset = limit + offset) /\
    (u64_max <= limit + offset -> combined_limit limit offset = u64_max).
Proof.
  intros l o. unfold combined_limit. repeat split; lia.
Qed.

(* the former witnesses of finding F5: OFFSET 13 on 12 rows, OFFSET 3 without LIMIT *)
Example C12_slice_former_witnesses :
  output_slice 2 13 12 = (12, 0) /\ combined_limit u64_max 3 = u64_max.
Proof. vm_compute. split; reflexivity. Qed.

(* ---- non-vacuity ------------------------------------------------------------------------------------ *)

(* SELECT a AS x, COUNT(1), "i", * FROM t WHERE i > 1 [ORDER BY i DESC] LIMIT 10 OFFSET 2 : supported,
   within the parser invariants, converted, names in order; with the ORDER BY a final pass is needed *)
Definition ex_query_with (ob : order_by) : parsed :=
  POk [StQuery (BdSelect {| s_distinct := false;
                            s_projection := [SIAlias (EIdent [97]) [120];
                                             SIUnnamed (EFunction n_COUNT (FList1 (FAExpr (EValue (VNumber [49] None)))))
                                                       [67; 79; 85; 78; 84; 40; 49; 41];
                                             SIUnnamed (EIdent b_i) [34; 105; 34];
                                             SIWildcard];
                            s_from := [{| fi_relation := TFTable b_t; fi_joins := 0 |}];
                            s_selection := Some (EBinary BGt (EIdent b_i) (EValue (VNumber [49] None)));
                            s_group_by := GBExprs 0 0; s_having := false |})
               ob
               (LCLimitOffset (Some (EValue (VNumber [49; 48] None))) (Some (EValue (VNumber [50] None))))].

Example C12_example :
  let ex_query := ex_query_with OBNone in
  ParserOutput ex_query /\ supported ex_query = true /\
  match parse_query ex_query with
  | Val q => output_names q = [[120]; [67; 79; 85; 78; 84; 40; 49; 41]; [105]; [42]]
             /\ q_limit q = 10 /\ q_offset q = 2
             /\ match normalize q with
                | Val (_, None, src) => src = [Proj 0; Agg 0; Proj 1; Proj 2]
                | _ => False
                end
  | _ => False
  end.
Proof. vm_compute. repeat split; congruence. Qed.

Example C12_example_final_pass :
  match parse_query (ex_query_with (OBExprs [(EIdent b_i, Some false)])) with
  | Val q => match normalize q with
             | Val (_, Some fin, src) => src = [Proj 0; Proj 1; Proj 2; Proj 3] /\ nf_limit fin = 10
             | _ => False
             end
  | _ => False
  end.
Proof. vm_compute. split; reflexivity. Qed.

(* an unsupported shell in the sense of C12_unsupported_is_error *)
Example C12_example_unsupported :
  shell_unsupported {| s_distinct := true; s_projection := []; s_from := []; s_selection := None;
                       s_group_by := GBAll; s_having := false |}.
Proof. right. right. left. reflexivity. Qed.
