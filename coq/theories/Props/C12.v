(* C12 — Every query string gets a well-formed answer or an error value.
   Theorems about the model of the conversion sqlparser AST -> LocustDB query (Model/Frontend.v:
   parse_query, Query::normalize, the output slice), stated on the reduced AST the harness produces
   from the query text.  sqlparser itself is outside the model (the statements quantify over every
   reduced AST, i.e. over everything the parser could return). *)
From Coq Require Import NArith ZArith List Bool Lia.
From LV Require Import Model.Frontend Model.FrontendSpec Proofs.Frontend Proofs.FrontendQuery
  Proofs.FrontendNormalize.
Import ListNotations.
Open Scope N_scope.

Definition KnownPanicClass (p : parsed) : Prop := known_panic_class p = true.

(* ---- witnesses ------------------------------------------------------------------------------ *)

Definition b_i : bytes := [105].
Definition b_t : bytes := [116].

Definition plain_select (items : list select_item) (table : bytes) (lc : limit_clause) : parsed :=
  POk [StQuery (BdSelect {| s_distinct := false; s_projection := items;
                            s_from := [{| fi_relation := TFTable table; fi_joins := 0 |}];
                            s_selection := None; s_group_by := GBExprs 0 0; s_having := false |})
               OBNone lc].

(* SELECT i FROM t LIMIT 1.5 *)
Definition w_limit_fraction : parsed :=
  plain_select [SIUnnamed (EIdent b_i) b_i] b_t
    (LCLimitOffset (Some (EValue (VNumber [49; 46; 53] (Some 4609434218613702656)))) None).
(* SELECT i FROM t LIMIT 99999999999999999999999 *)
Definition w_limit_huge : parsed :=
  plain_select [SIUnnamed (EIdent b_i) b_i] b_t
    (LCLimitOffset (Some (EValue (VNumber (repeat 57 23) (Some 4906019910204099648)))) None).
(* SELECT i FROM t LIMIT 1 OFFSET 1.5 *)
Definition w_offset_fraction : parsed :=
  plain_select [SIUnnamed (EIdent b_i) b_i] b_t
    (LCLimitOffset (Some (EValue (VNumber [49] (Some 4607182418800017408))))
                   (Some (EValue (VNumber [49; 46; 53] (Some 4609434218613702656))))).
(* SELECT """" FROM t : the identifier's value is a lone double quote *)
Definition w_lone_quote : parsed :=
  plain_select [SIUnnamed (EIdent [34]) [34; 34; 34; 34]] b_t LCNone.
(* SELECT "i" = é FROM t : the written text starts with a quote and ends in a two-byte character *)
Definition w_multibyte_text : parsed :=
  plain_select [SIUnnamed (EBinary BEq (EIdent b_i) (EIdent [195; 169])) [34; 105; 34; 32; 61; 32; 195; 169]] b_t LCNone.
(* SELECT i FROM "t".é *)
Definition w_multibyte_table : parsed :=
  plain_select [SIUnnamed (EIdent b_i) b_i] [34; 116; 34; 46; 195; 169] LCNone.
(* the empty string, ";" : no statement at all *)
Definition w_no_statement : parsed := POk [].

(* plain totality is refuted by the faithful model: each witness is a query text on which the
   implementation panics in the caller (finding F6) *)
Theorem C12_total_refuted :
  parse_query w_limit_fraction = Panic PSLimitUnwrap /\
  parse_query w_limit_huge = Panic PSLimitUnwrap /\
  parse_query w_offset_fraction = Panic PSOffsetUnwrap /\
  parse_query w_lone_quote = Panic PSStripRange /\
  parse_query w_multibyte_text = Panic PSStripBoundary /\
  parse_query w_multibyte_table = Panic PSStripBoundary /\
  parse_query w_no_statement = Panic PSPopUnwrap.
Proof. vm_compute. repeat split. Qed.

Theorem C12_witnesses_in_class :
  Forall KnownPanicClass [w_limit_fraction; w_limit_huge; w_offset_fraction; w_lone_quote;
                          w_multibyte_text; w_multibyte_table; w_no_statement].
Proof. repeat constructor. Qed.

(* ---- guarded totality ------------------------------------------------------------------------- *)

(* outside the class, for EVERY reduced AST, the conversion returns a query or an error value *)
Theorem C12_total_guarded :
  forall p, ~ KnownPanicClass p ->
    (exists q, parse_query p = Val q) \/ (exists k, parse_query p = Err k).
Proof.
  intros p H. assert (N : known_panic_class p = false).
  { unfold KnownPanicClass in H. destruct (known_panic_class p); congruence. }
  pose proof (parse_query_not_panic p N) as P.
  destruct (parse_query p) as [q|k|s]; [left|right|discriminate]; eauto.
Qed.

(* ... and it returns a query exactly for the supported grammar *)
Theorem C12_accepts_exactly_supported :
  forall p, ~ KnownPanicClass p ->
    (supported p = true -> exists q, parse_query p = Val q) /\
    (supported p = false -> exists k, parse_query p = Err k).
Proof.
  intros p H. assert (N : known_panic_class p = false).
  { unfold KnownPanicClass in H. destruct (known_panic_class p); congruence. }
  pose proof (parse_query_not_panic p N) as P. pose proof (parse_query_is_val p N) as V.
  split; intro S; rewrite S in V; destruct (parse_query p) as [q|k|s]; try discriminate; eauto.
Qed.

(* normalisation (nested aggregates are a TypeError) never panics either *)
Theorem C12_normalize_total :
  forall q, (exists r, normalize q = Val r) \/ (exists k, normalize q = Err k).
Proof.
  intro q. pose proof (normalize_never_panics q) as P.
  destruct (normalize q) as [r|k|s]; [left|right|discriminate]; eauto.
Qed.

(* ---- unsupported constructs are error values ---------------------------------------------------- *)

Theorem C12_unsupported_is_error :
  (* query shell: GROUP BY, HAVING, DISTINCT, several FROM items, JOIN *)
  (forall s ob lc, shell_unsupported s ->
     parse_query (POk [StQuery (BdSelect s) ob lc]) = Err NotImplemented) /\
  (* set operations, VALUES, nested query bodies *)
  (forall ob lc, parse_query (POk [StQuery BdOther ob lc]) = Err NotImplemented) /\
  (* INSERT / UPDATE / DELETE / DDL, several statements, text the parser rejects *)
  parse_query (POk [StOther]) = Err ParseError /\
  (forall a b rest, parse_query (POk (a :: b :: rest)) = Err ParseError) /\
  parse_query PParserError = Err ParseError /\
  parse_query POtherError = Err Fatal /\
  (* expressions: the unsupported node decides, whatever its operands are *)
  (forall l r, convert_expr (EBinary BOther l r) = Err NotImplemented) /\
  (forall x, convert_expr (EUnary UOther x) = Err Fatal) /\
  convert_expr (EValue VOther) = Err NotImplemented /\
  convert_expr EOther = Err NotImplemented /\
  (forall n x p, convert_expr (ELike n x p true) = Err NotImplemented) /\
  (forall name args, function_kind name = FUnknown ->
     convert_expr (EFunction name args) = Err NotImplemented) /\
  (* named / wildcard / qualified-wildcard arguments of a known function *)
  (forall name a, function_kind name <> FUnknown -> function_kind name <> FRegex -> arg_rejected a ->
     convert_expr (EFunction name (FList1 a)) = Err NotImplemented) /\
  (forall name a b, function_kind name = FRegex -> arg_rejected a ->
     convert_expr (EFunction name (FList2 a b)) = Err NotImplemented) /\
  (* wrong number of arguments, no argument list, subquery argument *)
  (forall name args, function_kind name <> FUnknown ->
     match function_kind name, args with
     | FRegex, FList2 _ _ => False
     | FRegex, _ => True
     | _, FList1 _ => False
     | _, _ => True
     end -> convert_expr (EFunction name args) = Err ParseError).
Proof.
  repeat match goal with |- _ /\ _ => split end.
  - exact shell_unsupported_err.
  - exact set_operation_err.
  - reflexivity.
  - exact several_statements_err.
  - reflexivity.
  - reflexivity.
  - exact unsupported_binop.
  - exact unsupported_unop.
  - exact unsupported_value.
  - exact unsupported_node.
  - exact like_escape.
  - exact unknown_function.
  - exact function_named_arg.
  - intros name a b K A. cbn [convert_expr]. rewrite K, (rejected_arg _ A). reflexivity.
  - exact function_wrong_arity.
Qed.

(* a statement with an unsupported part anywhere is rejected with an error value (outside the
   panic class): this is C12_accepts_exactly_supported read from right to left *)
Theorem C12_not_supported_never_answered :
  forall p q, ~ KnownPanicClass p -> parse_query p = Val q -> supported p = true.
Proof.
  intros p q H E. destruct (supported p) eqn:S; [reflexivity|].
  destruct (C12_accepts_exactly_supported p H) as [_ B]. destruct (B S) as (k & K). congruence.
Qed.

(* ---- names --------------------------------------------------------------------------------------- *)

(* when the conversion succeeds there is exactly one output column name per select item, in
   select-list order: `*`, or the alias / written text without its surrounding quote characters *)
Theorem C12_names :
  forall p q, parse_query p = Val q ->
    length (output_names q) = length (projection_of p) /\
    map (fun n => Some n) (output_names q) = map expected_name (projection_of p).
Proof.
  intros p q H. split; [eapply parse_query_names_length|eapply parse_query_names]; eauto.
Qed.

(* ---- normalize: select positions <-> projection / aggregate slots --------------------------------- *)

(* without a final pass every select position is mapped to an existing slot that carries the
   item's name, and the projection (aggregate) slots are used exactly once each, in order *)
Theorem C12_slots_direct :
  forall q main src, normalize q = Val (main, None, src) ->
    length src = length (q_select q) /\
    proj_slots src = seq 0 (length (nf_projection main)) /\
    agg_slots src = seq 0 (length (nf_aggregate main)) /\
    map (slot_name (nf_projection main) (nf_aggregate main)) src
    = map (fun n => Some n) (map ci_name (q_select q)).
Proof. exact normalize_direct. Qed.

(* with a final pass the output is the final projection: position i <-> final column i, same
   names, and LIMIT/OFFSET move to the final pass *)
Theorem C12_slots_final :
  forall q main fin src, normalize q = Val (main, Some fin, src) ->
    src = map Proj (seq 0 (length (q_select q))) /\
    map ci_name (nf_projection fin) = map ci_name (q_select q) /\
    nf_limit fin = q_limit q /\ nf_offset fin = q_offset q.
Proof. exact normalize_final. Qed.

(* ---- the output slice ------------------------------------------------------------------------------ *)

(* convert_to_output_format returns `count` rows starting at `offset`: never more than LIMIT, never
   past the end — unless OFFSET exceeds the number of rows, where the subtraction underflows
   (finding F5) *)
Theorem C12_slice :
  forall limit offset len,
    (offset <= len -> exists c, output_slice limit offset len = Slice offset c /\ c <= limit /\ offset + c <= len) /\
    (len < offset -> output_slice limit offset len = SlicePanic).
Proof.
  intros limit offset len. unfold output_slice. split; intro H.
  - destruct (N.ltb_spec len offset) as [L|L]; [lia|].
    exists (N.min limit (len - offset)). repeat split; lia.
  - destruct (N.ltb_spec len offset) as [L|L]; [reflexivity|lia].
Qed.

Theorem C12_slice_refuted : output_slice 2 13 12 = SlicePanic /\ combined_limit true u64_max 3 = SumPanic.
Proof. vm_compute. split; reflexivity. Qed.

Theorem C12_combined_limit :
  forall checked limit offset, limit + offset <= u64_max -> combined_limit checked limit offset = Sum (limit + offset).
Proof.
  intros c l o H. unfold combined_limit. destruct (N.ltb_spec u64_max (l + o)); [lia|reflexivity].
Qed.

(* ---- non-vacuity ------------------------------------------------------------------------------------ *)

(* SELECT a AS x, COUNT(1), "i", * FROM t WHERE i > 1 [ORDER BY i DESC] LIMIT 10 OFFSET 2 : supported,
   outside the class, converted, names in order; with the ORDER BY a final pass is needed *)
Definition ex_query_with (ob : order_by) : parsed :=
  POk [StQuery (BdSelect {| s_distinct := false;
                            s_projection := [SIAlias (EIdent [97]) [120];
                                             SIUnnamed (EFunction n_COUNT (FList1 (FAExpr (EValue (VNumber [49] None)))))
                                                       [67; 79; 85; 78; 84; 40; 49; 41];
                                             SIUnnamed (EIdent b_i) [34; 105; 34];
                                             SIWildcard];
                            s_from := [{| fi_relation := TFTable b_t; fi_joins := 0 |}];
                            s_selection := Some (EBinary BGt (EIdent b_i) (EValue (VNumber [49] None)));
                            s_group_by := GBExprs 0 0; s_having := false |})
               ob
               (LCLimitOffset (Some (EValue (VNumber [49; 48] None))) (Some (EValue (VNumber [50] None))))].

Example C12_example :
  let ex_query := ex_query_with OBNone in
  ~ KnownPanicClass ex_query /\ supported ex_query = true /\
  match parse_query ex_query with
  | Val q => output_names q = [[120]; [67; 79; 85; 78; 84; 40; 49; 41]; [105]; [42]]
             /\ q_limit q = 10 /\ q_offset q = 2
             /\ match normalize q with
                | Val (_, None, src) => src = [Proj 0; Agg 0; Proj 1; Proj 2]
                | _ => False
                end
  | _ => False
  end.
Proof. vm_compute. repeat split; congruence. Qed.

Example C12_example_final_pass :
  match parse_query (ex_query_with (OBExprs [(EIdent b_i, Some false)])) with
  | Val q => match normalize q with
             | Val (_, Some fin, src) => src = [Proj 0; Proj 1; Proj 2; Proj 3] /\ nf_limit fin = 10
             | _ => False
             end
  | _ => False
  end.
Proof. vm_compute. split; reflexivity. Qed.

(* an unsupported shell in the sense of C12_unsupported_is_error *)
Example C12_example_unsupported :
  shell_unsupported {| s_distinct := true; s_projection := []; s_from := []; s_selection := None;
                       s_group_by := GBAll; s_having := false |}.
Proof. right. right. left. reflexivity. Qed.
