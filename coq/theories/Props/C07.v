(* C07 — Flush, compaction and eviction never change table content.
   Statements are about Model/TableSM.v and Model/WalSM.v.  [run true] is the guarded run: it stops
   (outcome Known KF1) where compaction would execute the site of the open finding F1, and
   (outcome Known KF3) where its name set would not cover the merged rows - unreachable for
   well-formed requests since F3 was fixed, see C13_compaction_carries_all; the faithful run
   [run false] executes them, and C07_compaction_loses_nulls_refuted shows what then happens. *)
From Coq Require Import NArith ZArith List Bool Lia.
From LV Require Import Model.TableSM Model.Catalogue Model.WalSM
     Proofs.TableSM Proofs.WalSMBase Proofs.WalSM Proofs.WalSMLog Proofs.WalSMFlush.
Import ListNotations.
Open Scope N_scope.

(* In every reachable state the partition ranges of every table tile [0, next_partition_offset),
   partition ids are unique and below next_partition_id. *)
Theorem C07_tiling :
  forall (c : cfg) (ops : list op) (s : db) (n : name) (t : tstate),
    run true c ops (init c) = Val s -> lookup n (tabs s) = Some t ->
    tiles 0 (t_parts t) (t_next_off t) /\
    NoDup (map p_id (t_parts t)) /\
    Forall (fun p => p_id p < t_next_id t) (t_parts t) /\
    t_next_off t = N.of_nat (length (part_rows (t_parts t))).
Proof.
  intros c ops s n t H L. pose proof (reachable_inv _ _ _ H) as I.
  pose proof (i_tabs _ I n) as T. unfold view in T. rewrite L in T. destruct T as [[T1 T2 T3] _ _ _ _].
  repeat split; auto. apply tiles_len in T1. rewrite T1. reflexivity.
Qed.

(* plan_compaction returns an index into the partition list: what is merged is a non-empty suffix
   of the partitions in offset order - for every factor and every size oracle. *)
Theorem C07_plan_suffix :
  forall (f : N) (ps : list part) (i : nat),
    plan_compaction f ps = PlanFrom i -> (i < length ps)%nat /\ skipn i ps <> [].
Proof.
  intros f ps i H. apply plan_compaction_range in H. split; auto.
  intro E. assert (L : length (skipn i ps) = 0%nat) by (rewrite E; reflexivity).
  rewrite skipn_length in L. lia.
Qed.

(* Every maintenance operation - flush with batching and compaction (forced or background, any
   factor, any size oracle), eviction, restart - leaves the content of every table as it was: same
   rows, same order, same cells (a row carries its columns, so no column is dropped). *)
Theorem C07_content_preserved :
  forall (c : cfg) (ops : list op) (o : op) (s s' : db),
    run true c ops (init c) = Val s ->
    (forall b bytes, o <> OIngest b bytes) ->
    step true c s o = Val s' ->
    forall n, content s' n = content s n.
Proof.
  intros c ops o s s' H Hne F n. pose proof (reachable_inv _ _ _ H) as I.
  destruct o as [b bytes|bg orc| |]; cbn [step] in F.
  - exfalso. eapply Hne. reflexivity.
  - destruct (bg && negb (bg_enabled c s)); [discriminate|].
    destruct (flush_spec _ _ _ _ I F) as [_ [Hc _]]. apply Hc.
  - injection F as <-. reflexivity.
  - destruct (recover_spec _ _ _ I F) as [_ [Hc _]]. apply Hc.
Qed.

(* Eviction and reload: what a reload reads from the partition file is what the partition holds. *)
Theorem C07_evict_reload :
  forall (c : cfg) (ops : list op) (s : db) (n : name) (t : tstate) (p : part),
    run true c ops (init c) = Val s -> lookup n (tabs s) = Some t -> In p (t_parts t) ->
    find_file (p_id p) (t_files t) = Some (p_rows p).
Proof.
  intros c ops s n t p H L HI. pose proof (reachable_inv _ _ _ H) as I.
  pose proof (i_tabs _ I n) as T. unfold view in T. rewrite L in T. destruct T as [[_ _ T3] Tf _ _ _].
  rewrite Tf. apply find_file_map; auto.
Qed.

(* The guarded compaction, when it goes ahead, produces exactly the rows of the merged partitions. *)
Theorem C07_compact_rows :
  forall (sz : N) (i : nat) (cols : list name) (t t' : tstate),
    compact true sz i cols t = TVal t' ->
    exists p, t_parts t' = firstn i (t_parts t) ++ [p] /\ p_rows p = part_rows (skipn i (t_parts t)).
Proof.
  intros sz i cols t t' H. unfold compact in H.
  destruct (skipn i (t_parts t)) as [|first rest] eqn:E; [discriminate|]. cbn [andb] in H.
  destruct (cols_complete cols (part_rows (first :: rest))) eqn:Ec; cbn [negb] in H; [|discriminate].
  destruct (f1_free cols (first :: rest)) eqn:Ef; cbn [negb] in H; [|discriminate].
  injection H as <-. cbn [t_parts]. eexists. split; [reflexivity|]. cbn [p_rows].
  apply rebuild_rows_id; auto.
Qed.

(* Finding F1 (faithful model): a compaction that merges a partition in which a column is NULL in
   some rows and not in others does not preserve content - the NULL comes back as 0.  The witness:
   one batch with a = [10, NULL], one forced flush with partition_combine_factor = 0. *)
Definition f1_cfg : cfg :=
  {| c_factor := 0; c_max_wal_files := 1000; c_max_wal_bytes := 67108864 |}.
Definition f1_t : name := [116; 49].
Definition f1_id : name := [105; 100].
Definition f1_a : name := [97].
Definition f1_batch : batch :=
  [{| tb_name := f1_t; tb_cols := [f1_id; f1_a];
      tb_rows := [[(f1_id, CInt 0); (f1_a, CInt 10)]; [(f1_id, CInt 1); (f1_a, CNull)]] |}].
Definition f1_orc : oracle := [(f1_t, (5, 4)); (s_meta_tables, (22, 22)); (meta_columns_of f1_t, (5, 5))].
Definition f1_ops : list op := [OIngest f1_batch 244; OFlush false f1_orc].

Theorem C07_compaction_loses_nulls_refuted :
  exists s, run false f1_cfg f1_ops (init f1_cfg) = Val s /\
    map (fun r => get r f1_a) (content s f1_t) = [CInt 10; CInt 0] /\
    map (fun r => get r f1_a) (acked_rows (acked s) f1_t) = [CInt 10; CNull] /\
    run true f1_cfg f1_ops (init f1_cfg) = Known KF1.
Proof.
  eexists. split; [vm_compute; reflexivity|]. split; [vm_compute; reflexivity|].
  split; vm_compute; reflexivity.
Qed.

(* non-vacuity of the guarded statements: a history with absent columns, compaction at every
   flush, eviction and a restart goes through and keeps the content *)
Definition ex_b2 : batch :=
  [{| tb_name := f1_t; tb_cols := [f1_id]; tb_rows := [[(f1_id, CInt 2)]; [(f1_id, CInt 3)]] |}].
Definition ex_b1 : batch :=
  [{| tb_name := f1_t; tb_cols := [f1_id; f1_a];
      tb_rows := [[(f1_id, CInt 0); (f1_a, CInt 10)]; [(f1_id, CInt 1); (f1_a, CInt 11)]] |}].
Definition ex_ops : list op :=
  [OIngest ex_b1 244; OFlush false f1_orc; OIngest ex_b2 100; OFlush false f1_orc; OEvict; ORestart].

Example C07_example :
  exists s, run true f1_cfg ex_ops (init f1_cfg) = Val s /\
    map (fun r => get r f1_a) (content s f1_t) = [CInt 10; CInt 11; CNull; CNull] /\
    (exists t, lookup f1_t (tabs s) = Some t /\ map p_id (t_parts t) = [3] /\ t_next_off t = 4).
Proof.
  eexists. split; [vm_compute; reflexivity|]. split; [vm_compute; reflexivity|].
  eexists. split; [vm_compute; reflexivity|]. vm_compute. auto.
Qed.
