(* C04 — Aggregates are computed per distinct group, once, over all rows.
   Property theorems only.  Model/MergeKernels.v transcribes merge_deduplicate.rs,
   merge_deduplicate_partitioned.rs, merge_drop.rs and merge_aggregate.rs (with
   Combinable<i64>::combine from Model/CheckedArith.v); the kernels are tied to the Rust code by
   the lv_query harness (suite c04_kernel) and grouping as a whole is checked against
   Model/QuerySpec.v through LocustDB::run_query (suite c04_group) on every run.

   Keys are integers ordered by Z (a key's rank in the key order); a group-by result is an
   association list (key, aggregate) strictly sorted by key. *)
From Coq Require Import ZArith List Bool Sorting.Sorted.
From LV Require Import Model.CheckedArith Model.MergeKernels Proofs.MergeKernels.
Import ListNotations.
Open Scope Z_scope.

(* The index loop of merge_deduplicate.rs (with its `result.last() == right[j]` test and its tails)
   computes the three-way merge of two strictly sorted key columns: the strictly sorted union,
   TakeLeft for every left key, TakeRight / MergeRight for every right key, a MergeRight always
   directly after the TakeLeft of the same key. *)
Theorem C04_merge_dedup_keys :
  forall l r, ssorted l -> ssorted r -> merge_deduplicate Z.leb Z.eqb l r = md_simple l r.
Proof. exact merge_deduplicate_is_three_way_merge. Qed.

(* C04_merge_dedup: merge_deduplicate on the key columns followed by merge_aggregate on an
   aggregate column yields exactly the union of the two partial group-by results, each key once,
   with COUNT/SUM/MIN/MAX combined exactly — whenever the kernel does not report Overflow.
   [plain_val]: in i64 and different from the I64_NULL sentinel (see C06_sum_sentinel_refuted). *)
Theorem C04_merge_dedup :
  forall k (L R : assoc) vs,
    ssorted (keys L) -> ssorted (keys R) ->
    Forall plain_val (vals L) -> Forall plain_val (vals R) ->
    let '(ks, ops) := merge_deduplicate Z.leb Z.eqb (keys L) (keys R) in
    merge_aggregate k ops (vals L) (vals R) = AOk vs ->
    ks = keys (umerge k L R) /\ vs = vals (umerge k L R).
Proof. exact merge_dedup_aggregate_is_union. Qed.

(* C04_combine_is_group_eval: the union of the group-by results of two row sets is the group-by of
   the concatenated rows *)
Theorem C04_combine_is_group_eval :
  forall k a b, group_by k (a ++ b) = umerge k (group_by k a) (group_by k b).
Proof. exact group_by_app. Qed.

(* C04_each_group_once: over ANY binary merge tree of partitions the result is the group-by of all
   rows: strictly sorted keys (each group exactly once), exactly the keys that occur, and each
   group's value is the aggregate over exactly the rows of that group *)
Theorem C04_each_group_once :
  forall k t,
    gtree_out k t = group_by k (gtree_rows t) /\
    ssorted (keys (gtree_out k t)) /\
    (forall x, In x (keys (gtree_out k t)) <-> In x (map fst (gtree_rows t))) /\
    (forall x, lookup x (gtree_out k t) = agg_list k (group_values x (gtree_rows t))).
Proof.
  intros k t. rewrite group_by_any_tree. split; [reflexivity|]. split; [apply group_by_sorted|].
  split; [intros x; apply group_by_keys|intros x; apply group_by_value].
Qed.

(* non-vacuity: SUM over two partitions sharing a key; a partial sum that overflows at the merge *)
Example C04_example :
  let L := [(1, 10); (3, 5); (7, 9223372036854775800)] in
  let R := [(3, 6); (4, 1); (7, 1)] in
  merge_deduplicate Z.leb Z.eqb (keys L) (keys R)
    = ([1; 3; 4; 7], [TakeLeft; TakeLeft; MergeRight; TakeRight; TakeLeft; MergeRight]) /\
  merge_aggregate AggSum [TakeLeft; TakeLeft; MergeRight; TakeRight; TakeLeft; MergeRight] (vals L) (vals R)
    = AOk [10; 11; 1; 9223372036854775801] /\
  merge_aggregate AggSum [TakeLeft; TakeLeft; MergeRight; TakeRight; TakeLeft; MergeRight] (vals L) [6; 1; 8]
    = AOverflow /\
  group_by AggSum ([(3, 5); (1, 10)] ++ [(4, 1); (3, 6)]) = [(1, 10); (3, 11); (4, 1)].
Proof. repeat split; vm_compute; reflexivity. Qed.
