(* C13 — Columns may come and go; the catalogue lists each exactly once.
   Statements are about Model/Catalogue.v and Model/WalSM.v ([run true]: the guarded run, see
   Props/C08.v). *)
From Coq Require Import NArith ZArith List Bool Lia.
From LV Require Import Model.TableSM Model.Catalogue Model.WalSM
     Proofs.TableSM Proofs.WalSMBase Proofs.WalSM Proofs.WalSMLog Proofs.Catalogue
     Proofs.CatalogueLog Proofs.CatalogueInv Proofs.CatalogueFlush Proofs.CatalogueRecover
     Proofs.CatalogueMain Proofs.CatalogueSeed Proofs.CatalogueKF3 Proofs.CatalogueTotal
     Proofs.CatalogueTables Proofs.CatalogueTablesInv.
Import ListNotations.
Open Scope N_scope.

(* A column a batch did not mention reads NULL for that batch's rows ... *)
Theorem C13_missing_is_null_batch :
  forall (tb : tbatch) (col : name),
    wf_tbatch tb -> ~ In col (tb_cols tb) -> Forall (fun r => get r col = CNull) (tb_rows tb).
Proof. exact tbatch_missing_null. Qed.

(* ... and keeps doing so after any number of flushes, compactions, evictions and restarts, because
   in every reachable state a client table serves exactly the rows sent to it, cell for cell: a
   column first seen late reads NULL for all earlier rows, a column a batch did not carry reads NULL
   for that batch's rows. *)
Theorem C13_missing_is_null :
  forall (c : cfg) (ops : list op) (s : db) (n col : name),
    run true c ops (init c) = Val s -> user_table n = true ->
    map (fun r => get r col) (content s n) = map (fun r => get r col) (ingested ops n).
Proof. intros c ops s n col H Hn. rewrite (content_is_ingested _ _ _ _ H Hn). reflexivity. Qed.

(* The catalogue rows a request gives rise to travel in the request's own log segment: an ingestion
   writes one segment, whose data is the client's event buffer followed by entries for catalogue
   tables only. *)
Theorem C13_catalogue_rows_same_segment :
  forall (c : cfg) (ops : list op) (b : batch) (bytes : N) (s s' : db),
    run true c ops (init c) = Val s ->
    step true c s (OIngest b bytes) = Val s' ->
    exists extra, meta_named extra /\
      d_wal s' = d_wal s ++ [(next_wal s, {| sg_bytes := bytes; sg_data := b ++ extra |})] /\
      acked s' = acked s ++ [b ++ extra].
Proof.
  intros c ops b bytes s s' H F. pose proof (reachable_inv _ _ _ H) as I. cbn [step] in F.
  destruct (ingest_spec _ _ _ _ _ I F) as [_ [extra [Ea [_ [Hw _]]]]].
  exists extra. split; [eapply ingest_extra_meta; eauto|]. auto.
Qed.

(* The catalogue is exact.  For every history of well-formed requests (wf_batch: table names
   distinct within a request and not catalogue-like, at least one column and one row per entry,
   column names distinct, rows mention only the entry's columns) interleaved with flushes (any
   factor, any sizes, forced or background), evictions and restarts, in every reachable state and
   for every client table: SELECT column_name FROM _meta_columns_<t> is a column of strings that
   lists exactly the names some request mentioned for t - each exactly once. *)
Theorem C13_catalogue_exact :
  forall (c : cfg) (ops : list op) (s : db) (t : name),
    Forall wf_op ops -> run true c ops (init c) = Val s -> user_table t = true ->
    exists names,
      string_column s_column_name (content s (meta_columns_of t)) = Some names /\
      NoDup names /\ (forall x, In x names <-> mentioned_ops ops t x).
Proof.
  intros c ops s t W H Hu. pose proof (reachable_inv _ _ _ H) as I. pose proof (reachable_cat _ _ _ W H) as C.
  destruct (catalogue_exact s t I C Hu) as [names [E [ND Hx]]]. exists names. split; auto. split; auto.
  intro x. rewrite Hx, (run_mentioned _ _ _ _ t x (inv_init c) H Hu). split.
  - intros [[f [tb [[] _]]]|H0]. exact H0.
  - auto.
Qed.

(* The lazily loaded name set: whenever the in-memory column-name set of a client table is present
   (it is dropped by a restart and reloaded from the catalogue table at the next ingestion, replay
   or compaction), it is the catalogue - so a name is recorded as new exactly when it is new, and
   compaction of a client table iterates over every column its rows carry. *)
Theorem C13_loaded_names_are_catalogue :
  forall (c : cfg) (ops : list op) (s : db) (t : name) (tt : tstate) (cs : list name),
    Forall wf_op ops -> run true c ops (init c) = Val s -> user_table t = true ->
    lookup t (tabs s) = Some tt -> t_cols tt = Some cs ->
    (forall x, In x cs <-> mentioned_ops ops t x) /\
    Forall (fun r => incl (row_cols r) cs) (content s t).
Proof.
  intros c ops s t tt cs W H Hu L Hc. pose proof (reachable_inv _ _ _ H) as I.
  pose proof (reachable_cat _ _ _ W H) as C. pose proof (c_cols _ C _ _ _ Hu L Hc) as Hs. split.
  - intro x. rewrite (Hs x), (log_names_exact _ _ x (c_log _ C) Hu), (run_mentioned _ _ _ _ t x (inv_init c) H Hu).
    split; [intros [[f [tb [[] _]]]|H0]; exact H0|auto].
  - rewrite (i_acked _ I). pose proof (log_rows_catalogued _ _ (c_log _ C) Hu) as Hr.
    eapply Forall_impl; [|exact Hr]. cbn. intros r Hi x Hx. apply Hs. apply Hi. exact Hx.
Qed.

(* Compaction carries every column over.  In every history of well-formed requests the guarded
   run never stops at the "name set incomplete" site of compaction (KF3): whenever a flush compacts
   partitions of any table (client table, _meta_tables, _meta_columns_<t>), the name set it
   iterates over (Table.column_names) covers every column the merged rows carry.  So the only site
   at which the guarded run can stop is KF1 (open finding F1).

   History (finding F3, fixed by 647a26b).  Until 647a26b Table::new seeded catalogue tables with
   the literal "column_names"; the model carried the literal as a parameter c_seed of the
   configuration, this theorem had the premise c_seed c = "column_name", and for the literal of the
   code it was refuted:
     Theorem C13_compaction_carries_all_refuted :
       exists s, run false (f3_cfg s_column_names) f3_ops (init (f3_cfg s_column_names)) = Val s /\
         string_column s_column_name (content s (meta_columns_of f3_t)) = None /\
         map (fun r => get r s_column_name) (acked_rows (acked s) (meta_columns_of f3_t)) = [CStr f3_id] /\
         run true (f3_cfg s_column_names) f3_ops (init (f3_cfg s_column_names)) = Known KF3.
   The same history is [C13_f3_witness_passes] below. *)
Theorem C13_compaction_carries_all :
  forall (c : cfg) (ops : list op),
    Forall wf_op ops -> run true c ops (init c) <> Known KF3.
Proof. exact run_not_kf3. Qed.

Corollary C13_guard_stops_only_at_F1 :
  forall (c : cfg) (ops : list op) (k : known),
    Forall wf_op ops -> run true c ops (init c) = Known k -> k = KF1.
Proof.
  intros c ops k W H. destruct k; [reflexivity|]. exfalso. eapply C13_compaction_carries_all; eauto.
Qed.

(* A restart always returns.  For every history of well-formed requests the restart of the reached
   state ends in a state: the lazy loading of column names during WAL replay always finds the
   catalogue table (a client table restored from partitions has a restored catalogue table, since
   its first rows and its first catalogue rows were flushed together and partitions are never
   empty) and finds only strings in it.  Together with C08_contiguity_assert_unreachable: none of
   the panic sites of InnerLocustDB::new / Storage::recover is reachable by clean restarts. *)
Theorem C13_restart_total :
  forall (c : cfg) (ops : list op) (s : db),
    Forall wf_op ops -> run true c ops (init c) = Val s -> exists s', step true c s ORestart = Val s'.
Proof. exact reachable_restart_total. Qed.

(* The list of tables is exact: in every reachable state SELECT name FROM _meta_tables is a column
   of strings that lists exactly the tables of the database other than _meta_tables itself (client
   tables and their _meta_columns_<t> tables), each exactly once. *)
Theorem C13_tables_listed :
  forall (c : cfg) (ops : list op) (s : db),
    Forall wf_op ops -> run true c ops (init c) = Val s ->
    exists names, string_column s_name (content s s_meta_tables) = Some names /\ NoDup names /\
      forall n, In n names <-> (n <> s_meta_tables /\ exists t, lookup n (tabs s) = Some t).
Proof. exact tables_listed. Qed.

(* The witness of the retired finding F3: ingest, flush, restart, ingest (no new column), flush -
   with partition_combine_factor 0, so that the second flush compacts the catalogue table restored
   from disk. *)
Definition f3_cfg : cfg :=
  {| c_factor := 0; c_max_wal_files := 1000; c_max_wal_bytes := 67108864 |}.
Definition f3_t : name := [116; 49].
Definition f3_id : name := [105; 100].
Definition f3_batch (k : Z) : batch :=
  [{| tb_name := f3_t; tb_cols := [f3_id]; tb_rows := [[(f3_id, CInt k)]] |}].
Definition f3_orc : oracle :=
  [(f3_t, (5, 7)); (s_meta_tables, (22, 22)); (meta_columns_of f3_t, (5, 7))].
Definition f3_ops : list op :=
  [OIngest (f3_batch 0) 200; OFlush false f3_orc; ORestart; OIngest (f3_batch 1) 100; OFlush false f3_orc].

(* the requests of the witness are well-formed: the theorems above apply to it *)
Example C13_witness_wf : Forall wf_op f3_ops.
Proof.
  assert (W : forall k, wf_batch (f3_batch k)).
  { intro k. constructor; cbn.
    - constructor; [tauto|constructor].
    - constructor; [reflexivity|constructor].
    - constructor; [|constructor]. unfold wf_tbatch. cbn. constructor; [|constructor].
      intros x Hx. exact Hx.
    - constructor; [|constructor]. constructor; [tauto|constructor].
    - constructor; [|constructor]. split; discriminate. }
  unfold f3_ops. constructor; [apply W|]. constructor; [exact I|]. constructor; [exact I|].
  constructor; [apply W|]. constructor; [exact I|]. constructor.
Qed.

(* the history goes through, guarded and faithful run agree, and the catalogue lists the column once *)
Example C13_f3_witness_passes :
  exists s, run true f3_cfg f3_ops (init f3_cfg) = Val s /\
    run false f3_cfg f3_ops (init f3_cfg) = Val s /\
    string_column s_column_name (content s (meta_columns_of f3_t)) = Some [f3_id] /\
    string_column s_name (content s s_meta_tables) = Some [f3_t; meta_columns_of f3_t].
Proof.
  eexists. split; [vm_compute; reflexivity|]. split; [vm_compute; reflexivity|].
  split; vm_compute; reflexivity.
Qed.
