(* C09 — Recovery after a crash at any point is possible and atomic.
   Statements are about Model/CrashSM.v: the directory after any prefix ([cut]) of the primitive
   effects of an operation started from a reachable state at rest, and what InnerLocustDB::new
   ([recover_c]) makes of it.  [recovers r f]: the recovery returned a database whose content is
   [f], for every table at once.  Process death only: effects reach the disk in program order.

   The model is that of the code since commit 4e8886f (Storage::recover keeps the files of wal/
   called <u64>.wal and removes the others).  History: before it, a log temp file left by a crash
   during persist_wal_segment was loaded like a segment (findings F8, F8b); the theorems then read
   "recovery fails exactly at cut 1 of an ingestion" (C09_ingest_cuts) and
     Theorem C09_recoverable_refuted :
       exists s', step true f8_cfg (init f8_cfg) (OIngest f8_batch 200) = Val s' /\
         recover_c f8_cfg (cut (at_rest (init f8_cfg)) (ingest_effects 0 200 (last_batch s')) 1) = RFail.
   The same witness is now [C09_f8_witness_recovers] below. *)
From Coq Require Import NArith ZArith List Bool Lia.
From LV Require Import Model.TableSM Model.Catalogue Model.WalSM Model.CrashSM
     Proofs.TableSM Proofs.WalSMBase Proofs.WalSM Proofs.WalSMLog Proofs.CatalogueMain
     Proofs.CrashSM Proofs.CrashSMCuts Proofs.CrashSMFlush Proofs.CrashSMTotal.
Import ListNotations.
Open Scope N_scope.

(* Ingestion.  The cuts of persist_wal_segment are 0: nothing yet, 1: temp file created or partly
   written, 2: temp file completely written, >= 3: renamed.  Up to the rename recovery gives the
   acknowledged requests (the temp file is not read), from the rename on those plus the request in
   flight - whole, across all the tables it touches, catalogue rows included, because they travel
   in the same segment.  No cut makes recovery fail. *)
Theorem C09_ingest_cuts :
  forall (c : cfg) (ops : list op) (b : batch) (bytes : N) (s s' : db) (k : nat),
    Forall wf_op ops -> wf_op (OIngest b bytes) ->
    run true c ops (init c) = Val s ->
    step true c s (OIngest b bytes) = Val s' ->
    recovers (recover_c c (cut (at_rest s) (ingest_effects (next_wal s) bytes (last_batch s')) k))
             (if (k <? 3)%nat then content s else content s').
Proof.
  intros c ops b bytes s s' k W Wb H F. apply (ingest_cuts_total c b bytes s s' k); auto.
  eapply reachable_reach; eauto.
Qed.

(* Flush - batching, partition files, compaction, catalogue replacement, removal of merged-away
   partition files and of log segments, for every factor and size oracle: from every prefix of its
   effects recovery returns the acknowledged content (a flush has no request in flight). *)
Theorem C09_flush_cuts :
  forall (c : cfg) (ops : list op) (o : oracle) (s : db) (l1 : list (name * tstate)) (k : nat),
    Forall wf_op ops ->
    run true c ops (init c) = Val s ->
    flush_mid true c o s = Val l1 ->
    recovers (recover_c c (cut (at_rest s) (flush_effects s l1) k)) (content s).
Proof. intros c ops o s l1 k W H F. eapply flush_cuts_total; eauto. eapply reachable_reach; eauto. Qed.

(* From every cut of every operation that writes, recovery returns a database. *)
Theorem C09_recoverable :
  forall (c : cfg) (ops : list op) (s : db), Forall wf_op ops -> run true c ops (init c) = Val s ->
    (forall b bytes s' k, wf_op (OIngest b bytes) -> step true c s (OIngest b bytes) = Val s' ->
       exists s0, recover_c c (cut (at_rest s) (ingest_effects (next_wal s) bytes (last_batch s')) k) = Val s0) /\
    (forall o l1 k, flush_mid true c o s = Val l1 ->
       exists s0, recover_c c (cut (at_rest s) (flush_effects s l1) k) = Val s0).
Proof.
  intros c ops s W H. split.
  - intros b bytes s' k Wb F. destruct (C09_ingest_cuts c ops b bytes s s' k W Wb H F) as [s0 [E _]]. eauto.
  - intros o l1 k F. destruct (C09_flush_cuts c ops o s l1 k W H F) as [s0 [E _]]. eauto.
Qed.

(* Without the premise that the requests are well formed (table names outside the catalogue
   namespace, see C13) the same holds up to the catalogue look-ups of the replay: recovery returns
   that content or stops at one of them ([good_recovery]). *)
Theorem C09_cuts_any_history :
  forall (c : cfg) (ops : list op) (s : db), run true c ops (init c) = Val s ->
    (forall b bytes s' k, step true c s (OIngest b bytes) = Val s' ->
       good_recovery (recover_c c (cut (at_rest s) (ingest_effects (next_wal s) bytes (last_batch s')) k))
                     (if (k <? 3)%nat then content s else content s')) /\
    (forall o l1 k, flush_mid true c o s = Val l1 ->
       good_recovery (recover_c c (cut (at_rest s) (flush_effects s l1) k)) (content s)).
Proof.
  intros c ops s H. pose proof (reachable_inv _ _ _ H) as I. split.
  - intros b bytes s' k F. apply (ingest_cuts c b bytes s s' k); auto.
  - intros o l1 k F. eapply flush_cuts; eauto.
Qed.

(* The ordering the proof rests on: partition files, then the catalogue file, then removals. *)
Theorem C09_order :
  forall (s : db) (l1 : list (name * tstate)),
    exists stores removes,
      flush_effects s l1 = stores ++ [EMetaStore (next_wal s) (new_metas l1)] ++ removes /\
      forallb is_part_store stores = true /\ forallb is_remove removes = true.
Proof.
  intros s l1. exists (part_stores l1), (part_removes l1 ++ wal_removes (earliest s) (next_wal s)).
  split; [reflexivity|]. split.
  - unfold part_stores. induction l1 as [|[n t] l1 IH]; [reflexivity|]. cbn [flat_map].
    rewrite forallb_app, IH, andb_true_r. induction (added_files (snd (n, t))); cbn; auto.
  - rewrite forallb_app. apply andb_true_intro. split.
    + unfold part_removes. induction l1 as [|[n t] l1 IH]; [reflexivity|]. cbn [flat_map].
      rewrite forallb_app, IH, andb_true_r. induction (t_dead (snd (n, t))); cbn; auto.
    + unfold wal_removes. induction (seq_ids (earliest s) (N.to_nat (next_wal s - earliest s))); cbn; auto.
Qed.

(* Recovery's own effects - the removal of a leftover log temp file, then of the segments below
   the cursor - and a crash during them (second level):
   - a state at rest gives recovery nothing to remove;
   - from a cut of an ingestion it removes at most the temp file, and what a later recovery returns
     does not depend on whether that happened;
   - from a cut of a flush it removes segments below the cursor, and from every prefix of those
     removals recovery returns the acknowledged content;
   - a second restart of a restarted state gives the same content, log and cursor again. *)
Theorem C09_idempotent :
  forall (c : cfg) (ops : list op) (s : db),
    Forall wf_op ops -> run true c ops (init c) = Val s ->
    recover_effects_c (at_rest s) = [] /\
    (forall b bytes s' k j, step true c s (OIngest b bytes) = Val s' ->
       let d := cut (at_rest s) (ingest_effects (next_wal s) bytes (last_batch s')) k in
       recover_c c (cut d (recover_effects_c d) j) = recover_c c d) /\
    (forall o l1 k j, flush_mid true c o s = Val l1 ->
       let d := cut (at_rest s) (flush_effects s l1) k in
       recovers (recover_c c (cut d (recover_effects_c d) j)) (content s)) /\
    (forall s1 s2, recover c s = Val s1 -> recover c s1 = Val s2 ->
                   (forall n, content s2 n = content s n) /\ d_wal s2 = d_wal s /\ d_cursor s2 = d_cursor s).
Proof.
  intros c ops s W H. pose proof (reachable_inv _ _ _ H) as I. split; [|split; [|split]].
  - unfold recover_effects_c. cbn [at_rest cd_tmp cd_db app]. apply recover_effects_rest. exact I.
  - intros b bytes s' k j F. apply (recovery_cuts_ingest c s _ k j I).
  - intros o l1 k j F. eapply flush_recovery_cuts_total; eauto. eapply reachable_reach; eauto.
  - intros s1 s2 R1 R2. destruct (recover_spec _ _ _ I R1) as [I1 [C1 [_ [W1 [K1 _]]]]].
    destruct (recover_spec _ _ _ I1 R2) as [_ [C2 [_ [W2 [K2 _]]]]].
    split; [intro n; rewrite C2; apply C1|]. split; congruence.
Qed.

(* The witness of the retired finding F8: the first ingestion cut while its temp file is incomplete.
   Recovery returns the empty database and has the temp file to remove. *)
Definition f8_cfg : cfg :=
  {| c_factor := 4; c_max_wal_files := 1000; c_max_wal_bytes := 67108864 |}.
Definition f8_batch : batch :=
  [{| tb_name := [116]; tb_cols := [[105; 100]]; tb_rows := [[([105; 100], CInt 0)]] |}].

Example C09_f8_witness_recovers :
  exists s' s0,
    step true f8_cfg (init f8_cfg) (OIngest f8_batch 200) = Val s' /\
    let d := cut (at_rest (init f8_cfg)) (ingest_effects 0 200 (last_batch s')) 1 in
    cd_tmp d = Some TmpPartial /\ recover_c f8_cfg d = Val s0 /\ content s0 [116] = [] /\
    recover_effects_c d = [EWalTmpRemove].
Proof.
  eexists. eexists. split; [vm_compute; reflexivity|]. split; [vm_compute; reflexivity|].
  split; [vm_compute; reflexivity|]. split; vm_compute; reflexivity.
Qed.

(* Non-vacuity: a flush with compaction whose every cut (12 of them) recovers to the acknowledged
   rows. *)
Definition ex_cfg : cfg :=
  {| c_factor := 0; c_max_wal_files := 1000; c_max_wal_bytes := 67108864 |}.
Definition ex_t : name := [116].
Definition ex_id : name := [105; 100].
Definition ex_b (k : Z) : batch :=
  [{| tb_name := ex_t; tb_cols := [ex_id]; tb_rows := [[(ex_id, CInt k)]; [(ex_id, CInt (k + 1))]] |}].
Definition ex_o : oracle := [(ex_t, (4, 6)); (s_meta_tables, (20, 22)); (meta_columns_of ex_t, (5, 7))].
Definition ex_ops : list op := [OIngest (ex_b 0) 200; OFlush false ex_o; OIngest (ex_b 2) 100; OIngest (ex_b 4) 90].

Definition content_after_cut (s : db) (l1 : list (name * tstate)) (k : nat) : option (list row) :=
  match recover_c ex_cfg (cut (at_rest s) (flush_effects s l1) k) with
  | Val s' => Some (content s' ex_t)
  | _ => None
  end.

Example C09_example :
  exists s l1, run true ex_cfg ex_ops (init ex_cfg) = Val s /\ flush_mid true ex_cfg ex_o s = Val l1 /\
    length (flush_effects s l1) = 11%nat /\
    forallb (fun k => match content_after_cut s l1 k with
                      | Some rows => Nat.eqb (length rows) 6
                      | None => false
                      end) (seq 0 13) = true.
Proof.
  eexists. eexists. split; [vm_compute; reflexivity|]. split; [vm_compute; reflexivity|].
  split; vm_compute; reflexivity.
Qed.
