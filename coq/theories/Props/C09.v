(* C09 — Recovery after a crash at any point is possible and atomic.
   Statements are about Model/CrashSM.v: the directory after any prefix ([cut]) of the primitive
   effects of an operation started from a reachable state at rest, and what InnerLocustDB::new
   ([recover_c]) makes of it.  [good_recovery r before after]: the recovery returned a database
   whose content is [before] or [after] for every table at once, or stopped at a catalogue-loading
   site (excluded for well-formed histories by C13).  Process death only: effects reach the disk in
   program order. *)
From Coq Require Import NArith ZArith List Bool Lia.
From LV Require Import Model.TableSM Model.Catalogue Model.WalSM Model.CrashSM
     Proofs.TableSM Proofs.WalSMBase Proofs.WalSM Proofs.WalSMLog
     Proofs.CrashSM Proofs.CrashSMCuts Proofs.CrashSMFlush.
Import ListNotations.
Open Scope N_scope.

(* Ingestion.  Of the cuts of persist_wal_segment (0: nothing yet, 1: temp file created or partly
   written, 2: temp file completely written, >= 3: renamed) exactly cut 1 makes recovery fail
   (finding F8: LocustDB::new panics - before commit b430922 it hung - on the unreadable temp file); from every other cut recovery gives the acknowledged requests, or those plus the
   request in flight - whole, across all the tables it touches, catalogue rows included, because
   they travel in the same segment. *)
Theorem C09_ingest_cuts :
  forall (c : cfg) (ops : list op) (b : batch) (bytes : N) (s s' : db) (k : nat),
    run true c ops (init c) = Val s ->
    step true c s (OIngest b bytes) = Val s' ->
    match recover_c c (cut (at_rest s) (ingest_effects (next_wal s) bytes (last_batch s')) k) with
    | RFail => k = 1%nat
    | ROut r => k <> 1%nat /\ good_recovery r (content s) (content s')
    end.
Proof.
  intros c ops b bytes s s' k H F. apply (ingest_cuts c b bytes s s' k); auto.
  eapply reachable_inv; eauto.
Qed.

(* The statement "from every cut recovery returns" is refuted by the cut "temp file of a segment
   created, not yet renamed" of the very first ingestion (F8). *)
Definition f8_cfg : cfg :=
  {| c_factor := 4; c_max_wal_files := 1000; c_max_wal_bytes := 67108864; c_seed := s_column_names |}.
Definition f8_batch : batch :=
  [{| tb_name := [116]; tb_cols := [[105; 100]]; tb_rows := [[([105; 100], CInt 0)]] |}].

Theorem C09_recoverable_refuted :
  exists s', step true f8_cfg (init f8_cfg) (OIngest f8_batch 200) = Val s' /\
    recover_c f8_cfg (cut (at_rest (init f8_cfg)) (ingest_effects 0 200 (last_batch s')) 1) = RFail.
Proof. eexists. split; vm_compute; reflexivity. Qed.

(* Flush - batching, partition files, compaction, catalogue replacement, removal of merged-away
   partition files and of log segments, for every factor and size oracle: from every prefix of its
   effects recovery returns the acknowledged content (a flush has no request in flight). *)
Theorem C09_flush_cuts :
  forall (c : cfg) (ops : list op) (o : oracle) (s : db) (l1 : list (name * tstate)) (k : nat),
    run true c ops (init c) = Val s ->
    flush_mid true c o s = Val l1 ->
    match recover_c c (cut (at_rest s) (flush_effects s l1) k) with
    | RFail => False
    | ROut r => good_recovery r (content s) (content s)
    end.
Proof. intros c ops o s l1 k H F. eapply flush_cuts; eauto. eapply reachable_inv; eauto. Qed.

(* The ordering the proof rests on: partition files, then the catalogue file, then removals. *)
Theorem C09_order :
  forall (s : db) (l1 : list (name * tstate)),
    exists stores removes,
      flush_effects s l1 = stores ++ [EMetaStore (next_wal s) (new_metas l1)] ++ removes /\
      forallb is_part_store stores = true /\ forallb is_remove removes = true.
Proof.
  intros s l1. exists (part_stores l1), (part_removes l1 ++ wal_removes (earliest s) (next_wal s)).
  split; [reflexivity|]. split.
  - unfold part_stores. induction l1 as [|[n t] l1 IH]; [reflexivity|]. cbn [flat_map].
    rewrite forallb_app, IH, andb_true_r. induction (added_files (snd (n, t))); cbn; auto.
  - rewrite forallb_app. apply andb_true_intro. split.
    + unfold part_removes. induction l1 as [|[n t] l1 IH]; [reflexivity|]. cbn [flat_map].
      rewrite forallb_app, IH, andb_true_r. induction (t_dead (snd (n, t))); cbn; auto.
    + unfold wal_removes. induction (seq_ids (earliest s) (N.to_nat (next_wal s - earliest s))); cbn; auto.
Qed.

(* Crashing during or right after a recovery changes nothing: the recovery of a state at rest has
   no effect on the directory at all (nothing lies below the cursor), any prefix of it recovers to
   the same content, and a second restart of the restarted state gives the same content again. *)
Theorem C09_idempotent :
  forall (c : cfg) (ops : list op) (s : db) (k : nat),
    run true c ops (init c) = Val s ->
    recover_effects s = [] /\
    match recover_c c (cut (at_rest s) (recover_effects s) k) with
    | RFail => False
    | ROut r => good_recovery r (content s) (content s)
    end /\
    forall s1 s2, recover c s = Val s1 -> recover c s1 = Val s2 ->
                  (forall n, content s2 n = content s n) /\ d_wal s2 = d_wal s /\ d_cursor s2 = d_cursor s.
Proof.
  intros c ops s k H. pose proof (reachable_inv _ _ _ H) as I. split; [|split].
  - pose proof (recovery_cuts c s 0 I) as _. unfold recover_effects. rewrite filter_none; [reflexivity|].
    intros x HI. apply N.ltb_ge.
    assert (Ecur : match d_cursor s with Some k => k | None => 0 end = earliest s).
    { pose proof (i_cursor _ I) as Hc. destruct (d_cursor s); congruence. }
    rewrite Ecur. eapply seqN_ge. rewrite <- (i_ids _ I). apply in_map. exact HI.
  - apply recovery_cuts. exact I.
  - intros s1 s2 R1 R2. destruct (recover_spec _ _ _ I R1) as [I1 [C1 [_ [W1 [K1 _]]]]].
    destruct (recover_spec _ _ _ I1 R2) as [_ [C2 [_ [W2 [K2 _]]]]].
    split; [intro n; rewrite C2; apply C1|]. split; congruence.
Qed.

(* A crash between the catalogue replacement and the removals leaves segments below the cursor and
   files of merged-away partitions behind; recovery removes the former (its own effects) and from
   every prefix of those removals the content is the same: instance of C09_flush_cuts, since the
   removals of the flush and of the recovery are the same effects.  Non-vacuity: a flush with
   compaction whose every cut (12 of them) recovers to the acknowledged rows. *)
Definition ex_cfg : cfg :=
  {| c_factor := 0; c_max_wal_files := 1000; c_max_wal_bytes := 67108864; c_seed := s_column_names |}.
Definition ex_t : name := [116].
Definition ex_id : name := [105; 100].
Definition ex_b (k : Z) : batch :=
  [{| tb_name := ex_t; tb_cols := [ex_id]; tb_rows := [[(ex_id, CInt k)]; [(ex_id, CInt (k + 1))]] |}].
Definition ex_o : oracle := [(ex_t, (4, 6)); (s_meta_tables, (20, 22)); (meta_columns_of ex_t, (5, 7))].
Definition ex_ops : list op := [OIngest (ex_b 0) 200; OFlush false ex_o; OIngest (ex_b 2) 100; OIngest (ex_b 4) 90].

Definition content_after_cut (s : db) (l1 : list (name * tstate)) (k : nat) : option (list row) :=
  match recover_c ex_cfg (cut (at_rest s) (flush_effects s l1) k) with
  | ROut (Val s') => Some (content s' ex_t)
  | _ => None
  end.

Example C09_example :
  exists s l1, run true ex_cfg ex_ops (init ex_cfg) = Val s /\ flush_mid true ex_cfg ex_o s = Val l1 /\
    length (flush_effects s l1) = 11%nat /\
    forallb (fun k => match content_after_cut s l1 k with
                      | Some rows => Nat.eqb (length rows) 6
                      | None => false
                      end) (seq 0 13) = true.
Proof.
  eexists. eexists. split; [vm_compute; reflexivity|]. split; [vm_compute; reflexivity|].
  split; vm_compute; reflexivity.
Qed.
