(* C02 — Query results do not depend on physical layout.
   Property theorems only.

   The specification [valid q table out] (Model/QuerySpec.v) mentions the logical table only: batch
   boundaries, partitions, compression, sub-partition size, streaming batch size and thread count
   are not inputs of the specification, so "the result is a function of the logical content" is:
   whatever the layout, the engine's answer is [valid] for the one logical table.  What is proved
   here is the part of that claim that is about the merge algebra: for each of the three result
   kinds, EVERY binary merge tree over the per-partition results (i.e. every split of the rows into
   partitions, every completion order of the worker threads, every level bookkeeping of
   QueryTask::combine_results) yields the answer for the concatenated table.  The planner and the
   executor are reached by the correspondence run only: the harness builds one logical table under
   pairs of physical layouts and checks both answers against [valid] (suite c02_layout). *)
From Coq Require Import ZArith NArith Arith List Bool Permutation Sorting.Sorted.
From LV Require Import Model.CheckedArith Proofs.CheckedArith Model.QuerySpec Proofs.QuerySpec
     Model.SortKernels Proofs.SortKernels Model.MergeKernels Proofs.MergeKernels.
Import ListNotations.

(* select / filter results (no ORDER BY): append_all with the limit, over any tree, is the
   ingestion-order prefix of the concatenation *)
Theorem C02_any_tree_select :
  forall (B : Type) (limit : N) (t : @stree B),
    stree_out limit t = firstn (N.to_nat limit) (stree_rows t).
Proof. intros B. exact (@select_any_tree B). Qed.

(* hence two different splits of the same rows give the same rows *)
Theorem C02_split_invariance_select :
  forall (B : Type) (limit : N) (t1 t2 : @stree B),
    stree_rows t1 = stree_rows t2 -> stree_out limit t1 = stree_out limit t2.
Proof. intros B limit t1 t2 H. rewrite !(@select_any_tree B), H. reflexivity. Qed.

(* ORDER BY with LIMIT: per-partition correct prefixes merged over any tree with `merge` are a
   correct answer (sorted, right length, nothing smaller left out) for the concatenation *)
Theorem C02_any_tree_order :
  forall (A : Type) (le : A -> A -> bool),
    (forall x y, le x y = true \/ le y x = true) ->
    (forall x y z, le x y = true -> le y z = true -> le x z = true) ->
    forall (limit : N) (t : rtree),
      leaves_ok le (N.to_nat limit) t ->
      topk le (N.to_nat limit) (rtree_rows t) (rtree_out le limit t).
Proof. intros A le T R. exact (topk_any_tree le T R). Qed.

(* aggregates: merging group-by results over any tree is the group-by of all rows; in particular two
   splits of the same rows give the same groups with the same aggregates *)
Theorem C02_any_tree_aggregate :
  forall k t, gtree_out k t = group_by k (gtree_rows t).
Proof. exact group_by_any_tree. Qed.

Theorem C02_split_invariance_aggregate :
  forall k t1 t2, gtree_rows t1 = gtree_rows t2 -> gtree_out k t1 = gtree_out k t2.
Proof. intros k t1 t2 H. rewrite !group_by_any_tree, H. reflexivity. Qed.

(* checked SUM over any tree: the exact sum or Overflow (the tolerated layout dependence: WHICH of
   the two depends on the split, see C06_example_sum) *)
Theorem C02_any_tree_sum :
  forall t s, no_sentinel t -> sum_tree t = Some s -> s = zsum (mtree_rows t) /\ in_i64 s = true.
Proof. exact sum_tree_exact. Qed.

(* the relation is never empty: the specification's own canonical answer passes the checker, for
   every query, table, LIMIT and OFFSET *)
Theorem C02_spec_answer_is_valid :
  forall q t classes,
    eval_classes q t = Ok classes ->
    valid q t (ORows (window (q_offset q) (q_limit q) (QuerySpecList.qconcat classes))) = true.
Proof. exact valid_eval_rows. Qed.

(* and the specification's arithmetic is the engine's checked arithmetic (C06), so both sides of the
   correspondence run agree on which queries must fail *)
Theorem C02_spec_arith_is_checked_arith :
  forall op a b,
    in_i64 a = true -> in_i64 b = true ->
    match perform_checked op a b with
    | RVal v false => spec_arith op a b = EVal (VInt v)
    | RVal _ true => spec_arith op a b = EOverflow
    end.
Proof. exact spec_arith_matches_kernel. Qed.

(* non-vacuity: one table, two splits, the three result kinds *)
Example C02_example :
  stree_out 3 (SNode (SLeaf [1; 2]%nat) (SLeaf [3; 4; 5]%nat)) = [1; 2; 3]%nat /\
  stree_out 3 (SNode (SNode (SLeaf [1]%nat) (SLeaf [2; 3; 4]%nat)) (SLeaf [5]%nat)) = [1; 2; 3]%nat /\
  gtree_out AggSum (GNode (GLeaf [(2, 5); (1, 1)]%Z) (GLeaf [(2, 6)]%Z)) = [(1, 1); (2, 11)]%Z /\
  gtree_out AggSum (GNode (GLeaf [(2, 5)]%Z) (GNode (GLeaf [(1, 1)]%Z) (GLeaf [(2, 6)]%Z))) = [(1, 1); (2, 11)]%Z /\
  rtree_out Z.leb 2 (RNode (RLeaf [5; 1]%Z [1; 5]%Z) (RLeaf [3; 0; 9]%Z [0; 3]%Z)) = [0; 1]%Z.
Proof. repeat split; vm_compute; reflexivity. Qed.
