(* C06 — Integer arithmetic is exact or the query fails; it never wraps.
   Property theorems only; every statement is closed by [exact <lemma>].  The model
   (Model/CheckedArith.v) is a transcription of numeric_operators.rs / binary_operator.rs /
   aggregate.rs / merge_aggregate.rs (at /repo HEAD 1c4a1c7, i.e. with the wrapping_rem fix) and is tied to
   them by the lv_query harness on every run. *)
From Coq Require Import ZArith List Bool.
From LV Require Import Model.CheckedArith Proofs.CheckedArith.
Import ListNotations.
Open Scope Z_scope.

(* Each of + - * / % on (widened) i64 operands: if the overflow flag is clear the value is the exact
   mathematical result and fits in i64 — a wrapped, saturated or truncated value is never returned
   with the flag clear. *)
Theorem C06_op_exact_or_overflow :
  forall op a b v,
    in_i64 a = true -> in_i64 b = true ->
    perform_checked op a b = RVal v false ->
    exact_op op a b = Some v /\ in_i64 v = true.
Proof. exact perform_checked_exact. Qed.

(* The flag is raised only when there is no exact i64 result (division by zero / out of range),
   except for the conservative guard -i64::MAX / -1 (exact result i64::MAX is rejected). *)
Theorem C06_flag_only_when_needed :
  forall op a b v,
    in_i64 a = true -> in_i64 b = true ->
    perform_checked op a b = RVal v true ->
    exact_op op a b = None \/
    (exists z, exact_op op a b = Some z /\ in_i64 z = false) \/
    (op = OpDiv /\ a = - i64_max /\ b = -1).
Proof. exact perform_checked_flag. Qed.

(* Conversely an exact result that fits is returned, outside the conservative division case. *)
Theorem C06_exact_when_fits :
  forall op a b z,
    in_i64 a = true -> in_i64 b = true ->
    exact_op op a b = Some z -> in_i64 z = true ->
    ~ (op = OpDiv /\ a = - i64_max /\ b = -1) ->
    perform_checked op a b = RVal z false.
Proof. exact perform_checked_complete. Qed.

(* No operation panics: [checked_res] has no panic outcome any more.  i64::MIN % -1 (finding F9,
   fixed by 5836e7f: wrapping_rem) yields the exact remainder 0 without an overflow flag. *)
Theorem C06_mod_min_minus_one : perform_checked OpMod i64_min (-1) = RVal 0 false.
Proof. exact mod_min_minus_one. Qed.

Theorem C06_total : forall op a b, exists v o, perform_checked op a b = RVal v o.
Proof. intros op a b. destruct (perform_checked op a b) as [v o]. eauto. Qed.

(* A NULL operand makes the result NULL and contributes no error. *)
Theorem C06_null_propagates :
  forall op c, cell_op op None c = COk None /\ cell_op op c None = COk None.
Proof. intros op c. split; [apply cell_op_null_l|apply cell_op_null_r]. Qed.

(* In the nullable operator loop rows whose present bit is clear never raise Overflow. *)
Theorem C06_absent_rows_raise_nothing :
  forall op pairs, exists vs, checked_loop op pairs (Some []) [] false = VOk vs.
Proof.
  intros op pairs. destruct (checked_loop_all_absent op pairs [] false) as [vs E].
  exists vs. exact E.
Qed.

(* Expression trees: a value returned for a row is the value of the same tree over the unbounded
   integers, and every intermediate result fits in i64. *)
Theorem C06_tree :
  forall row e v,
    row_in_range row -> consts_in_range e = true ->
    eval_aexpr row e = COk v ->
    exact_aexpr row e = Some v /\ (forall z, v = Some z -> in_i64 z = true).
Proof. exact eval_aexpr_exact. Qed.

(* SUM: per-partition checked accumulation followed by checked merging over ANY binary merge tree
   (any split of the rows into partitions, any merge order) yields the exact sum of all rows, or
   Overflow.  The guard excludes partial results equal to the I64_NULL sentinel (i64::MAX), which
   Combinable<i64>::combine treats as "absent"; C06_sum_sentinel_refuted is the witness. *)
Theorem C06_sum :
  forall t s, no_sentinel t -> sum_tree t = Some s -> s = zsum (mtree_rows t) /\ in_i64 s = true.
Proof. exact sum_tree_exact. Qed.

Theorem C06_sum_sentinel_refuted :
  exists t, sum_tree t = Some 0 /\ zsum (mtree_rows t) = i64_max.
Proof. exact sum_tree_refuted. Qed.

(* left-to-right merging of a split is one of those trees *)
Theorem C06_sum_split_is_tree :
  forall parts t a, sum_tree t = Some a -> sum_merge a parts = sum_tree (tree_of_parts t parts).
Proof. exact sum_merge_tree. Qed.

(* the Ok branch is reachable for every tree shape: non-negative rows whose total is below
   i64::MAX never overflow *)
Theorem C06_sum_complete_nonneg :
  forall t,
    Forall (fun x => 0 <= x) (mtree_rows t) -> zsum (mtree_rows t) < i64_max ->
    sum_tree t = Some (zsum (mtree_rows t)).
Proof. exact sum_tree_complete_nonneg. Qed.

(* non-vacuity *)
Example C06_example_tree :
  let row := [Some 9223372036854775806; Some 1; None] in
  eval_aexpr row (ABin OpAdd (ACol 0) (ACol 1)) = COk (Some 9223372036854775807) /\
  eval_aexpr row (ABin OpAdd (ABin OpAdd (ACol 0) (ACol 1)) (AConst 1)) = COverflow /\
  eval_aexpr row (ABin OpMul (ACol 2) (ABin OpDiv (ACol 0) (AConst 0))) = COverflow /\
  eval_aexpr row (ABin OpMul (ACol 2) (ACol 0)) = COk None.
Proof. repeat split; vm_compute; reflexivity. Qed.

Example C06_example_sum :
  sum_tree (MNode (MLeaf [9223372036854775806; 2; -5]) (MLeaf [3])) = None /\
  sum_tree (MNode (MLeaf [9223372036854775806; -5]) (MLeaf [1; 3])) = Some 9223372036854775805 /\
  sum_tree (MNode (MLeaf [9223372036854775800]) (MLeaf [7; 1])) = None.
Proof. repeat split; vm_compute; reflexivity. Qed.
