(* C08 — Acknowledged data survives a clean restart, exactly once.
   Statements are about Model/WalSM.v: histories are lists of operations
   {OIngest (event buffer into any set of tables), OFlush (forced or background, any size oracle),
    OEvict, ORestart}, executed by the guarded run [run true] (which stops at the site of the open
   finding F1 of compaction instead of executing it - and at an incomplete name set, unreachable
   for well-formed requests, C13_compaction_carries_all; the guarded run agrees with the faithful
   run wherever it succeeds: Proofs.WalSM.run_guard). *)
From Coq Require Import NArith ZArith List Bool.
From LV Require Import Model.TableSM Model.Catalogue Model.WalSM
     Proofs.TableSM Proofs.WalSMBase Proofs.WalSM Proofs.WalSMLog.
Import ListNotations.
Open Scope N_scope.

(* In every reachable state: the rows of the partitions the durable catalogue lists (read from
   their files) followed by the rows of the log segments at or above the durable cursor are the
   acknowledged log of every table; the segment ids on disk form the interval [earliest, next);
   the durable cursor is the in-memory one; and the in-memory content is the acknowledged log. *)
Theorem C08_inv :
  forall (c : cfg) (ops : list op) (s : db),
    run true c ops (init c) = Val s ->
    (forall n, durable_part_rows (view (tabs s) n) ++ durable_wal_rows s n = acked_rows (acked s) n) /\
    map fst (d_wal s) = seqN (earliest s) (length (d_wal s)) /\
    next_wal s = earliest s + N.of_nat (length (d_wal s)) /\
    match d_cursor s with Some k => k = earliest s | None => earliest s = 0 end /\
    (forall n, content s n = acked_rows (acked s) n).
Proof.
  intros c ops s H. pose proof (reachable_inv _ _ _ H) as I.
  split; [intro n; apply durable_decomposition; exact I|].
  split; [apply (i_ids _ I)|]. split; [apply (i_next _ I)|]. split; [apply (i_cursor _ I)|].
  apply (i_acked _ I).
Qed.

(* Restart: for every history over {ingest, flush, evict, restart}, a restart that returns gives
   every table the acknowledged log: same rows, same order, nothing twice; the log itself and the
   durable state are unchanged (so a second restart gives the same again). *)
Theorem C08_restart :
  forall (c : cfg) (ops : list op) (s s' : db),
    run true c ops (init c) = Val s ->
    step true c s ORestart = Val s' ->
    (forall n, content s' n = acked_rows (acked s) n) /\
    (forall n, content s' n = content s n) /\
    acked s' = acked s /\ d_wal s' = d_wal s /\ d_cursor s' = d_cursor s.
Proof.
  intros c ops s s' H R. pose proof (reachable_inv _ _ _ H) as I. cbn [step] in R.
  destruct (recover_spec _ _ _ I R) as [_ [Hc [Ha [Hw [Hcur _]]]]].
  split; [intro n; rewrite Hc; apply (i_acked _ I)|]. auto.
Qed.

(* ... and for a table clients may name (not a catalogue table) the acknowledged log is exactly
   the rows the clients sent to it, in the order of the ingestion calls. *)
Theorem C08_restart_client_rows :
  forall (c : cfg) (ops : list op) (s s' : db) (n : name),
    run true c ops (init c) = Val s ->
    step true c s ORestart = Val s' ->
    user_table n = true ->
    content s' n = ingested ops n.
Proof.
  intros c ops s s' n H R Hn. destruct (C08_restart _ _ _ _ H R) as [Hc _].
  rewrite Hc, (run_acked _ _ _ _ _ (inv_init c) H Hn). reflexivity.
Qed.

(* The assertion "WAL segments are not contiguous" of InnerLocustDB::new, the load of a missing
   partition file and the removal of a missing file cannot fire when a reachable state is restarted:
   the restart returns, or stops at one of the catalogue-loading sites (that these are unreachable
   for well-formed histories is theorem C13_restart_total). *)
Theorem C08_contiguity_assert_unreachable :
  forall (c : cfg) (ops : list op) (s : db),
    run true c ops (init c) = Val s ->
    (exists s', step true c s ORestart = Val s') \/
    (exists st, step true c s ORestart = Panic st /\
                (st = SNoTable \/ st = SCatalogue \/ st = SColsNotInit)).
Proof. intros c ops s H. apply recover_outcome. eapply reachable_inv; eauto. Qed.

(* non-vacuity: three tables, a flush between two restarts, compaction at every flush (factor 0
   with the sizes given by the oracle), a background flush enabled by max_wal_files = 1 *)
Definition ex_cfg : cfg :=
  {| c_factor := 0; c_max_wal_files := 1; c_max_wal_bytes := 1000000 |}.
Definition ex_t1 : name := [116; 49].
Definition ex_t2 : name := [116; 50].
Definition ex_t3 : name := [116; 51].
Definition ex_id : name := [105; 100].
Definition ex_a : name := [97].
Definition ex_batch (t : name) (k : Z) : tbatch :=
  {| tb_name := t; tb_cols := [ex_id; ex_a];
     tb_rows := [[(ex_id, CInt k); (ex_a, CInt (k * 10))]; [(ex_id, CInt (k + 1)); (ex_a, CStr [120])]] |}.
Definition ex_orc : oracle :=
  [(ex_t1, (5, 9)); (ex_t2, (5, 9)); (ex_t3, (5, 9)); (s_meta_tables, (20, 30));
   (meta_columns_of ex_t1, (5, 7)); (meta_columns_of ex_t2, (5, 7)); (meta_columns_of ex_t3, (5, 7))].
Definition ex_ops : list op :=
  [OIngest [ex_batch ex_t1 0; ex_batch ex_t2 0] 300;
   ORestart;
   OIngest [ex_batch ex_t3 0; ex_batch ex_t1 2] 300;
   OFlush true ex_orc;
   OIngest [ex_batch ex_t2 2] 100;
   ORestart;
   OEvict].

Example C08_example :
  exists s s', run true ex_cfg ex_ops (init ex_cfg) = Val s /\
    step true ex_cfg s ORestart = Val s' /\
    length (content s' ex_t1) = 4%nat /\ length (content s' ex_t2) = 4%nat /\
    length (content s' ex_t3) = 2%nat /\
    content s' ex_t1 = ingested ex_ops ex_t1 /\
    map fst (d_wal s') = [2] /\ d_cursor s' = Some 2.
Proof.
  eexists. eexists. split; [vm_compute; reflexivity|]. split; [vm_compute; reflexivity|].
  vm_compute. repeat split; reflexivity.
Qed.
