(* C08 — Acknowledged data survives a clean restart, exactly once.
   Statements are about Model/WalSM.v: histories are lists of operations
   {OIngest (event buffer into any set of tables), OFlush (forced or background, any size oracle),
    OEvict, ORestart}, executed by the guarded run [run true] (which stops at the site of the open
   finding F1 of compaction instead of executing it - and at an incomplete name set, unreachable
   for well-formed requests, C13_compaction_carries_all; the guarded run agrees with the faithful
   run wherever it succeeds: Proofs.WalSM.run_guard). *)
From Coq Require Import NArith ZArith List Bool.
From LV Require Import Model.TableSM Model.Catalogue Model.WalSM
     Proofs.TableSM Proofs.WalSMBase Proofs.WalSM Proofs.WalSMLog.
Import ListNotations.
Open Scope N_scope.

(* In every reachable state: the rows of the partitions the durable catalogue lists (read from
   their files) followed by the rows of the log segments at or above the durable cursor are the
   acknowledged log of every table; the segment ids on disk form the interval [earliest, next);
   the durable cursor is the in-memory one; and the in-memory content is the acknowledged log. *)
Theorem C08_inv :
  forall (c : cfg) (ops : list op) (s : db),
    run true c ops (init c) = Val s ->
    (forall n, durable_part_rows (view (tabs s) n) ++ durable_wal_rows s n = acked_rows (acked s) n) /\
    map fst (d_wal s) = seqN (earliest s) (length (d_wal s)) /\
    next_wal s = earliest s + N.of_nat (length (d_wal s)) /\
    match d_cursor s with Some k => k = earliest s | None => earliest s = 0 end /\
    (forall n, content s n = acked_rows (acked s) n).
Proof.
  intros c ops s H. pose proof (reachable_inv _ _ _ H) as I.
  split; [intro n; apply durable_decomposition; exact I|].
  split; [apply (i_ids _ I)|]. split; [apply (i_next _ I)|]. split; [apply (i_cursor _ I)|].
  apply (i_acked _ I).
Qed.

(* Restart: for every history over {ingest, flush, evict, restart}, a restart that returns gives
   every table the acknowledged log: same rows, same order, nothing twice; the log itself and the
   durable state are unchanged (so a second restart gives the same again). *)
Theorem C08_restart :
  forall (c : cfg) (ops : list op) (s s' : db),
    run true c ops (init c) = Val s ->
    step true c s ORestart = Val s' ->
    (forall n, content s' n = acked_rows (acked s) n) /\
    (forall n, content s' n = content s n) /\
    acked s' = acked s /\ d_wal s' = d_wal s /\ d_cursor s' = d_cursor s.
Proof.
  intros c ops s s' H R. pose proof (reachable_inv _ _ _ H) as I. cbn [step] in R.
  destruct (recover_spec _ _ _ I R) as [_ [Hc [Ha [Hw [Hcur _]]]]].
  split; [intro n; rewrite Hc; apply (i_acked _ I)|]. auto.
Qed.

(* ... and for a table clients may name (not a catalogue table) the acknowledged log is exactly
   the rows the clients sent to it, in the order of the ingestion calls. *)
Theorem C08_restart_client_rows :
  forall (c : cfg) (ops : list op) (s s' : db) (n : name),
    run true c ops (init c) = Val s ->
    step true c s ORestart = Val s' ->
    user_table n = true ->
    content s' n = ingested ops n.
Proof.
  intros c ops s s' n H R Hn. destruct (C08_restart _ _ _ _ H R) as [Hc _].
  rewrite Hc, (run_acked _ _ _ _ _ (inv_init c) H Hn). reflexivity.
Qed.

(* The assertion "WAL segments are not contiguous" of InnerLocustDB::new, the load of a missing
   partition file and the removal of a missing file cannot fire when a reachable state is restarted:
   the restart returns, or stops at one of the catalogue-loading sites (that these are unreachable
   for well-formed histories is theorem C13_restart_total). *)
Theorem C08_contiguity_assert_unreachable :
  forall (c : cfg) (ops : list op) (s : db),
    run true c ops (init c) = Val s ->
    (exists s', step true c s ORestart = Val s') \/
    (exists st, step true c s ORestart = Panic st /\
                (st = SNoTable \/ st = SCatalogue \/ st = SColsNotInit)).
Proof. intros c ops s H. apply recover_outcome. eapply reachable_inv; eauto. Qed.

(* The recorded range and the frozen buffers belong to one critical section.  [flush] records the
   range [earliest, next_wal) at the state whose buffers it freezes (wal_flush reads
   storage.unflushed_wal_ids() while it holds the ingestion lock); all the theorems above are about
   that flush.  [flush_stale] takes the end of the range from outside: at next_wal it is the flush,
   ... *)
Theorem C08_flush_is_flush_at_next_wal :
  forall (g : bool) (c : cfg) (o : oracle) (s : db), flush_stale g c o s (next_wal s) = flush g c o s.
Proof. reflexivity. Qed.

(* ... and with the end read before an ingestion that the freeze then covers (two clients and a
   flush: the range is read, client A ingests, the buffers are frozen) the rows of A are in the new
   partition and in a segment above the new cursor: a restart serves them twice. *)
Definition st_cfg : cfg :=
  {| c_factor := 4; c_max_wal_files := 1000; c_max_wal_bytes := 67108864 |}.
Definition st_t : name := [116].
Definition st_id : name := [105; 100].
Definition st_batch (k : Z) : batch :=
  [{| tb_name := st_t; tb_cols := [st_id]; tb_rows := [[(st_id, CInt k)]] |}].
Definition st_orc : oracle := [(st_t, (5, 5)); (s_meta_tables, (22, 22)); (meta_columns_of st_t, (5, 5))].

Theorem C08_stale_range_duplicates :
  exists s1 s2 s3 s4,
    ingest st_cfg (st_batch 0) 200 (init st_cfg) = Val s1 /\
    ingest st_cfg (st_batch 1) 100 s1 = Val s2 /\
    flush_stale true st_cfg st_orc s2 (next_wal s1) = Val s3 /\
    recover st_cfg s3 = Val s4 /\
    map (fun r => get r st_id) (acked_rows (acked s2) st_t) = [CInt 0; CInt 1] /\
    map (fun r => get r st_id) (content s4 st_t) = [CInt 0; CInt 1; CInt 1].
Proof.
  eexists. eexists. eexists. eexists.
  split; [vm_compute; reflexivity|]. split; [vm_compute; reflexivity|].
  split; [vm_compute; reflexivity|]. split; [vm_compute; reflexivity|].
  split; vm_compute; reflexivity.
Qed.

(* non-vacuity: three tables, a flush between two restarts, compaction at every flush (factor 0
   with the sizes given by the oracle), a background flush enabled by max_wal_files = 1 *)
Definition ex_cfg : cfg :=
  {| c_factor := 0; c_max_wal_files := 1; c_max_wal_bytes := 1000000 |}.
Definition ex_t1 : name := [116; 49].
Definition ex_t2 : name := [116; 50].
Definition ex_t3 : name := [116; 51].
Definition ex_id : name := [105; 100].
Definition ex_a : name := [97].
Definition ex_batch (t : name) (k : Z) : tbatch :=
  {| tb_name := t; tb_cols := [ex_id; ex_a];
     tb_rows := [[(ex_id, CInt k); (ex_a, CInt (k * 10))]; [(ex_id, CInt (k + 1)); (ex_a, CStr [120])]] |}.
Definition ex_orc : oracle :=
  [(ex_t1, (5, 9)); (ex_t2, (5, 9)); (ex_t3, (5, 9)); (s_meta_tables, (20, 30));
   (meta_columns_of ex_t1, (5, 7)); (meta_columns_of ex_t2, (5, 7)); (meta_columns_of ex_t3, (5, 7))].
Definition ex_ops : list op :=
  [OIngest [ex_batch ex_t1 0; ex_batch ex_t2 0] 300;
   ORestart;
   OIngest [ex_batch ex_t3 0; ex_batch ex_t1 2] 300;
   OFlush true ex_orc;
   OIngest [ex_batch ex_t2 2] 100;
   ORestart;
   OEvict].

Example C08_example :
  exists s s', run true ex_cfg ex_ops (init ex_cfg) = Val s /\
    step true ex_cfg s ORestart = Val s' /\
    length (content s' ex_t1) = 4%nat /\ length (content s' ex_t2) = 4%nat /\
    length (content s' ex_t3) = 2%nat /\
    content s' ex_t1 = ingested ex_ops ex_t1 /\
    map fst (d_wal s') = [2] /\ d_cursor s' = Some 2.
Proof.
  eexists. eexists. split; [vm_compute; reflexivity|]. split; [vm_compute; reflexivity|].
  vm_compute. repeat split; reflexivity.
Qed.
