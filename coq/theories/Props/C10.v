(* C10 — A concurrent query sees a clean prefix of every table.
   Model: Model/ConcSM.v (small-step interleaving semantics of the lock / publication protocol of one table:
   ingesters serialised by the wal lock, the flush thread (freeze, batch, plan, compact), queriers (snapshot)).
   All theorems quantify over every schedule (`run sched (init ni nq) = Some st`): any number of ingesters,
   queriers, batches, flushes, compactions and queries, in any interleaving the locks admit. *)
From Coq Require Import NArith List Bool Arith Lia.
From LV Require Import Model.ConcSM Proofs.ConcSMBase Proofs.ConcSMData Proofs.ConcSM Proofs.ConcSMOrder.
From LV Require Import Proofs.ConcSMLive Model.ConcSMCat Proofs.ConcSMCat.
Import ListNotations.

(* Every snapshot a query runs on is the concatenation of the first k pushed batches, for some k that is at
   least the number k0 of requests acknowledged when the query was issued (k0 is recorded by AQStart):
   each batch wholly in or wholly out, nothing missing from the prefix, and no row twice when row ids are
   unique. *)
Theorem C10_snapshot_prefix :
  forall ni nq sched st n p k0 s,
    run sched (init ni nq) = Some st ->
    nth_error (qs st) n = Some p -> q_snapshot p = Some (k0, s) ->
    exists k, k0 <= k /\ k <= length (log (dat st)) /\
              s_batches s = firstn k (log (dat st)) /\
              snap_rows s = concat (firstn k (log (dat st))) /\
              (NoDup (concat (log (dat st))) -> NoDup (snap_rows s)).
Proof.
  intros ni nq sched st n p k0 s H. apply snapshot_prefix. apply reachable_inv. exists ni, nq, sched. exact H.
Qed.

(* All roles acquire locks in the one global order wal_size < frozen_buffer < partitions < buffer: whenever a
   step makes a thread a new holder of resource k, every resource it already holds ranks strictly below k. *)
Theorem C10_lock_order :
  forall ni nq sched st t a st',
    run sched (init ni nq) = Some st -> step t a st = Some st' ->
    forall k, ~ held_by st t k -> held_by st' t k -> forall k', held_by st t k' -> rank k' < rank k.
Proof.
  intros ni nq sched st t a st' H. apply lock_order. apply reachable_inv. exists ni, nq, sched. exact H.
Qed.

(* The two panics of the protocol are unreachable: freeze_buffer's assert!(frozen_buffer.len() == 0) and
   snapshot_parts' partitions[id]. *)
Theorem C10_flush_protocol_no_panic :
  forall ni nq sched st, run sched (init ni nq) = Some st -> fl st <> F_panic.
Proof.
  intros ni nq sched st H. apply flusher_no_panic. apply reachable_inv. exists ni, nq, sched. exact H.
Qed.

(* No deadlock among the table locks: whenever some resource is held, a thread that holds one has an enabled
   step (the holder of the highest-ranked held resource needs either no further lock or a higher, free one). *)
Theorem C10_no_deadlock :
  forall ni nq sched st,
    run sched (init ni nq) = Some st -> (exists t k, held_by st t k) ->
    exists t a st', (exists k, held_by st t k) /\ step t a st = Some st'.
Proof.
  intros ni nq sched st H. apply no_deadlock. apply reachable_inv. exists ni, nq, sched. exact H.
Qed.

(* The compaction swap is one step under the partitions write lock: nobody is reading the map; it replaces
   exactly the planned old partitions by the merged one; a snapshot taken just before and one taken just after
   consist of the same batches.  And no snapshot that any query ever runs on contains both the merged partition
   and one of the partitions merged into it. *)
Theorem C10_compaction_swap :
  forall ni nq sched st st',
    run sched (init ni nq) = Some st -> step TF ACSwap st = Some st' ->
    holders (lks st) KPR = [] /\
    (exists olds n m, fl st = F_c1 olds n m /\
       s_pids (view (dat st')) = filter (fun i => negb (mem_nat i olds)) (s_pids (view (dat st))) ++ [n]) /\
    s_batches (view (dat st')) = s_batches (view (dat st)).
Proof.
  intros ni nq sched st st' H. apply compaction_swap. apply reachable_inv. exists ni, nq, sched. exact H.
Qed.

Theorem C10_compaction_never_both :
  forall ni nq sched st n p k0 s olds new,
    run sched (init ni nq) = Some st ->
    nth_error (qs st) n = Some p -> q_snapshot p = Some (k0, s) ->
    In (olds, new) (swaps (dat st)) -> In new (s_pids s) -> forall o, In o olds -> ~ In o (s_pids s).
Proof.
  intros ni nq sched st n p k0 s olds new H. apply snapshot_never_both. apply reachable_inv.
  exists ni, nq, sched. exact H.
Qed.

(* ---------------------------------------------------------------------------------------------- *)
(* The catalogue look-up on the query path and the handle unwrap in the flush thread (Model/ConcSMCat.v),  *)
(* on the code as repaired by 3a6284a (catalogue look-ups by `get`) and 7a0a728 (flush skips placeholders). *)

(* No query ever panics: for every column set, every schedule, absent columns and evictions included
   (before 3a6284a this was refuted in the two windows of finding F14a). *)
Theorem C10_query_no_panic :
  forall C nd nq sched st, crun C sched (cinit C nd nq) = Some st -> query_panicked st = false.
Proof. intros C nd nq sched st. apply query_never_panics. Qed.

(* Without evictions (KnownClass = the schedule contains an eviction), for all schedules and all queried
   columns - columns a partition lacks and columns that exist nowhere included: nobody panics, no query is
   answered with an existing column reported as absent (so `None => true` in subpartition_has_been_loaded is
   sound: a partition that left the catalogue has been read completely by the compaction), the compaction loses
   nothing and every catalogue entry stores every column.  Covers the former F14a windows and the F14 schedule. *)
Theorem C10_no_panic_no_loss_guarded :
  forall C nd nq sched st,
    sched_evicts sched = false ->
    crun C sched (cinit C nd nq) = Some st ->
    query_panicked st = false /\ query_wrong st = false /\ flush_panicked st = false /\ data_lost C st = false.
Proof.
  intros C nd nq sched st HE H. apply (cinv_safe C). eapply cinv_run; [apply cinv_init|exact HE|exact H].
Qed.

(* the former witnesses of F14a (not yet / no longer in the catalogue) and F14 (placeholder) now run to the end:
   the queries finish, the flush persists partition 0 with both columns *)
Theorem C10_former_witnesses_pass :
  (exists st, crun Cw sched_not_yet (cinit Cw 0 1) = Some st /\
              query_panicked st = false /\ query_wrong st = false /\ cqs st = [CQ_idle]) /\
  (exists st, crun Cw sched_no_longer (cinit Cw 2 1) = Some st /\
              query_panicked st = false /\ query_wrong st = false /\ cqs st = [CQ_idle]) /\
  (exists st, crun Cw sched_placeholder (cinit Cw 0 1) = Some st /\
              flush_panicked st = false /\ cat st = [(0, [0; 1])]).
Proof. exact (conj sched_not_yet_ok (conj sched_no_longer_ok sched_placeholder_ok)). Qed.

(* full statements: still refuted by the faithful model when a column is evicted while its partition is
   registered in the table but not in the catalogue (finding F14b) *)
Definition C10_query_sees_existing_columns_statement : Prop :=
  forall C nd nq sched st, crun C sched (cinit C nd nq) = Some st -> query_wrong st = false.
Definition C10_flush_no_panic_statement : Prop :=
  forall C nd nq sched st, crun C sched (cinit C nd nq) = Some st -> flush_panicked st = false.
Definition C10_no_data_loss_statement : Prop :=
  forall C nd nq sched st, crun C sched (cinit C nd nq) = Some st -> data_lost C st = false.

(* F14b on the repaired code: the query no longer panics but is answered with the evicted column reported as
   absent (NULLs); the flush thread still unwraps a dropped column; and if a query touched the evicted column
   first, the flush skips it as a placeholder and persists the partition WITHOUT the column *)
Theorem C10_eviction_refuted :
  (exists st, crun Cw witness_evicted_query (cinit Cw 0 1) = Some st /\ query_wrong st = true) /\
  (exists st, crun Cw witness_evicted_flush (cinit Cw 0 1) = Some st /\ flush_panicked st = true) /\
  (exists st, crun Cw witness_evicted_lost (cinit Cw 0 1) = Some st /\
              flush_panicked st = false /\ data_lost Cw st = true /\ cat st = [(0, [1])]) /\
  ~ C10_query_sees_existing_columns_statement /\ ~ C10_flush_no_panic_statement /\ ~ C10_no_data_loss_statement.
Proof.
  split; [exact witness_evicted_query_wrong|split; [exact witness_evicted_flush_panics|split; [exact witness_evicted_lost_loses|]]].
  split; [|split].
  - intro S. destruct witness_evicted_query_wrong as (st & R & P). rewrite (S _ _ _ _ _ R) in P. discriminate.
  - intro S. destruct witness_evicted_flush_panics as (st & R & P). rewrite (S _ _ _ _ _ R) in P. discriminate.
  - intro S. destruct witness_evicted_lost_loses as (st & R & _ & P & _). rewrite (S _ _ _ _ _ R) in P. discriminate.
Qed.

(* ---------------------------------------------------------------------------------------------- *)
(* non-vacuity: a concrete schedule with two batches, a freeze, a batch, a query during the flush, a compaction *)
Example C10_example :
  let sched :=
    [(TI 0, AIStart [1; 2]%N); (TI 0, AILockBuf); (TI 0, AIPush); (TI 0, AIUnlockBuf); (TI 0, AIAck);
     (TF, AFStart); (TF, AFzLockFrozen); (TF, AFzLockBuf); (TF, AFzSwap); (TF, AFzUnlockBuf);
     (TF, AFzUnlockFrozen); (TF, AFUnlockWal);
     (TQ 0, AQStart);
     (TI 0, AIStart [3]%N); (TI 0, AILockBuf); (TI 0, AIPush); (TI 0, AIUnlockBuf);
     (TF, ABLockFrozen); (TF, ABTake); (TF, ABLockParts); (TF, ABInsert); (TF, ABUnlockParts); (TF, ABUnlockFrozen);
     (TQ 0, AQLockFrozen); (TQ 0, AQLockParts); (TQ 0, AQLockBuf); (TQ 0, AQCopy);
     (TQ 0, AQUnlockBuf); (TQ 0, AQUnlockParts); (TQ 0, AQUnlockFrozen);
     (TF, APlanLock); (TF, APlan (Some 0)); (TF, ACRead); (TF, ACReadDone); (TF, ACWrite); (TF, ACSwap); (TF, ACUnlock)] in
  match run sched (init 1 1) with
  | Some st =>
      map q_snapshot (qs st) = [Some (1, mkSnap [0] [[1; 2]; [3]]%N)] /\
      parts (dat st) = [(1, [[1; 2]]%N)] /\ obuf (dat st) = [[3]%N] /\ swaps (dat st) = [([0], 1)]
  | None => False
  end.
Proof. vm_compute. repeat split. Qed.

(* a step whose lock is taken is not enabled: the querier cannot snapshot while batch holds frozen_buffer *)
Example C10_example_blocked :
  let sched :=
    [(TI 0, AIStart [1]%N); (TI 0, AILockBuf); (TI 0, AIPush); (TI 0, AIUnlockBuf); (TI 0, AIAck);
     (TF, AFStart); (TF, AFzLockFrozen); (TF, AFzLockBuf); (TF, AFzSwap); (TF, AFzUnlockBuf);
     (TF, AFzUnlockFrozen); (TF, AFUnlockWal); (TF, ABLockFrozen); (TF, ABTake);
     (TQ 0, AQStart); (TQ 0, AQLockFrozen)] in
  run sched (init 1 1) = None.
Proof. vm_compute. reflexivity. Qed.
