(* C10 — A concurrent query sees a clean prefix of every table.
   Model: Model/ConcSM.v (small-step interleaving semantics of the lock / publication protocol of one table:
   ingesters serialised by the wal lock, the flush thread (freeze, batch, plan, compact), queriers (snapshot)).
   All theorems quantify over every schedule (`run sched (init ni nq) = Some st`): any number of ingesters,
   queriers, batches, flushes, compactions and queries, in any interleaving the locks admit. *)
From Coq Require Import NArith List Bool Arith Lia.
From LV Require Import Model.ConcSM Proofs.ConcSMBase Proofs.ConcSMData Proofs.ConcSM Proofs.ConcSMOrder.
From LV Require Import Proofs.ConcSMLive Model.ConcSMCat Proofs.ConcSMCat.
Import ListNotations.

(* Every snapshot a query runs on is the concatenation of the first k pushed batches, for some k that is at
   least the number k0 of requests acknowledged when the query was issued (k0 is recorded by AQStart):
   each batch wholly in or wholly out, nothing missing from the prefix, and no row twice when row ids are
   unique. *)
Theorem C10_snapshot_prefix :
  forall ni nq sched st n p k0 s,
    run sched (init ni nq) = Some st ->
    nth_error (qs st) n = Some p -> q_snapshot p = Some (k0, s) ->
    exists k, k0 <= k /\ k <= length (log (dat st)) /\
              s_batches s = firstn k (log (dat st)) /\
              snap_rows s = concat (firstn k (log (dat st))) /\
              (NoDup (concat (log (dat st))) -> NoDup (snap_rows s)).
Proof.
  intros ni nq sched st n p k0 s H. apply snapshot_prefix. apply reachable_inv. exists ni, nq, sched. exact H.
Qed.

(* All roles acquire locks in the one global order wal_size < frozen_buffer < partitions < buffer: whenever a
   step makes a thread a new holder of resource k, every resource it already holds ranks strictly below k. *)
Theorem C10_lock_order :
  forall ni nq sched st t a st',
    run sched (init ni nq) = Some st -> step t a st = Some st' ->
    forall k, ~ held_by st t k -> held_by st' t k -> forall k', held_by st t k' -> rank k' < rank k.
Proof.
  intros ni nq sched st t a st' H. apply lock_order. apply reachable_inv. exists ni, nq, sched. exact H.
Qed.

(* The two panics of the protocol are unreachable: freeze_buffer's assert!(frozen_buffer.len() == 0) and
   snapshot_parts' partitions[id]. *)
Theorem C10_flush_protocol_no_panic :
  forall ni nq sched st, run sched (init ni nq) = Some st -> fl st <> F_panic.
Proof.
  intros ni nq sched st H. apply flusher_no_panic. apply reachable_inv. exists ni, nq, sched. exact H.
Qed.

(* No deadlock among the table locks: whenever some resource is held, a thread that holds one has an enabled
   step (the holder of the highest-ranked held resource needs either no further lock or a higher, free one). *)
Theorem C10_no_deadlock :
  forall ni nq sched st,
    run sched (init ni nq) = Some st -> (exists t k, held_by st t k) ->
    exists t a st', (exists k, held_by st t k) /\ step t a st = Some st'.
Proof.
  intros ni nq sched st H. apply no_deadlock. apply reachable_inv. exists ni, nq, sched. exact H.
Qed.

(* The compaction swap is one step under the partitions write lock: nobody is reading the map; it replaces
   exactly the planned old partitions by the merged one; a snapshot taken just before and one taken just after
   consist of the same batches.  And no snapshot that any query ever runs on contains both the merged partition
   and one of the partitions merged into it. *)
Theorem C10_compaction_swap :
  forall ni nq sched st st',
    run sched (init ni nq) = Some st -> step TF ACSwap st = Some st' ->
    holders (lks st) KPR = [] /\
    (exists olds n m, fl st = F_c1 olds n m /\
       s_pids (view (dat st')) = filter (fun i => negb (mem_nat i olds)) (s_pids (view (dat st))) ++ [n]) /\
    s_batches (view (dat st')) = s_batches (view (dat st)).
Proof.
  intros ni nq sched st st' H. apply compaction_swap. apply reachable_inv. exists ni, nq, sched. exact H.
Qed.

Theorem C10_compaction_never_both :
  forall ni nq sched st n p k0 s olds new,
    run sched (init ni nq) = Some st ->
    nth_error (qs st) n = Some p -> q_snapshot p = Some (k0, s) ->
    In (olds, new) (swaps (dat st)) -> In new (s_pids s) -> forall o, In o olds -> ~ In o (s_pids s).
Proof.
  intros ni nq sched st n p k0 s olds new H. apply snapshot_never_both. apply reachable_inv.
  exists ni, nq, sched. exact H.
Qed.

(* ---------------------------------------------------------------------------------------------- *)
(* The catalogue look-up on the query path and the handle unwrap in the flush thread (Model/ConcSMCat.v).   *)
(* full statements: refuted by the faithful model *)
Definition C10_query_no_panic_statement : Prop :=
  forall C nd nq sched st, crun C sched (cinit C nd nq) = Some st -> query_panicked st = false.
Definition C10_flush_no_panic_statement : Prop :=
  forall C nd nq sched st, crun C sched (cinit C nd nq) = Some st -> flush_panicked st = false.

(* F14a: a query for a column the merged partition lacks, issued after Table::compact and before
   prepare_compact; a query still holding merged-away partitions after prepare_compact; F14b: a query for a
   PRESENT column of a freshly registered partition whose columns were evicted before persist_partitions *)
Theorem C10_query_no_panic_refuted :
  (exists st, crun Cw witness_not_yet (cinit Cw 0 1) = Some st /\ query_panicked st = true) /\
  (exists st, crun Cw witness_no_longer (cinit Cw 2 1) = Some st /\ query_panicked st = true) /\
  (exists st, crun Cw witness_evicted_query (cinit Cw 0 1) = Some st /\ query_panicked st = true) /\
  ~ C10_query_no_panic_statement.
Proof.
  split; [exact witness_not_yet_panics|split; [exact witness_no_longer_panics|split; [exact witness_evicted_query_panics|]]].
  intro S. destruct witness_not_yet_panics as (st & R & P). rewrite (S _ _ _ _ _ R) in P. discriminate.
Qed.

(* F14: a query inserts a placeholder handle into the freshly registered partition; the flush thread unwraps it *)
Theorem C10_flush_no_panic_refuted :
  (exists st, crun Cw witness_placeholder (cinit Cw 0 1) = Some st /\ flush_panicked st = true) /\
  (exists st, crun Cw witness_evicted_flush (cinit Cw 0 1) = Some st /\ flush_panicked st = true) /\
  ~ C10_flush_no_panic_statement.
Proof.
  split; [exact witness_placeholder_panics|split; [exact witness_evicted_flush_panics|]].
  intro S. destruct witness_placeholder_panics as (st & R & P). rewrite (S _ _ _ _ _ R) in P. discriminate.
Qed.

(* guarded: as long as queries only reference columns that every batch carries and nothing is evicted
   (KnownClass = some query references a column outside C, or the schedule contains an eviction), neither a
   query nor the flush thread panics, for all schedules *)
Theorem C10_no_panic_guarded :
  forall C nd nq sched st,
    (forall c, In c (sched_cols sched) -> In c C) -> sched_evicts sched = false ->
    crun C sched (cinit C nd nq) = Some st ->
    query_panicked st = false /\ flush_panicked st = false.
Proof.
  intros C nd nq sched st HC HE H. apply (cinv_no_panic C).
  eapply cinv_run; [apply cinv_init|exact HC|exact HE|exact H].
Qed.

(* ---------------------------------------------------------------------------------------------- *)
(* non-vacuity: a concrete schedule with two batches, a freeze, a batch, a query during the flush, a compaction *)
Example C10_example :
  let sched :=
    [(TI 0, AIStart [1; 2]%N); (TI 0, AILockBuf); (TI 0, AIPush); (TI 0, AIUnlockBuf); (TI 0, AIAck);
     (TF, AFStart); (TF, AFzLockFrozen); (TF, AFzLockBuf); (TF, AFzSwap); (TF, AFzUnlockBuf);
     (TF, AFzUnlockFrozen); (TF, AFUnlockWal);
     (TQ 0, AQStart);
     (TI 0, AIStart [3]%N); (TI 0, AILockBuf); (TI 0, AIPush); (TI 0, AIUnlockBuf);
     (TF, ABLockFrozen); (TF, ABTake); (TF, ABLockParts); (TF, ABInsert); (TF, ABUnlockParts); (TF, ABUnlockFrozen);
     (TQ 0, AQLockFrozen); (TQ 0, AQLockParts); (TQ 0, AQLockBuf); (TQ 0, AQCopy);
     (TQ 0, AQUnlockBuf); (TQ 0, AQUnlockParts); (TQ 0, AQUnlockFrozen);
     (TF, APlanLock); (TF, APlan (Some 0)); (TF, ACRead); (TF, ACReadDone); (TF, ACWrite); (TF, ACSwap); (TF, ACUnlock)] in
  match run sched (init 1 1) with
  | Some st =>
      map q_snapshot (qs st) = [Some (1, mkSnap [0] [[1; 2]; [3]]%N)] /\
      parts (dat st) = [(1, [[1; 2]]%N)] /\ obuf (dat st) = [[3]%N] /\ swaps (dat st) = [([0], 1)]
  | None => False
  end.
Proof. vm_compute. repeat split. Qed.

(* a step whose lock is taken is not enabled: the querier cannot snapshot while batch holds frozen_buffer *)
Example C10_example_blocked :
  let sched :=
    [(TI 0, AIStart [1]%N); (TI 0, AILockBuf); (TI 0, AIPush); (TI 0, AIUnlockBuf); (TI 0, AIAck);
     (TF, AFStart); (TF, AFzLockFrozen); (TF, AFzLockBuf); (TF, AFzSwap); (TF, AFzUnlockBuf);
     (TF, AFzUnlockFrozen); (TF, AFUnlockWal); (TF, ABLockFrozen); (TF, ABTake);
     (TQ 0, AQStart); (TQ 0, AQLockFrozen)] in
  run sched (init 1 1) = None.
Proof. vm_compute. reflexivity. Qed.
