(* C10 — A concurrent query sees a clean prefix of every table.
   Model: Model/ConcSM.v (small-step interleaving semantics of the lock / publication protocol of one table:
   ingesters serialised by the wal lock, the flush thread (freeze, batch, plan, compact), queriers (snapshot)).
   All theorems quantify over every schedule (`run sched (init ni nq) = Some st`): any number of ingesters,
   queriers, batches, flushes, compactions and queries, in any interleaving the locks admit. *)
From Coq Require Import NArith List Bool Arith Lia.
From LV Require Import Model.ConcSM Proofs.ConcSMBase Proofs.ConcSMData Proofs.ConcSM Proofs.ConcSMOrder.
Import ListNotations.

(* Every snapshot a query runs on is the concatenation of the first k pushed batches, for some k that is at
   least the number k0 of requests acknowledged when the query was issued (k0 is recorded by AQStart):
   each batch wholly in or wholly out, nothing missing from the prefix, and no row twice when row ids are
   unique. *)
Theorem C10_snapshot_prefix :
  forall ni nq sched st n p k0 s,
    run sched (init ni nq) = Some st ->
    nth_error (qs st) n = Some p -> q_snapshot p = Some (k0, s) ->
    exists k, k0 <= k /\ k <= length (log (dat st)) /\
              s_batches s = firstn k (log (dat st)) /\
              snap_rows s = concat (firstn k (log (dat st))) /\
              (NoDup (concat (log (dat st))) -> NoDup (snap_rows s)).
Proof.
  intros ni nq sched st n p k0 s H. apply snapshot_prefix. apply reachable_inv. exists ni, nq, sched. exact H.
Qed.

(* All roles acquire locks in the one global order wal_size < frozen_buffer < partitions < buffer: whenever a
   step makes a thread a new holder of resource k, every resource it already holds ranks strictly below k. *)
Theorem C10_lock_order :
  forall ni nq sched st t a st',
    run sched (init ni nq) = Some st -> step t a st = Some st' ->
    forall k, ~ held_by st t k -> held_by st' t k -> forall k', held_by st t k' -> rank k' < rank k.
Proof.
  intros ni nq sched st t a st' H. apply lock_order. apply reachable_inv. exists ni, nq, sched. exact H.
Qed.

(* The two panics of the protocol are unreachable: freeze_buffer's assert!(frozen_buffer.len() == 0) and
   snapshot_parts' partitions[id]. *)
Theorem C10_flush_protocol_no_panic :
  forall ni nq sched st, run sched (init ni nq) = Some st -> fl st <> F_panic.
Proof.
  intros ni nq sched st H. apply flusher_no_panic. apply reachable_inv. exists ni, nq, sched. exact H.
Qed.
