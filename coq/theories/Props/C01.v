(* C01 — Ingested values come back unchanged from a plain SELECT.
   Property theorems only; each is closed by [exact <lemma>] so that the statement is what is pinned.

   Vocabulary (Model/): [push_op] are the calls a ColumnBuffer receives from the ingestion path,
   [run_pushes]/[finalize] the column writer, [column_cells] the query-path decoder applied to the
   finished column, [stored] their composition, [expected] the specification (supplied cells in
   order, NULL where nothing was supplied, documented type degradation).  [f2s] is f64's Display
   (external code); the only fact used about it is that its output is shorter than 2^24 bytes. *)
From Coq Require Import ZArith List Bool Lia.
From LV Require Import Model.CodecBase Model.IntEnc Model.FloatEnc Model.StrEnc Model.Codec
  Model.ColumnBuffer Model.Ingest
  Proofs.CodecBase Proofs.Codec Proofs.IntEnc Proofs.FloatEnc Proofs.StrEnc Proofs.ColumnBuffer Proofs.Ingest.
Import ListNotations.
Open Scope Z_scope.

(* ---------------------------------------------------------------------------------------------- *)
(* The property, for every ingestion history of a column buffer: what SELECT decodes from the
   finished column is exactly what was supplied.  Domain ([ops_ok]): pushes as the ingestion path
   issues them (no caller-supplied null map), integers in i64, strings shorter than 2^24 bytes.
   [int_guard]: if the buffer ends as an integer buffer that is delta-coded, its maximum is at most
   i64::MAX - 2^32 (the i64 subtraction `max - offset` of create_col's range metadata; reaching the
   excluded corner takes a run of more than 2^31 values).
   History: stated for /repo 4a8ac11.  Before the fixes f5be0e2 (F4), 481c464 (F10), 3e7ef89 (F19) the
   theorem carried three more guards (no NULL after the buffer became Mixed; every step of a
   delta-eligible run fits an i64; not min = i64::MIN with max = 0) and the unguarded statement was
   refuted by C01_F4_witness / C01_F10_witness / C01_F19_witness, now the positive examples below. *)
Theorem C01_roundtrip :
  forall (f2s : Z -> str), (forall f, zlen (f2s f) < 16777216) ->
  forall ops : list push_op,
    ops_ok KEmpty ops ->
    int_guard (run_pushes f2s (colbuf_null 0) ops) ->
    stored f2s ops = Val (expected f2s ops).
Proof. exact stored_expected. Qed.

(* the former counterexamples round-trip on the repaired code *)
Theorem C01_former_F4_witness :
  stored no_display [PStrs [[97]] None; PInts [1] None; PNulls 1] =
  Val (expected no_display [PStrs [[97]] None; PInts [1] None; PNulls 1]) /\
  expected no_display [PStrs [[97]] None; PInts [1] None; PNulls 1] = [CStr [97]; CStr [49]; CNull].
Proof. exact former_F4_witness. Qed.

Theorem C01_former_F10_witness :
  stored no_display [PInts [i64_min + 1; i64_max - 1] None] = Val [CInt (i64_min + 1); CInt (i64_max - 1)].
Proof. exact former_F10_witness. Qed.

Theorem C01_former_F19_witness :
  stored no_display [PInts [i64_min] None; PNulls 1] = Val [CInt i64_min; CNull].
Proof. exact former_F19_witness. Qed.

(* The table-level front end (InputColumn::from_column_data + Buffer::push_typed_cols +
   extend_to_largest, one column's view) only issues ingestion pushes: whenever it does not panic
   ([col_ops] = Some), no push carries a caller-supplied null map and no NULL count is negative. *)
Theorem C01_ingest_ops :
  forall (items : list batch_item) (created : bool) (before : Z) (ops : list push_op),
    0 <= before -> Forall (fun it => 0 <= snd it) items ->
    col_ops created before items = Some ops -> Forall ingest_op ops.
Proof. exact col_ops_ingest. Qed.

(* What the front end accepts for a string column (/repo 1c4a1c7, former finding F11: equality was
   asserted): at most as many strings as the batch has rows; the column then means its strings followed
   by NULLs.  (A table buffer with zero rows is skipped altogether since /repo 1eb96cd, former F12:
   [col_ops] ignores such items.) *)
Theorem C01_accepts_short_string :
  forall (ss : list str) (rows : Z),
    zlen ss <= rows ->
    exists ic, from_column_data (CDString ss) rows = Some ic /\
               exists ops, ops_of_input ic = Some ops /\ Forall ingest_op ops.
Proof. exact from_column_data_short_string. Qed.

Theorem C01_short_string_expected :
  forall (f2s : Z -> str) (ss : list str) (n : nat),
    expected f2s (map op_of_val (map RStr ss ++ repeat RNull n)) = map CStr ss ++ repeat CNull n.
Proof. exact short_string_column_expected. Qed.

(* ---------------------------------------------------------------------------------------------- *)
(* The null bitmap, for every ingestion history: bit i is set iff cell i is not NULL; no bit at or
   beyond the length; a buffer without a bitmap is either entirely NULL (still untyped) or has no NULL. *)
Theorem C01_bitmap :
  forall (f2s : Z -> str), (forall f, zlen (f2s f) < 16777216) ->
  forall ops : list push_op,
    ops_ok KEmpty ops ->
    let cb := run_pushes f2s (colbuf_null 0) ops in
    let cs := expected f2s ops in
    cb_len cb = zlen cs /\
    match cb_present cb with
    | Some p =>
        (forall i, (i < length cs)%nat -> (bv_get p (Z.of_nat i) = true <-> nth i cs CNull <> CNull)) /\
        (forall j, cb_len cb <= j -> bv_get p j = false)
    | None => (cb_buf cb = TEmpty /\ cs = repeat CNull (length cs)) \/ Forall non_null cs
    end.
Proof. exact bitmap_correct. Qed.

(* ---------------------------------------------------------------------------------------------- *)
(* Integers.  Whatever column IntegerColumn::new_boxed returns — any rung of the width/offset
   ladder, plain or delta, with or without a null map, any statistics handed in — decodes to the
   values it was given, and the decoder's additions do not overflow. *)
Theorem C01_int_roundtrip :
  forall (xs : list Z) (mn mx : Z) (delta : bool) (null : option (list Z)) (col : column),
    i64s xs ->
    new_boxed xs mn mx delta null = Val col ->
    decode_column col = Val (int_sval xs null).
Proof. exact new_boxed_decode. Qed.

(* The plain path returns a column for all statistics that bound the values (before /repo 3e7ef89:
   except min = i64::MIN with max = 0, finding F19): *)
Theorem C01_int_plain_total :
  forall (xs : list Z) (mn mx : Z) (null : option (list Z)),
    i64_min <= mn -> mx <= i64_max -> mn <= mx -> bounded mn mx xs ->
    exists col, new_boxed xs mn mx false null = Val col.
Proof. exact new_boxed_plain_total. Qed.

Theorem C01_int_former_F19 :
  new_boxed [i64_min; 0] i64_min 0 false None =
  Val (mk_column 2 (Some (i64_min, 0)) [] [SInts EI64 [i64_min; 0]]).
Proof. exact new_boxed_former_F19. Qed.

(* The delta path returns a column when every step fits an i64 and the maximum is at least 2^32 below
   i64::MAX (before 3e7ef89 also: first value <> i64::MIN, no step of exactly -2^63): *)
Theorem C01_int_delta_total :
  forall (v0 : Z) (r : list Z) (mn mx : Z) (null : option (list Z)),
    i64s (v0 :: r) -> delta_safe v0 r ->
    bounded mn mx (v0 :: r) -> In mn (v0 :: r) -> In mx (v0 :: r) ->
    mx <= 9223372032559808511 ->
    exists col, new_boxed (v0 :: r) mn mx true null = Val col.
Proof. exact new_boxed_delta_total. Qed.

(* IntColBuffer's statistics keep delta coding allowed only if every step fits an i64 (this is what
   /repo 481c464 repaired; before it the statement was refuted by [i64::MIN+1, i64::MAX-1], F10): *)
Theorem C01_int_stats_delta_safe :
  forall (v0 : Z) (r : list Z),
    st_allow (istats_push_all istats_init (v0 :: r)) = true -> delta_safe v0 r.
Proof. exact istats_allow_safe. Qed.

Theorem C01_int_former_F10 :
  let data := [i64_min + 1; i64_max - 1] in
  let st := istats_push_all istats_init data in
  st_allow st = false /\
  int_finalize data st None = Val (mk_column 2 (Some (i64_min + 1, i64_max - 1)) [] [SInts EI64 data]).
Proof. exact int_finalize_former_F10. Qed.

(* ---------------------------------------------------------------------------------------------- *)
(* Strings: all byte strings shorter than 2^24, all three layouts (packed, hex-packed, dictionary with
   u8/u16/u32 indices), with or without a null map; and the string writer never panics. *)
Theorem C01_string_roundtrip :
  forall (ss : list str) (present : option (list Z)) (col : column),
    short_strings ss ->
    str_finalize ss present = Val col ->
    decode_column col = Val (str_sval ss present).
Proof. exact str_finalize_decode. Qed.

Theorem C01_string_total :
  forall (ss : list str) (present : option (list Z)), exists col, str_finalize ss present = Val col.
Proof. exact str_finalize_total. Qed.

(* the layout decision is arbitrary as far as correctness goes: any flags consistent with the data *)
Theorem C01_string_roundtrip_any_flags :
  forall (ss : list str) (lhex uhex : bool) (tbytes : Z) (present : option (list Z)) (col : column),
    short_strings ss ->
    (lhex = true -> forallb is_lowercase_hex ss = true) ->
    (uhex = true -> forallb is_uppercase_hex ss = true) ->
    fast_build_string_column ss lhex uhex tbytes present = Val col ->
    decode_column col = Val (str_sval ss present).
Proof. exact fast_build_decode. Qed.

(* ---------------------------------------------------------------------------------------------- *)
(* Floats are bit-exact: every 64-bit pattern, NULL exactly where the bitmap has no bit, whatever the
   writer put into the NULL slots. *)
Theorem C01_float_roundtrip :
  forall (fs : list Z) (null : option (list Z)),
    column_cells (float_new_boxed fs null) =
    Val (match null with
         | None => map CFloat fs
         | Some p => mask_cells p 0 (map CFloat fs)
         end).
Proof. exact float_roundtrip. Qed.

(* ---------------------------------------------------------------------------------------------- *)
(* Generic compression of section 0 (lz4 / pco / pco-fp32 are external: any [enc]/[dec] with
   dec (enc s) = s on the sections they are applied to): every choice is transparent. *)
Theorem C01_compression_transparent :
  forall (comp : Type) (enc : comp -> section -> list Z) (dec : comp -> list Z -> section)
         (applicable : comp -> section -> Prop),
    (forall k s, applicable k s -> dec k (enc k s) = s) ->
    forall (choice : option comp) (c : column),
      (forall k s0 rest, choice = Some k -> c_data c = s0 :: rest -> applicable k s0) ->
      column_cells (decompress comp dec (compress comp enc choice c)) = column_cells c.
Proof. exact compressed_cells. Qed.

(* ---------------------------------------------------------------------------------------------- *)
(* Non-vacuity: concrete histories inside the domain of C01_roundtrip, evaluated. *)

Definition ex_display : Z -> str := fun _ => [63].

(* nullable u8-with-offset integers in a column first seen after 9 rows, with a trailing NULL:
   the hypotheses of C01_roundtrip hold, so it applies *)
Example C01_example_offset_nullable :
  let ops := [PNulls 9; PInts [-200; -100; -255] None; PNulls 1; PInts [-1] None] in
  ops_ok KEmpty ops /\ int_guard (run_pushes ex_display (colbuf_null 0) ops) /\
  (exists col, finalize ex_display (run_pushes ex_display (colbuf_null 0) ops) = Val col /\
               c_ops col = [OpPush 1; OpNullable; OpAdd EU8 (-255)]) /\
  stored ex_display ops =
    Val (repeat CNull 9 ++ [CInt (-200); CInt (-100); CInt (-255); CNull; CInt (-1)]).
Proof.
  cbn zeta. split; [|split; [|split]].
  - cbn. repeat split; try lia; try discriminate; repeat constructor; unfold i64_min, i64_max; lia.
  - vm_compute. discriminate.
  - eexists. split; vm_compute; reflexivity.
  - rewrite C01_roundtrip.
    + vm_compute. reflexivity.
    + intros f. cbn. lia.
    + cbn. repeat split; try lia; try discriminate; repeat constructor; unfold i64_min, i64_max; lia.
    + vm_compute. discriminate.
Qed.

(* a delta-coded run *)
Example C01_example_delta :
  let ops := [PInts [100; 101; 103; 110; 111; 115; 120; 121; 122; 130; 131] None] in
  (exists col, finalize ex_display (run_pushes ex_display (colbuf_null 0) ops) = Val col /\
               c_ops col = [OpDelta EU8]) /\
  stored ex_display ops = Val (expected ex_display ops).
Proof. cbn zeta. split; [eexists; split; vm_compute; reflexivity|vm_compute; reflexivity]. Qed.

(* a 65-row bitmap, int then float (degrades to float), a 256-byte string next to hex strings *)
Example C01_example_bitmap_65 :
  let ops := [PInts (repeat 7 64) None; PNulls 1; PFloats [4607182418800017408] None] in
  stored ex_display ops = Val (expected ex_display ops) /\
  nth 64 (expected ex_display ops) (CInt 0) = CNull /\
  nth 0 (expected ex_display ops) CNull = CFloat 4619567317775286272.
Proof. cbn zeta. repeat split; vm_compute; reflexivity. Qed.

Example C01_example_strings :
  let long := repeat 97 256 in
  let ops1 := [PStrs [long; [98]; long; [99]] None] in
  let ops2 := [PStrs [[100;101;97;100;98;101;101;102;48;49;50;51]; [48;49;50;51;52;53;54;55;56;57;97;98]] None; PNulls 1] in
  stored ex_display ops1 = Val (expected ex_display ops1) /\
  stored ex_display ops2 = Val (expected ex_display ops2) /\
  (exists col, finalize ex_display (run_pushes ex_display (colbuf_null 0) ops2) = Val col /\
               c_ops col = [OpUnhex false 24; OpPush 1; OpNullable]).
Proof. cbn zeta. repeat split; try (vm_compute; reflexivity). eexists; split; vm_compute; reflexivity. Qed.
