(* C01 — Ingested values come back unchanged from a plain SELECT.  Property theorems only. *)
From Coq Require Import ZArith List Bool.
From LV Require Import Model.CodecBase Model.Codec Model.FloatEnc Proofs.FloatEnc.
Import ListNotations.
Open Scope Z_scope.

(* Float columns are bit-exact: every 64-bit pattern (no arithmetic is ever applied to a stored
   float), NULL exactly where the bitmap has no bit, whatever the writer put into the NULL slots. *)
Theorem C01_float_roundtrip :
  forall (fs : list Z) (null : option (list Z)),
    column_cells (float_new_boxed fs null) =
    Val (match null with
         | None => map CFloat fs
         | Some p => mask_cells p 0 (map CFloat fs)
         end).
Proof. exact float_roundtrip. Qed.
