(* C03 — WHERE keeps exactly the rows for which the predicate is true.
   Property theorems only.  Model/EncodedCmp.v transcribes Codec::encode_int, the widened integer
   comparisons, InverseDictLookup and the null-aware AND/OR as planned; Model/QuerySpec.v is the
   three-valued reference semantics.  The engine is checked against the specification through
   LocustDB::run_query on every run (suite c03_filter). *)
From Coq Require Import ZArith NArith List Bool Sorting.Sorted.
From LV Require Import Model.CheckedArith Model.QuerySpec Model.EncodedCmp Proofs.EncodedCmp.
Import ListNotations.
Open Scope Z_scope.

(* Comparison on an offset-encoded integer column: for every stored value v, every offset, every
   constant k whose translation k - offset stays in i64, and every operator, comparing the encoded
   value with the translated constant gives the comparison of the decoded values. *)
Theorem C03_int_encoded_cmp :
  forall c offset v k e,
    encode_int offset k = Some e -> cmp_enc c (encode_val offset v) e = cmp_dec c v k.
Proof. exact int_encoded_cmp. Qed.

(* ... and the translation fails exactly when k - offset leaves i64: constants far from the column's
   minimum (finding Q10: the engine subtracts unchecked; dev-profile panic) *)
Theorem C03_int_const_overflow_guard :
  forall offset k,
    encode_int offset k = None <->
    (k - offset < -9223372036854775808 \/ 9223372036854775807 < k - offset).
Proof. exact encode_int_none_iff. Qed.

(* in the release profile the wrapped constant changes the answer *)
Theorem C03_int_const_wrapping_refuted :
  exists offset v k,
    in_i64 offset = true /\ in_i64 v = true /\ in_i64 k = true /\
    cmp_enc CGt (encode_val offset v) (encode_int_wrapping offset k) <> cmp_dec CGt v k.
Proof. exact encode_int_wrapping_refuted. Qed.

(* Dictionary-encoded strings: = and <> on indices agree with byte equality for constants present
   in or absent from the dictionary (-1 never equals an index) *)
Theorem C03_dict_eq :
  forall d idx c,
    dict_sorted d -> (idx < length d)%nat ->
    cmp_dict CEq idx (inverse_dict_lookup d c) = bytes_eqb (nth idx d []) c /\
    cmp_dict CNe idx (inverse_dict_lookup d c) = negb (bytes_eqb (nth idx d []) c).
Proof. exact dict_eq. Qed.

(* < <= > >= on indices agree with byte order when the constant IS in the dictionary ... *)
Theorem C03_dict_order :
  forall c d idx j,
    dict_sorted d -> (idx < length d)%nat -> (j < length d)%nat ->
    cmp_dict c idx (inverse_dict_lookup d (nth j d [])) = cmp_holds c (bytes_cmp (nth idx d []) (nth j d [])).
Proof. exact dict_order. Qed.

(* ... and not otherwise (finding F7): 'a' > 'm' comes out true against the dictionary [a; z] *)
Theorem C03_dict_order_refuted :
  exists d idx c,
    dict_sorted d /\ (idx < length d)%nat /\ ~ In c d /\
    cmp_dict CGt idx (inverse_dict_lookup d c) <> cmp_holds CGt (bytes_cmp (nth idx d []) c).
Proof. exact dict_order_refuted. Qed.

(* Null-aware AND as planned (data AND, null maps AND-ed) keeps exactly the rows the three-valued AND
   keeps; OR does so when both operands are present, and is refuted otherwise (finding F21) *)
Theorem C03_bool_and :
  forall a b, engine_keeps (engine_and a b) = spec_keeps (and3 (nbool_val a) (nbool_val b)).
Proof. exact engine_and_keeps. Qed.

Theorem C03_bool_or_present :
  forall a b, snd a = true -> snd b = true ->
              engine_keeps (engine_or a b) = spec_keeps (or3 (nbool_val a) (nbool_val b)).
Proof. exact engine_or_keeps_present. Qed.

Theorem C03_bool_or_refuted :
  exists a b, engine_keeps (engine_or a b) <> spec_keeps (or3 (nbool_val a) (nbool_val b)).
Proof. exact engine_or_refuted. Qed.

(* The specification's WHERE: the result is exactly the sub-list of rows whose predicate value is
   TRUE, in table order (so every projected / sort / grouping column stays aligned); no predicate
   keeps everything; a comparison with a NULL operand is never true; IS [NOT] NULL tests presence *)
Theorem C03_filter_exact :
  forall e t rows, filter_rows (Some e) t = Ok rows -> rows = filter (pred_true e) t.
Proof. exact filter_rows_exact. Qed.

Theorem C03_no_filter : forall t, filter_rows None t = Ok t.
Proof. exact filter_rows_none. Qed.

Theorem C03_null_comparison_not_true :
  forall c l r row,
    eval_expr row l = EVal VNull \/ eval_expr row r = EVal VNull ->
    spec_keeps (eval_expr row (ECmp c l r)) = false.
Proof. exact cmp_with_null_not_true. Qed.

Theorem C03_is_null :
  forall e row v,
    eval_expr row e = EVal v ->
    eval_expr row (EIsNull e) = EVal (VBool (match v with VNull => true | _ => false end)) /\
    eval_expr row (EIsNotNull e) = EVal (VBool (match v with VNull => false | _ => true end)).
Proof. exact is_null_tests_presence. Qed.

(* integer vs float literal: the specification compares the exact mathematical values *)
Example C03_int_vs_float_example :
  cmp_int_float 3 4613937818241073152 = Eq /\          (* 3 vs 3.0 *)
  cmp_int_float 3 4615063718147915776 = Lt /\          (* 3 vs 3.5 *)
  cmp_int_float (-2) 13836183955189006336 = Gt /\      (* -2 vs -2.5 *)
  cmp_int_float 9007199254740993 4845873199050653696 = Gt /\   (* 2^53 + 1 vs 2^53 (exact, no rounding) *)
  eval_expr [VInt 3] (ECmp CGe (ECol 0) (EConst (VFloat 4613937818241073152))) = EVal (VBool true).
Proof. repeat split; vm_compute; reflexivity. Qed.

(* non-vacuity *)
Example C03_example :
  let t := [[VInt 1; VInt 1000; VStr [97%N]]; [VInt 2; VNull; VStr [122%N]]; [VInt 3; VInt 1255; VNull]] in
  (* WHERE b >= 1255 OR s = 'z' *)
  filter_rows (Some (EOr (ECmp CGe (ECol 1) (EConst (VInt 1255))) (ECmp CEq (ECol 2) (EConst (VStr [122%N]))))) t
    = Ok [[VInt 2; VNull; VStr [122%N]]; [VInt 3; VInt 1255; VNull]] /\
  (* the same comparison on the u8-offset encoding of column b (offset 1000) *)
  encode_int 1000 1255 = Some 255 /\ cmp_enc CGe (encode_val 1000 1255) 255 = true /\
  inverse_dict_lookup [[97%N]; [122%N]] [122%N] = 1 /\ inverse_dict_lookup [[97%N]; [122%N]] [109%N] = -1.
Proof. repeat split; vm_compute; reflexivity. Qed.
