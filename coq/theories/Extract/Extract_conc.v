(* Extraction for the `conc` cluster (C10). ExtrOcamlBasic only. *)
From Coq Require Import Extraction ExtrOcamlBasic ZArith NArith.
From LV Require Import Model.ConcSM Model.ConcSMReplay.
Extraction Language OCaml.
Separate Extraction
  BinInt.Z.add BinInt.Z.compare BinNat.N.add
  ConcSM.run ConcSM.run_trace ConcSM.init ConcSM.snap_rows ConcSM.view
  ConcSMReplay.replay_from_init ConcSMReplay.layout.
