(* Extraction for the `front` cluster (C12, C11). ExtrOcamlBasic only. *)
From Coq Require Import Extraction ExtrOcamlBasic ZArith NArith.
From LV Require Import Model.Frontend Model.FrontendSpec Model.PoolSM.
Extraction Language OCaml.
Separate Extraction
  BinInt.Z.add BinInt.Z.compare BinNat.N.add
  Frontend.parse_query Frontend.parse_and_normalize Frontend.output_names
  Frontend.output_slice Frontend.combined_limit FrontendSpec.parser_output
  PoolSM.run_checked PoolSM.run.
