(* Extraction of the executable models of the `query` cluster to OCaml.  ExtrOcamlBasic only: bool,
   option, unit, list, prod, sumbool and comparison map to the OCaml types; N, Z, positive and nat
   stay inductive. *)
From Coq Require Import Extraction ExtrOcamlBasic ZArith NArith.
From LV Require Import Model.CheckedArith Model.QuerySpec.
Extraction Language OCaml.
Separate Extraction
  BinInt.Z.add BinInt.Z.compare BinNat.N.add
  CheckedArith.perform_checked CheckedArith.checked_loop CheckedArith.eval_aexpr
  CheckedArith.sum_partition CheckedArith.combine_i64 CheckedArith.sum_tree
  QuerySpec.valid QuerySpec.eval_query QuerySpec.eval_expr.
