(* Extraction of the executable models of the `query` cluster to OCaml.  ExtrOcamlBasic only: bool,
   option, unit, list, prod, sumbool and comparison map to the OCaml types; N, Z, positive and nat
   stay inductive. *)
From Coq Require Import Extraction ExtrOcamlBasic ZArith NArith.
From LV Require Import Model.CheckedArith Model.QuerySpec Model.SortKernels Model.MergeKernels Model.EncodedCmp.
Extraction Language OCaml.
Separate Extraction
  BinInt.Z.add BinInt.Z.compare BinNat.N.add
  CheckedArith.perform_checked CheckedArith.checked_loop CheckedArith.eval_aexpr
  CheckedArith.sum_partition CheckedArith.combine_i64 CheckedArith.sum_tree
  QuerySpec.valid QuerySpec.eval_query QuerySpec.eval_expr
  BinInt.Z.leb BinInt.Z.geb BinInt.Z.eqb BinInt.Z.ltb BinInt.Z.gtb BinInt.Z.sub
  SortKernels.merge SortKernels.merge_keep SortKernels.merge_keep_nullable SortKernels.append_limit
  SortKernels.final_slice SortKernels.combined_limit SortKernels.partition SortKernels.subpartition
  SortKernels.merge_partitioned SortKernels.heap_replace
  MergeKernels.merge_deduplicate MergeKernels.merge_deduplicate_partitioned MergeKernels.merge_drop
  MergeKernels.merge_aggregate
  EncodedCmp.encode_int EncodedCmp.encode_int_wrapping EncodedCmp.cmp_enc EncodedCmp.inverse_dict_lookup.
