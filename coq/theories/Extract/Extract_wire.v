(* Extraction of the executable models to OCaml.  ExtrOcamlBasic only: bool, option, unit, list,
   prod, sumbool and comparison map to the OCaml types; N, Z, positive and nat stay inductive. *)
From Coq Require Import Extraction ExtrOcamlBasic ZArith NArith.
From LV Require Import Model.XorFloat Model.IntResponse Model.EventBuf Model.EventWire Model.Server Gen.ServerMap.
Extraction Language OCaml.
Separate Extraction
  BinInt.Z.add BinInt.Z.compare BinNat.N.add
  XorFloat.encode_bytes XorFloat.decode_bytes XorFloat.expected XorFloat.mask_of
  IntResponse.roundtrip
  EventBuf.push_rows
  EventWire.serialize EventWire.deserialize
  Server.encode_column ServerMap.status_of ServerMap.all_errors.
