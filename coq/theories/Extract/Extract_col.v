(* Extraction of the executable models of the `col` cluster to OCaml.  ExtrOcamlBasic only. *)
From Coq Require Import Extraction ExtrOcamlBasic ZArith NArith.
From LV Require Import Model.CodecBase Model.IntEnc Model.FloatEnc Model.StrEnc Model.Codec Model.ColumnBuffer Model.Ingest Model.CompactionDecode.
Extraction Language OCaml.
(* keep OCaml's own List / String usable by the glue files *)
Extraction Blacklist List String Int Sx Conv Loop Lvmodel.
Separate Extraction
  BinInt.Z.add BinInt.Z.compare BinNat.N.add
  CodecBase.bv_get CodecBase.bv_set
  IntEnc.new_boxed IntEnc.int_finalize
  FloatEnc.i64_to_f64 FloatEnc.float_new_boxed
  StrEnc.str_finalize
  Codec.column_cells Codec.decode_column
  ColumnBuffer.finalize ColumnBuffer.run_pushes ColumnBuffer.colbuf_null ColumnBuffer.i64_to_string
  Ingest.col_ops Ingest.expected Ingest.stored
  CompactionDecode.decode_free CompactionDecode.compact_column CompactionDecode.compact_ops.
