(* Extraction of the persistence state-machine models to OCaml (ExtrOcamlBasic only). *)
From Coq Require Import Extraction ExtrOcamlBasic ZArith NArith.
From LV Require Import Model.TableSM Model.Catalogue Model.WalSM Model.CrashSM.
Extraction Language OCaml.
(* the extracted copy of Coq's List must not shadow OCaml's List in the shared glue (conv.ml) *)
Extraction Blacklist List String Nat.
Separate Extraction
  BinInt.Z.add BinInt.Z.compare BinNat.N.add
  TableSM.plan_compaction
  Catalogue.s_column_name
  WalSM.run_h WalSM.init CrashSM.run_effects.
