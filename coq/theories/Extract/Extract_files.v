(* Extraction for the `files` cluster (C14, C15). ExtrOcamlBasic only. *)
From Coq Require Import Extraction ExtrOcamlBasic ZArith NArith.
From LV Require Import Model.Envelope Model.Routing Model.CatalogueCodec.
Extraction Language OCaml.
Separate Extraction
  BinInt.Z.add BinInt.Z.compare BinNat.N.add
  Envelope.store Envelope.load
  Routing.sanitize_table_name Routing.partition_filename Routing.subpartition Routing.route_key
  CatalogueCodec.serialize CatalogueCodec.deserialize.
