(* Model of locustdb-compression-utils/src/xor_float/double.rs (encode / decode).
   Executable definitions only; proofs live in Proofs/XorFloat.v.

   A float is its 64-bit pattern (N < 2^64).  The bit stream is a list of booleans in the order
   bitbuffer's LittleEndian writer emits them: write_int(v, k) appends the k low bits of v, least
   significant first; bytes are filled from bit 0 upwards.  bitbuffer 0.10 masks away bits above k
   ("ensure there are no stray bits" in push_bits) and only fails when k exceeds the width of the
   integer type, which the call sites exclude (k <= 64 on u64, 5 and 6 on u32), so write_int is
   [bits_of], total.  The only panics left in the encoder are the u32 arithmetic on [regret]
   (dev profile), modelled as None. *)
From Coq Require Import NArith Arith PeanoNat List Bool.
Import ListNotations.
Open Scope N_scope.

Fixpoint bits_of (v : N) (k : nat) : list bool :=
  match k with O => [] | S k' => N.odd v :: bits_of (N.div2 v) k' end.

Fixpoint of_bits (bs : list bool) : N :=
  match bs with [] => 0 | b :: r => (if b then 1 else 0) + 2 * of_bits r end.

Fixpoint read_bits (k : nat) (s : list bool) : option (list bool * list bool) :=
  match k with
  | O => Some ([], s)
  | S k' => match s with
            | [] => None
            | b :: r => match read_bits k' r with
                        | None => None
                        | Some (bs, rest) => Some (b :: bs, rest)
                        end
            end
  end.

(* read_int(k) *)
Definition read (k : nat) (s : list bool) : option (N * list bool) :=
  match read_bits k s with None => None | Some (bs, rest) => Some (of_bits bs, rest) end.

Fixpoint pctz (p : positive) : N :=
  match p with xO q => 1 + pctz q | _ => 0 end.
(* u64::trailing_zeros / leading_zeros *)
Definition ctz64 (x : N) : N := match x with 0 => 64 | Npos p => pctz p end.
Definition clz64 (x : N) : N := 64 - N.size x.

Definition all_ones : N := 18446744073709551615.            (* u64::MAX *)
Definition u32_max : N := 4294967295.

(* mask = u64::MAX - ((1 << (52 - mantissa)) - 1); mantissa <= 52 asserted by the code *)
Definition mask_of (mantissa : option N) : option N :=
  match mantissa with
  | None => Some all_ones
  | Some m => if m <=? 52 then Some (all_ones - (2 ^ (52 - m) - 1)) else None
  end.

Record enc_st := { e_last : N; e_lz : N; e_tz : N; e_sb : N; e_regret : N }.

Definition obind {A B} (o : option A) (f : A -> option B) : option B :=
  match o with Some a => f a | None => None end.

(* one iteration of the encoder loop; None = a panic: u32 underflow of
   last_significant_bits - significant_bits or u32 overflow of regret (dev profile) *)
Definition enc_step (mask maxr : N) (st : enc_st) (f : N) : option (enc_st * list bool) :=
  let x := N.land (N.lxor f (e_last st)) mask in
  let lzs := N.min (clz64 x) 31 in
  let tzs := ctz64 x in
  if tzs =? 64 then
    Some ({| e_last := f; e_lz := e_lz st; e_tz := e_tz st; e_sb := e_sb st;
             e_regret := e_regret st |}, [false])
  else
    let sbs := 64 - lzs - tzs in
    if (e_lz st <=? lzs) && (e_tz st <=? tzs) && ((e_regret st <? maxr) || (sbs =? e_sb st)) then
      if (sbs <=? e_sb st) && (e_regret st + (e_sb st - sbs) <=? u32_max) then
        Some ({| e_last := f; e_lz := e_lz st; e_tz := e_tz st; e_sb := e_sb st;
                 e_regret := e_regret st + (e_sb st - sbs) |},
              [true; false] ++ bits_of (N.shiftr x (e_tz st)) (N.to_nat (e_sb st)))
      else None
    else
      Some ({| e_last := f; e_lz := lzs; e_tz := tzs; e_sb := sbs; e_regret := 0 |},
            [true; true] ++ bits_of lzs 5 ++ bits_of (sbs - 1) 6
              ++ bits_of (N.shiftr x tzs) (N.to_nat sbs)).

Fixpoint enc_loop (mask maxr : N) (st : enc_st) (fs : list N) : option (list bool) :=
  match fs with
  | [] => Some []
  | f :: r =>
      match enc_step mask maxr st f with
      | None => None
      | Some (st', out) =>
          match enc_loop mask maxr st' r with
          | None => None
          | Some rest => Some (out ++ rest)
          end
      end
  end.

Definition enc_init (f0 : N) : enc_st :=
  {| e_last := f0; e_lz := 65; e_tz := 65; e_sb := 0; e_regret := 0 |}.

Definition encode (mask maxr : N) (fs : list N) : option (list bool) :=
  let hdr := bits_of (N.of_nat (length fs)) 64 in
  match fs with
  | [] => Some hdr
  | f0 :: r =>
      obind (enc_loop mask maxr (enc_init f0) r) (fun body =>
      Some (hdr ++ bits_of f0 64 ++ body))
  end.

Record dec_st := { d_last : N; d_tz : N; d_sb : N }.

Definition dec_step (st : dec_st) (s : list bool) : option (dec_st * list bool) :=
  match read 1 s with
  | None => None
  | Some (b, s1) =>
    if b =? 0 then Some (st, s1) else
    match read 1 s1 with
    | None => None
    | Some (b2, s2) =>
      let hdr :=
        if b2 =? 1 then
          match read 5 s2 with
          | None => None
          | Some (lz, s3) =>
            match read 6 s3 with
            | None => None
            | Some (sb1, s4) => Some (64 - lz - (sb1 + 1), sb1 + 1, s4)
            end
          end
        else Some (d_tz st, d_sb st, s2) in
      match hdr with
      | None => None
      | Some (tz, sb, s5) =>
        match read (N.to_nat sb) s5 with
        | None => None
        | Some (x, s6) =>
          Some ({| d_last := N.lxor (d_last st) (N.shiftl x tz); d_tz := tz; d_sb := sb |}, s6)
        end
      end
    end
  end.

Fixpoint dec_loop (n : nat) (st : dec_st) (s : list bool) : option (list N) :=
  match n with
  | O => Some []
  | S n' =>
    match dec_step st s with
    | None => None
    | Some (st', s') =>
      match dec_loop n' st' s' with
      | None => None
      | Some r => Some (d_last st' :: r)
      end
    end
  end.

Definition decode (s : list bool) : option (list N) :=
  match read 64 s with
  | None => None
  | Some (len, s1) =>
    if len =? 0 then Some [] else
    match read 64 s1 with
    | None => None
    | Some (f0, s2) =>
      match dec_loop (N.to_nat len - 1) {| d_last := f0; d_tz := 65; d_sb := 0 |} s2 with
      | None => None
      | Some r => Some (f0 :: r)
      end
    end
  end.

(* What the decoder is specified to return for a given mask: the first value verbatim and then
   the running xor of the masked differences. *)
Fixpoint expected_from (mask : N) (dprev fprev : N) (fs : list N) : list N :=
  match fs with
  | [] => []
  | f :: r =>
      let d := N.lxor dprev (N.land (N.lxor f fprev) mask) in
      d :: expected_from mask d f r
  end.

Definition expected (mask : N) (fs : list N) : list N :=
  match fs with [] => [] | f0 :: r => f0 :: expected_from mask f0 f0 r end.

(* byte packing used by the correspondence check: LittleEndian fills each byte from bit 0 *)
Fixpoint take_byte (k : nat) (s : list bool) : list bool * list bool :=
  match k with
  | O => ([], s)
  | S k' => match s with
            | [] => let '(bs, r) := take_byte k' [] in (false :: bs, r)
            | b :: t => let '(bs, r) := take_byte k' t in (b :: bs, r)
            end
  end.

Fixpoint bytes_of_bits (fuel : nat) (s : list bool) : list N :=
  match fuel with
  | O => []
  | S fuel' => match s with
               | [] => []
               | _ => let '(bs, r) := take_byte 8 s in of_bits bs :: bytes_of_bits fuel' r
               end
  end.

Fixpoint bits_of_bytes (bs : list N) : list bool :=
  match bs with [] => [] | b :: r => bits_of b 8 ++ bits_of_bytes r end.

Definition encode_bytes (mantissa : option N) (maxr : N) (fs : list N) : option (list N) :=
  obind (mask_of mantissa) (fun mask =>
  obind (encode mask maxr fs) (fun bits => Some (bytes_of_bits (length bits) bits))).

Definition decode_bytes (bs : list N) : option (list N) := decode (bits_of_bytes bs).
