(* Models of the kernels that merge the GROUP BY results of adjacent partitions (property C04,
   reused by C02):

     src/engine/operators/merge_deduplicate.rs               merge_deduplicate<T, C>(left, right)
     src/engine/operators/merge_deduplicate_partitioned.rs   merge_deduplicate_partitioned<T, C>(groups, left, right)
     src/engine/operators/merge_drop.rs                      merge_drop(ops, left, right)
     src/engine/operators/merge_aggregate.rs                 merge_aggregate(ops, left, right, aggregator)
                                                             (Combinable<i64>::combine is Model/CheckedArith.combine_i64)

   Each partition delivers its groups as columns sorted by the grouping key; the key columns are
   merged into the sorted union (`MergeOp`s record how), then the ops are replayed on every
   aggregate column, combining the two sides' partial aggregates where a key occurs on both.

   The kernels are generic in the key type and comparator: [cmp_eq] is Comparator::cmp_eq, [eqb]
   is `==`.  Executable definitions only; proofs live in Proofs/MergeKernels.v. *)
From Coq Require Import ZArith List Bool.
From LV Require Import Model.QuerySpecList Model.CheckedArith.
Import ListNotations.

Inductive mop := TakeLeft | TakeRight | MergeRight.

Section Dedup.
  Context {K : Type}.
  Variable cmp_eq : K -> K -> bool.
  Variable eqb : K -> K -> bool.

  Definition last_is (last : option K) (y : K) : bool :=
    match last with Some p => eqb p y | None => false end.

  (* merge_deduplicate.rs.  [last] is result.last().  The main loop runs while both inputs are
     non-empty; then the left tail is appended, then one more MergeRight is possible, then the right
     tail.  Fuel: every iteration consumes one element (length l + length r suffices). *)
  Fixpoint md_loop (fuel : nat) (l r : list K) (last : option K) : list K * list mop :=
    match fuel with
    | O => ([], [])
    | S fuel' =>
        match l, r with
        | x :: l', y :: r' =>
            if last_is last y then
              let '(ks, ops) := md_loop fuel' l r' last in (ks, MergeRight :: ops)
            else if cmp_eq x y then
              let '(ks, ops) := md_loop fuel' l' r (Some x) in (x :: ks, TakeLeft :: ops)
            else
              let '(ks, ops) := md_loop fuel' l r' (Some y) in (y :: ks, TakeRight :: ops)
        | _ :: _, [] => (l, qmap (fun _ => TakeLeft) l)
        | [], y :: r' =>
            if last_is last y then (r', MergeRight :: qmap (fun _ => TakeRight) r')
            else (r, qmap (fun _ => TakeRight) r)
        | [], [] => ([], [])
        end
    end.

  Definition merge_deduplicate (l r : list K) : list K * list mop :=
    md_loop (S (length l + length r)) l r None.

  (* merge_deduplicate_partitioned.rs: the same inside every premerge group, with `last` reset at
     the start of each group and exactly left + right iterations per group *)
  Fixpoint mdp_group (n : nat) (gl gr : list K) (last : option K) : list K * list mop :=
    match n with
    | O => ([], [])
    | S n' =>
        match gr with
        | y :: gr' =>
            if last_is last y then
              let '(ks, ops) := mdp_group n' gl gr' last in (ks, MergeRight :: ops)
            else
              match gl with
              | x :: gl' =>
                  if cmp_eq x y then
                    let '(ks, ops) := mdp_group n' gl' gr (Some x) in (x :: ks, TakeLeft :: ops)
                  else
                    let '(ks, ops) := mdp_group n' gl gr' (Some y) in (y :: ks, TakeRight :: ops)
              | [] => let '(ks, ops) := mdp_group n' [] gr' (Some y) in (y :: ks, TakeRight :: ops)
              end
        | [] =>
            match gl with
            | x :: gl' => let '(ks, ops) := mdp_group n' gl' [] (Some x) in (x :: ks, TakeLeft :: ops)
            | [] => ([], [])
            end
        end
    end.

  Fixpoint merge_deduplicate_partitioned (groups : list (nat * nat)) (l r : list K) : list K * list mop :=
    match groups with
    | [] => ([], [])
    | (nl, nr) :: gs =>
        let '(ks, ops) := mdp_group (nl + nr) (qfirstn nl l) (qfirstn nr r) None in
        let '(ks', ops') := merge_deduplicate_partitioned gs (qskipn nl l) (qskipn nr r) in
        (ks ++ ks', ops ++ ops')
    end.
End Dedup.

(* merge_drop.rs: replay the ops on another key column, dropping the right value on MergeRight.
   Out-of-range indexing is a Rust panic: None. *)
Fixpoint merge_drop {B : Type} (ops : list mop) (l r : list B) : option (list B) :=
  match ops with
  | [] => Some []
  | TakeLeft :: ops' =>
      match l with
      | x :: l' => match merge_drop ops' l' r with Some m => Some (x :: m) | None => None end
      | [] => None
      end
  | TakeRight :: ops' =>
      match r with
      | y :: r' => match merge_drop ops' l r' with Some m => Some (y :: m) | None => None end
      | [] => None
      end
  | MergeRight :: ops' =>
      match r with
      | _ :: r' => merge_drop ops' l r'
      | [] => None
      end
  end.

(* merge_aggregate.rs.  [acc] is the result vector in reverse (its head is result[last]). *)
Inductive agg_res := AOk (vs : list Z) | AOverflow | APanic.

Fixpoint ma_loop (k : agg_kind) (ops : list mop) (l r : list Z) (acc : list Z) : agg_res :=
  match ops with
  | [] => AOk (qrev acc)
  | TakeLeft :: ops' =>
      match l with
      | x :: l' => ma_loop k ops' l' r (x :: acc)
      | [] => APanic
      end
  | TakeRight :: ops' =>
      match r with
      | y :: r' => ma_loop k ops' l r' (y :: acc)
      | [] => APanic
      end
  | MergeRight :: ops' =>
      match acc, r with
      | a :: acc', y :: r' =>
          match combine_i64 k a y with
          | CbOk v => ma_loop k ops' l r' (v :: acc')
          | CbOverflow => AOverflow
          | CbPanic => APanic
          end
      | _, _ => APanic            (* `result.len() - 1` underflows / right[j] out of range *)
      end
  end.

(* `if left.is_empty() { return right } else if right.is_empty() { return left }` comes first *)
Definition merge_aggregate (k : agg_kind) (ops : list mop) (l r : list Z) : agg_res :=
  match l, r with
  | [], _ => AOk r
  | _, [] => AOk l
  | _, _ => ma_loop k ops l r []
  end.
