(* Model of the client-side row API of the binary ingestion message:
   locustdb-serialization/src/event_buffer.rs  ColumnBuffer::push and
   TableBuffer::push_row_and_timestamp (per column: push(value, existing_len), then len += 1).
   Values: integers are Z, floats are 64-bit patterns (N), strings are byte lists.  `i as f64` is a
   parameter [i2f] (float conversion is not modelled; the harness supplies Rust's). *)
From Coq Require Import ZArith NArith List Bool Arith.
Import ListNotations.

Inductive anyval :=
| VInt (i : Z)
| VFloat (bits : N)
| VStr (s : list N)
| VNull.

Inductive coldata :=
| CEmpty
| CDense (data : list N)
| CSparse (data : list (nat * N))
| CI64 (data : list Z)
| CSparseI64 (data : list (nat * Z))
| CString (data : list (list N))
| CMixed (data : list anyval).

Inductive push_result :=
| Pushed (d : coldata)
| PushPanic.       (* assert!/unimplemented! in ColumnBuffer::push *)

Fixpoint enumerate_from {A} (i : nat) (l : list A) : list (nat * A) :=
  match l with
  | [] => []
  | x :: r => (i, x) :: enumerate_from (S i) r
  end.

Section WithI2F.
  Variable i2f : Z -> N.

  (* pushing a float (after the int -> float coercions have been applied) *)
  Definition push_float (d : coldata) (f : N) (len : nat) : push_result :=
    match d with
    | CEmpty => if Nat.eqb len 0 then Pushed (CDense [f]) else Pushed (CSparse [(len, f)])
    | CDense data =>
        if Nat.eqb (length data) len then Pushed (CDense (data ++ [f]))
        else Pushed (CSparse (enumerate_from 0 data ++ [(len, f)]))
    | CSparse data => Pushed (CSparse (data ++ [(len, f)]))
    | CI64 data =>
        let data' := map i2f data in
        if Nat.eqb (length data') len then Pushed (CDense (data' ++ [f]))
        else Pushed (CSparse (enumerate_from 0 data' ++ [(len, f)]))
    | CSparseI64 data => Pushed (CSparse (map (fun iv => (fst iv, i2f (snd iv))) data ++ [(len, f)]))
    | CString _ | CMixed _ => PushPanic
    end.

  (* ColumnBuffer::push(value, existing_len) *)
  Definition push (d : coldata) (v : anyval) (len : nat) : push_result :=
    match v with
    | VNull => Pushed d
    | VFloat f => push_float d f len
    | VInt i =>
        match d with
        | CEmpty => if Nat.eqb len 0 then Pushed (CI64 [i]) else Pushed (CSparseI64 [(len, i)])
        | CDense _ | CSparse _ => push_float d (i2f i) len
        | CI64 data =>
            if Nat.eqb (length data) len then Pushed (CI64 (data ++ [i]))
            else Pushed (CSparseI64 (enumerate_from 0 data ++ [(len, i)]))
        | CSparseI64 data => Pushed (CSparseI64 (data ++ [(len, i)]))
        | CString _ | CMixed _ => PushPanic
        end
    | VStr s =>
        match d with
        | CEmpty => if Nat.eqb len 0 then Pushed (CString [s]) else PushPanic
        | CString data => if Nat.eqb (length data) len then Pushed (CString (data ++ [s])) else PushPanic
        | _ => PushPanic
        end
    end.

  (* a column receiving one value per row; None = the column was not mentioned in that row *)
  Fixpoint push_rows (d : coldata) (len : nat) (cells : list (option anyval)) : push_result :=
    match cells with
    | [] => Pushed d
    | c :: r =>
        match (match c with None => Pushed d | Some v => push d v len end) with
        | PushPanic => PushPanic
        | Pushed d' => push_rows d' (S len) r
        end
    end.

  (* ---------- what a column buffer denotes: one optional cell per row ---------- *)
  Inductive cell :=
  | XNone
  | XInt (i : Z)
  | XFloat (f : N)
  | XStr (s : list N).

  Fixpoint expand_from {A} (mk : A -> cell) (i : nat) (data : list (nat * A)) (n : nat) : list cell :=
    match n with
    | O => []
    | S n' =>
        match data with
        | (j, v) :: r =>
            if Nat.eqb j i then mk v :: expand_from mk (S i) r n'
            else XNone :: expand_from mk (S i) data n'
        | [] => XNone :: expand_from mk (S i) [] n'
        end
    end.

  Definition pad {A} (mk : A -> cell) (data : list A) (len : nat) : list cell :=
    map mk data ++ repeat XNone (len - length data).

  Definition denote (d : coldata) (len : nat) : list cell :=
    match d with
    | CEmpty => repeat XNone len
    | CDense data => pad XFloat data len
    | CSparse data => expand_from XFloat 0 data len
    | CI64 data => pad XInt data len
    | CSparseI64 data => expand_from XInt 0 data len
    | CString data => pad XStr data len
    | CMixed data =>
        pad (fun v => match v with VInt i => XInt i | VFloat f => XFloat f | VStr s => XStr s
                               | VNull => XNone end) data len
    end.

  (* int + float gives float: the documented degradation applied to what was already there *)
  Definition to_float (c : cell) : cell :=
    match c with XInt i => XFloat (i2f i) | _ => c end.

  Definition is_floaty (d : coldata) : bool :=
    match d with CDense _ | CSparse _ => true | _ => false end.
  Definition is_inty (d : coldata) : bool :=
    match d with CI64 _ | CSparseI64 _ => true | _ => false end.

  Definition cell_of (d' : coldata) (v : anyval) : cell :=
    match v with
    | VNull => XNone
    | VStr s => XStr s
    | VFloat f => XFloat f
    | VInt i => if is_floaty d' then XFloat (i2f i) else XInt i
    end.
End WithI2F.
