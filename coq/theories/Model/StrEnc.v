(* Model of the string column writer:
     src/mem_store/column_buffer.rs  StringColBuffer::{push, finalize}, is_lowercase_hex, is_uppercase_hex
     src/mem_store/strings.rs        fast_build_string_column, dict_codec, string_pack_codec
     src/stringpack.rs               IndexedPackedStrings::{push, into_parts}, PackedStrings::push, PackedBytes
   A string is a list of bytes.  Executable definitions only.
   The HashSet / HashMap of the Rust code are lists here (membership and index by linear search);
   this bounds the size of the columns the correspondence run can push through the model, not the
   theorems. *)
From Coq Require Import ZArith List Bool.
From LV Require Import Model.CodecBase.
Import ListNotations.
Open Scope Z_scope.

Definition str := list Z.

Fixpoint str_eqb (a b : str) : bool :=
  match a, b with
  | [], [] => true
  | x :: a', y :: b' => (x =? y) && str_eqb a' b'
  | _, _ => false
  end.

(* byte-wise lexicographic order of &str (Ord for str) *)
Fixpoint str_leb (a b : str) : bool :=
  match a, b with
  | [], _ => true
  | _ :: _, [] => false
  | x :: a', y :: b' => if x <? y then true else if y <? x then false else str_leb a' b'
  end.

Fixpoint mem (s : str) (l : list str) : bool :=
  match l with [] => false | x :: r => str_eqb s x || mem s r end.

(* ---------------------------------------------------------------------------------------------- *)
(* hex classification (column_buffer.rs) *)

Definition is_digit (c : Z) : bool := (48 <=? c) && (c <=? 57).
Definition is_lhex_char (c : Z) : bool := is_digit c || ((97 <=? c) && (c <=? 102)).
Definition is_uhex_char (c : Z) : bool := is_digit c || ((65 <=? c) && (c <=? 70)).
Definition is_lowercase_hex (s : str) : bool := Z.even (zlen s) && forallb is_lhex_char s.
Definition is_uppercase_hex (s : str) : bool := Z.even (zlen s) && forallb is_uhex_char s.

Definition total_bytes (ss : list str) : Z := fold_left (fun acc s => acc + zlen s) ss 0.

(* hex::decode *)
Definition hex_val (c : Z) : result Z :=
  if is_digit c then Val (c - 48)
  else if (97 <=? c) && (c <=? 102) then Val (c - 87)
  else if (65 <=? c) && (c <=? 70) then Val (c - 55)
  else Panic HexDecode.

Fixpoint hex_decode (s : str) : result (list Z) :=
  match s with
  | [] => Val []
  | [_] => Panic HexDecode
  | a :: b :: r => do h <- hex_val a ; do l <- hex_val b ; do bs <- hex_decode r ; Val (16 * h + l :: bs)
  end.

(* ---------------------------------------------------------------------------------------------- *)
(* stringpack.rs *)

(* PackedStrings::push / PackedBytes::from_iterator: while len > 254 { push(255); len -= 255 } push(len) *)
Fixpoint len_prefix (fuel : nat) (len : Z) : list Z :=
  match fuel with
  | O => [len]                       (* unreachable with fuel = len/255 + 1 *)
  | S f => if 254 <? len then 255 :: len_prefix f (len - 255) else [len]
  end.

Definition pack_one (s : list Z) : list Z :=
  len_prefix (S (Z.to_nat (zlen s / 255))) (zlen s) ++ s.

Definition pack_all (ss : list (list Z)) : list Z := flat_map pack_one ss.

(* IndexedPackedStrings::push: data.push((backing_store.len() << 24) + bytes.len()) *)
Fixpoint ips_entries (off : Z) (ss : list str) : list Z :=
  match ss with
  | [] => []
  | s :: r => (Z.shiftl off 24 + zlen s) :: ips_entries (off + zlen s) r
  end.

Definition ips_store (ss : list str) : list Z := concat ss.

(* ---------------------------------------------------------------------------------------------- *)
(* fast_build_string_column *)

(* the scan for the early exit: true as soon as the number of distinct values seen equals len / 2 *)
Fixpoint scan_unique (seen : list str) (nseen half : Z) (ss : list str) : bool * list str :=
  match ss with
  | [] => (false, seen)
  | s :: r =>
    let '(seen', n') := if mem s seen then (seen, nseen) else (s :: seen, nseen + 1) in
    if n' =? half then (true, seen') else scan_unique seen' n' half r
  end.

Fixpoint insert_sorted (s : str) (l : list str) : list str :=
  match l with
  | [] => [s]
  | x :: r => if str_leb s x then s :: l else x :: insert_sorted s r
  end.

Definition sort_strs (l : list str) : list str := fold_right insert_sorted [] l.

Fixpoint index_of (s : str) (l : list str) (i : Z) : result Z :=
  match l with
  | [] => Panic OutOfBounds            (* dictionary[s] on a missing key *)
  | x :: r => if str_eqb s x then Val i else index_of s r (i + 1)
  end.

Definition dict_index_type (dict_size : Z) : etype :=
  if dict_size <=? 255 then EU8 else if dict_size <=? 65535 then EU16 else EU32.

Definition present_flag (p : option (list Z)) : bool := match p with Some _ => true | None => false end.

Definition fast_build_string_column (ss : list str) (lhex uhex : bool) (tbytes : Z)
           (present : option (list Z)) : result column :=
  let len := zlen ss in
  let '(early, seen) := scan_unique [] 0 (len / 2) ss in
  if early then
    do '(codec, data) <-
      (if (lhex || uhex) && (5 <? tbytes / len) then
         do bs <- mapM hex_decode ss ; Val ([OpUnhex uhex tbytes], SInts EU8 (pack_all bs))
       else Val ([OpUnpack], SInts EU8 (pack_all ss))) ;
    match present with
    | Some p => Val (mk_column len None (codec ++ [OpPush 1; OpNullable]) [data; SBitvec p])
    | None => Val (mk_column len None codec [data])
    end
  else
    let dict := sort_strs seen in
    let dsize := zlen dict in
    let t := dict_index_type dsize in
    do idx <- mapM (fun s => index_of s dict 0) ss ;
    let sections := [SInts t idx; SInts EU64 (ips_entries 0 dict); SInts EU8 (ips_store dict)] in
    match present with
    | Some p =>
      Val (mk_column len (Some (0, dsize)) ([OpPush 3; OpNullable; OpPush 1; OpPush 2; OpDict t])
                     (sections ++ [SBitvec p]))
    | None => Val (mk_column len (Some (0, dsize)) [OpPush 1; OpPush 2; OpDict t] sections)
    end.

(* StringColBuffer::finalize: lhex / uhex / string_bytes are maintained incrementally by push; they
   are functions of the pushed values *)
Definition str_finalize (ss : list str) (present : option (list Z)) : result column :=
  fast_build_string_column ss (forallb is_lowercase_hex ss) (forallb is_uppercase_hex ss)
                           (total_bytes ss) present.
