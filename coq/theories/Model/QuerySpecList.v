(* List functions used by the executable models of the query cluster.

   These are verbatim copies (by delta-unfolding, so convertible by [reflexivity]) of the Coq
   standard-library functions.  They exist only because extracting anything from Coq.Lists.List
   produces an OCaml module named [List] that shadows OCaml's own inside the shared runner glue.
   Proofs rewrite them back to the library functions with the [q*_eq] lemmas of
   Proofs/QuerySpecList.v. *)
From Coq Require Import List.

Definition qmap {A B : Type} : (A -> B) -> list A -> list B := Eval cbv delta [map] in @map A B.
Definition qnth {A : Type} : nat -> list A -> A -> A := Eval cbv delta [nth] in @nth A.
Definition qrev_append {A : Type} : list A -> list A -> list A :=
  Eval cbv delta [rev_append] in @rev_append A.
(* linear-time reverse *)
Definition qrev {A : Type} (l : list A) : list A := qrev_append l nil.
Definition qcombine {A B : Type} : list A -> list B -> list (A * B) :=
  Eval cbv delta [combine] in @combine A B.
Definition qfirstn {A : Type} : nat -> list A -> list A := Eval cbv delta [firstn] in @firstn A.
Definition qskipn {A : Type} : nat -> list A -> list A := Eval cbv delta [skipn] in @skipn A.
Definition qfold_left {A B : Type} : (A -> B -> A) -> list B -> A -> A :=
  Eval cbv delta [fold_left] in @fold_left A B.
Definition qfold_right {A B : Type} : (B -> A -> A) -> A -> list B -> A :=
  Eval cbv delta [fold_right] in @fold_right A B.
Definition qfilter {A : Type} : (A -> bool) -> list A -> list A :=
  Eval cbv delta [filter] in @filter A.
Definition qexistsb {A : Type} : (A -> bool) -> list A -> bool :=
  Eval cbv delta [existsb] in @existsb A.
Definition qforallb {A : Type} : (A -> bool) -> list A -> bool :=
  Eval cbv delta [forallb] in @forallb A.
Definition qconcat {A : Type} : list (list A) -> list A := Eval cbv delta [concat] in @concat A.
