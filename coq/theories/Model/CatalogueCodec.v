(* Model of the catalogue codec: src/disk_store/meta_store.rs  MetaStore::{serialize, deserialize}.
   The capnp message is modelled at FIELD level (every field of dbmeta.capnp that the reader looks at,
   including the legacy ones the writer no longer produces); capnp's packed byte encoding itself is not
   modelled.  Strings are byte lists, compared bytewise like Rust's String ordering.
   Not modelled: the v2 legacy fields (lz4-compressed string table, pco-compressed interned ids): the
   reader model applies to messages in which they are empty, which is what the current writer and the
   v0/v1 writers produce. *)
From Coq Require Import NArith List Bool.
From LV Require Import Model.Routing.
Import ListNotations.
Open Scope N_scope.

(* ---------- in-memory catalogue ---------- *)
Record sub_meta := { sm_size : N; sm_key : str; sm_last : str }.
Record part_meta := {
  pm_id : N; pm_table : str; pm_offset : N; pm_len : N;
  pm_subs : list sub_meta;
  pm_index : list (str * N)      (* BTreeMap<last_column, index of the sub-partition>, ascending *)
}.
(* `partitions` is a HashMap of HashMaps: the list is its content in iteration order *)
Record meta := { ms_next_wal : N; ms_cursor : N; ms_parts : list part_meta }.

(* ---------- message fields ---------- *)
Record sub_msg := {
  w_size : N; w_key : str;
  w_last : str;                 (* v3: explicit last column *)
  w_columns : list str;         (* v0: column names *)
  w_interned : list N           (* v1: indices into the string table *)
}.
Record part_msg := { w_id : N; w_table : str; w_offset : N; w_len : N; w_subs : list sub_msg }.
Record db_msg := { w_next_wal : N; w_strings : list str; w_parts : list part_msg }.

(* ---------- writer ---------- *)
Definition ser_sub (s : sub_meta) : sub_msg :=
  {| w_size := sm_size s; w_key := sm_key s; w_last := sm_last s; w_columns := []; w_interned := [] |}.
Definition ser_part (p : part_meta) : part_msg :=
  {| w_id := pm_id p; w_table := pm_table p; w_offset := pm_offset p; w_len := pm_len p;
     w_subs := map ser_sub (pm_subs p) |}.
(* `dbmeta.set_next_wal_id(self.earliest_unflushed_wal_id)`: the flush cursor is what is persisted *)
Definition serialize (m : meta) : db_msg :=
  {| w_next_wal := ms_cursor m; w_strings := []; w_parts := map ser_part (ms_parts m) |}.

(* ---------- reader ---------- *)
(* `if column > last_column { last_column = column }` *)
Definition max_str (acc c : str) : str := if str_ltb acc c then c else acc.

(* None = `strings[id]` out of range: the reader panics *)
Fixpoint interned_last (strings : list str) (ids : list N) (acc : str) : option str :=
  match ids with
  | [] => Some acc
  | i :: r =>
      match nth_error strings (N.to_nat i) with
      | None => None
      | Some c => interned_last strings r (max_str acc c)
      end
  end.

Definition de_last (strings : list str) (s : sub_msg) : option str :=
  match interned_last strings (w_interned s) (fold_left max_str (w_columns s) []) with
  | None => None
  | Some legacy => Some (match w_last s with [] => legacy | _ => w_last s end)
  end.

(* BTreeMap::insert *)
Fixpoint idx_insert (k : str) (v : N) (l : list (str * N)) : list (str * N) :=
  match l with
  | [] => [(k, v)]
  | (k', v') :: r =>
      match lex_cmp k k' with
      | Lt => (k, v) :: l
      | Eq => (k, v) :: r
      | Gt => (k', v') :: idx_insert k v r
      end
  end.

(* the index both constructors (storage.rs, inner_locustdb.rs) and the reader build: insert
   (last_column, i) for i = 0, 1, ... *)
Fixpoint build_index_from (i : N) (subs : list sub_meta) (acc : list (str * N)) : list (str * N) :=
  match subs with
  | [] => acc
  | s :: r => build_index_from (i + 1) r (idx_insert (sm_last s) i acc)
  end.
Definition build_index (subs : list sub_meta) : list (str * N) := build_index_from 0 subs [].

Fixpoint de_subs (strings : list str) (subs : list sub_msg) : option (list sub_meta) :=
  match subs with
  | [] => Some []
  | s :: r =>
      match de_last strings s with
      | None => None
      | Some l =>
          match de_subs strings r with
          | None => None
          | Some r' => Some ({| sm_size := w_size s; sm_key := w_key s; sm_last := l |} :: r')
          end
      end
  end.

Definition de_part (strings : list str) (p : part_msg) : option part_meta :=
  match de_subs strings (w_subs p) with
  | None => None
  | Some subs =>
      Some {| pm_id := w_id p; pm_table := w_table p; pm_offset := w_offset p; pm_len := w_len p;
              pm_subs := subs; pm_index := build_index subs |}
  end.

Definition same_key (a b : part_meta) : bool :=
  str_eqb (pm_table a) (pm_table b) && (pm_id a =? pm_id b).

(* partitions.entry(tablename).or_default().insert(id, partition): a later entry with the same
   (table, id) replaces the earlier one *)
Fixpoint put (p : part_meta) (l : list part_meta) : list part_meta :=
  match l with
  | [] => [p]
  | q :: r => if same_key p q then p :: r else q :: put p r
  end.

Inductive de_result :=
| DeOk (m : meta)
| DePanic.

Fixpoint de_parts (strings : list str) (ps : list part_msg) (acc : list part_meta) : option (list part_meta) :=
  match ps with
  | [] => Some acc
  | p :: r =>
      match de_part strings p with
      | None => None
      | Some q => de_parts strings r (put q acc)
      end
  end.

Definition deserialize (g : db_msg) : de_result :=
  match de_parts (w_strings g) (w_parts g) [] with
  | None => DePanic
  | Some ps => DeOk {| ms_next_wal := w_next_wal g; ms_cursor := w_next_wal g; ms_parts := ps |}
  end.

(* what a restart may observe of a catalogue: the cursor and, per (table, id), the partition entry *)
Definition lookup (ps : list part_meta) (table : str) (id : N) : option part_meta :=
  find (fun p => str_eqb (pm_table p) table && (pm_id p =? id)) ps.
