(* Shared vocabulary of the `col` cluster (C01, column half of C07): outcomes, i64 arithmetic with
   explicit overflow, the byte-level null bitmap of src/bitvec.rs, and the shape of a finished
   column (src/mem_store/column.rs: Column / DataSection, src/mem_store/codec.rs: CodecOp).

   Conventions: every number is a [Z].  A byte is a Z in [0,256), a string is a list of bytes, a
   float is its 64-bit pattern as a Z in [0,2^64).  Lengths that the Rust code keeps in a `usize`
   field are Z as well; loop counters are nat.  Executable definitions only. *)
From Coq Require Import ZArith List Bool.
Import ListNotations.
Open Scope Z_scope.

(* ---------------------------------------------------------------------------------------------- *)
(* Outcomes.  A Rust panic is a value of the model, never a default. *)

Inductive site :=
| SubOverflow      (* "attempt to subtract with overflow" (dev profile) *)
| AddOverflow      (* "attempt to add with overflow" *)
| EncodeUnreachable (* IntegerColumn::encode: T::from(v - offset) is None => unreachable!() *)
| OutOfBounds      (* slice / index out of range *)
| BadStack         (* decode program applied to a stack of the wrong shape / type *)
| Unsupported      (* an operator applied to an encoding it does not support; todo!() *)
| HexDecode        (* hex::decode(..).unwrap() on a string that is not hex *)
| OutOfFuel.       (* never returned on the domain of the theorems; excluded in statements *)

Inductive result (A : Type) := Val (a : A) | Panic (s : site).
Arguments Val {A} a.
Arguments Panic {A} s.

Definition bind {A B} (r : result A) (f : A -> result B) : result B :=
  match r with Val a => f a | Panic s => Panic s end.
Notation "'do' x <- r ; f" := (bind r (fun x => f)) (at level 200, x name, r at level 100, f at level 200).
Notation "'do' ' ( x , y ) <- r ; f" := (bind r (fun '(x, y) => f))
  (at level 200, x name, y name, r at level 100, f at level 200).

Fixpoint mapM {A B} (f : A -> result B) (l : list A) : result (list B) :=
  match l with
  | [] => Val []
  | a :: r => do b <- f a ; do bs <- mapM f r ; Val (b :: bs)
  end.

(* ---------------------------------------------------------------------------------------------- *)
(* i64 *)

Definition i64_min : Z := -9223372036854775808.
Definition i64_max : Z := 9223372036854775807.
Definition in_i64 (z : Z) : bool := (i64_min <=? z) && (z <=? i64_max).
Definition sub64 (a b : Z) : result Z := if in_i64 (a - b) then Val (a - b) else Panic SubOverflow.
Definition add64 (a b : Z) : result Z := if in_i64 (a + b) then Val (a + b) else Panic AddOverflow.

Definition zlen {A} (l : list A) : Z := Z.of_nat (length l).

(* ---------------------------------------------------------------------------------------------- *)
(* src/bitvec.rs on Vec<u8> / [u8] *)

(* BitVec::is_set: slot < len && self[slot] & (1 << (index & 7)) > 0 *)
Definition bv_get (bm : list Z) (i : Z) : bool :=
  match nth_error bm (Z.to_nat (i / 8)) with
  | None => false
  | Some b => 0 <? Z.land b (Z.shiftl 1 (i mod 8))
  end.

(* self[slot] |= 1 << bit, after `while slot >= self.len() { self.push(0) }` *)
Fixpoint bv_set_slot (bm : list Z) (slot : nat) (bit : Z) : list Z :=
  match slot, bm with
  | O, [] => [Z.lor 0 (Z.shiftl 1 bit)]
  | O, b :: r => Z.lor b (Z.shiftl 1 bit) :: r
  | S k, [] => 0 :: bv_set_slot [] k bit
  | S k, b :: r => b :: bv_set_slot r k bit
  end.

(* BitVecMut::set *)
Definition bv_set (bm : list Z) (i : Z) : list Z := bv_set_slot bm (Z.to_nat (i / 8)) (i mod 8).

(* for i in start .. start+count { set(i) } *)
Fixpoint bv_set_run (bm : list Z) (start : Z) (count : nat) : list Z :=
  match count with
  | O => bm
  | S k => bv_set_run (bv_set bm start) (start + 1) k
  end.

(* for i in 0..count { if is_set(mask, i) { set(all, base + i) } }   (i is the running index) *)
Fixpoint bv_set_masked (bm mask : list Z) (base i : Z) (count : nat) : list Z :=
  match count with
  | O => bm
  | S k => bv_set_masked (if bv_get mask i then bv_set bm (base + i) else bm) mask base (i + 1) k
  end.

(* ---------------------------------------------------------------------------------------------- *)
(* Finished columns *)

Inductive etype := EU8 | EU16 | EU32 | EU64 | EI64.

Definition etype_eqb (a b : etype) : bool :=
  match a, b with
  | EU8, EU8 | EU16, EU16 | EU32, EU32 | EU64, EU64 | EI64, EI64 => true
  | _, _ => false
  end.

(* DataSection (before lz4/pco compression of section 0) *)
Inductive section :=
| SInts (t : etype) (l : list Z)     (* U8 / U16 / U32 / U64 / I64; U8 also carries raw bytes *)
| SF64 (l : list Z)                  (* bit patterns *)
| SNull (n : Z)
| SBitvec (l : list Z).

Inductive codec_op :=
| OpNullable
| OpAdd (t : etype) (x : Z)
| OpDelta (t : etype)
| OpToI64 (t : etype)
| OpPush (i : nat)
| OpDict (t : etype)
| OpUnpack
| OpUnhex (upper : bool) (total_bytes : Z).

Record column := mk_column {
  c_len : Z;
  c_range : option (Z * Z);
  c_ops : list codec_op;
  c_data : list section
}.

(* Column::null *)
Definition column_null (len : Z) : column := mk_column len None [] [SNull len].

(* What a cell of a table is, as seen by a client *)
Inductive cell := CInt (z : Z) | CFloat (bits : Z) | CStr (s : list Z) | CNull.
