(* Model of the integer column writer:
     src/mem_store/column_buffer.rs   IntColBuffer::{default, push, finalize}
     src/mem_store/integers.rs        IntegerColumn::{new_boxed, create_col, encode}
   Executable definitions only.  Every i64 `-` of the Rust code is [sub64] (panic on overflow, as in
   the dev profile of the repository's tests); the u64 addition and the i128 subtraction in `interval`
   cannot overflow and are computed in Z.  Model of /repo 4a8ac11 (after the fixes of F10 and F19). *)
From Coq Require Import ZArith List Bool.
From LV Require Import Model.CodecBase.
Import ListNotations.
Open Scope Z_scope.

(* ---------------------------------------------------------------------------------------------- *)
(* IntColBuffer statistics *)

(* [st_seen] is `!self.data.is_empty()`: the data vector itself is kept by the caller *)
Record istats := mk_istats {
  st_min : Z; st_max : Z; st_incr : Z; st_allow : bool; st_last : Z; st_seen : bool
}.

Definition istats_init : istats := mk_istats i64_max i64_min 0 true i64_min false.

(* IntColBuffer::push.
   History: until /repo 481c464 the difference was only tested in the `else` branch of
   `if elem > self.last` (finding F10: an increasing step above i64::MAX kept delta coding allowed and
   the delta transform overflowed).  Now:
     if elem > self.last { self.increasing += 1 }
     if !self.data.is_empty() && elem.checked_sub(self.last).is_none() { self.allow_delta_encode = false } *)
Definition istats_push (st : istats) (e : Z) : istats :=
  mk_istats (Z.min e (st_min st)) (Z.max e (st_max st))
            (if st_last st <? e then st_incr st + 1 else st_incr st)
            (if st_seen st && negb (in_i64 (e - st_last st)) then false else st_allow st)
            e true.

Definition istats_push_all (st : istats) (es : list Z) : istats := fold_left istats_push es st.

(* IntColBuffer::finalize: delta_encode = allow_delta_encode && increasing * 10 > len * 9 *)
Definition delta_decision (st : istats) (len : Z) : bool :=
  st_allow st && (len * 9 <? st_incr st * 10).

(* ---------------------------------------------------------------------------------------------- *)
(* IntegerColumn::new_boxed *)

(* the in-place delta transform of values[1..]: returns the deltas and the running min / max.
     let tmp = *curr; *curr -= previous; previous = tmp;
     if max < *curr { max = *curr }  if min > *curr { min = *curr } *)
Fixpoint delta_loop (prev mn mx : Z) (vs : list Z) : result (list Z * (Z * Z)) :=
  match vs with
  | [] => Val ([], (mn, mx))
  | c :: r =>
    do d <- sub64 c prev ;
    let mx' := if mx <? d then d else mx in
    let mn' := if d <? mn then d else mn in
    do '(ds, mm) <- delta_loop c mn' mx' r ;
    Val (d :: ds, mm)
  end.

Definition delta_transform (values : list Z) (mn mx : Z) : result (list Z * (Z * Z)) :=
  match values with
  | [] => Val ([], (mn, mx))
  | v0 :: r => do '(ds, mm) <- delta_loop v0 v0 v0 r ; Val (v0 :: ds, mm)
  end.

(* let interval = if min < 0 && max > 0 { max as u64 + (-(min as i128)) as u64 }
                  else { (max as i128 - min as i128) as u64 }
   History: until /repo 3e7ef89 the second branch was the i64 subtraction `(max - min) as u64`, which
   overflowed for min = i64::MIN, max = 0 (finding F19) and for the statistics of an empty buffer.
   The i128 difference cannot overflow; `as u64` keeps it modulo 2^64 (negative only when max < min). *)
Definition interval (mn mx : Z) : result Z :=
  if (mn <? 0) && (0 <? mx) then Val (mx + - mn)
  else let d := mx - mn in Val (if d <? 0 then d + 18446744073709551616 else d).   (* as u64 *)

Definition wmax (t : etype) : Z :=
  match t with
  | EU8 => 255 | EU16 => 65535 | EU32 => 4294967295
  | EU64 => 18446744073709551615 | EI64 => i64_max
  end.

(* the six-rung ladder: Some (type, offset) or None for the plain I64 layout *)
Definition choose (mn mx iv : Z) : option (etype * Z) :=
  if (0 <=? mn) && (mx <=? 255) then Some (EU8, 0)
  else if iv <=? 255 then Some (EU8, mn)
  else if (0 <=? mn) && (mx <=? 65535) then Some (EU16, 0)
  else if iv <=? 65535 then Some (EU16, mn)
  else if (0 <=? mn) && (mx <=? 4294967295) then Some (EU32, 0)
  else if iv <=? 4294967295 then Some (EU32, mn)
  else None.

(* IntegerColumn::encode::<T>: T::from(v - offset), unreachable!() when it does not fit *)
Fixpoint encode_vals (t : etype) (off : Z) (vs : list Z) : result (list Z) :=
  match vs with
  | [] => Val []
  | v :: r =>
    do e <- sub64 v off ;
    if (0 <=? e) && (e <=? wmax t) then do es <- encode_vals t off r ; Val (e :: es)
    else Panic EncodeUnreachable
  end.

(* the eight codec shapes of create_col *)
Definition int_codec (t : etype) (off : Z) (delta nullable : bool) : list codec_op :=
  if nullable then
    match off =? 0, delta with
    | true, true => [OpDelta t; OpPush 1; OpNullable]
    | true, false => [OpPush 1; OpNullable; OpToI64 t]
    | false, true => [OpAdd t off; OpDelta EI64; OpPush 1; OpNullable]
    | false, false => [OpPush 1; OpNullable; OpAdd t off]
    end
  else
    match off =? 0, delta with
    | true, true => [OpDelta t]
    | true, false => [OpToI64 t]
    | false, true => [OpAdd t off; OpDelta EI64]
    | false, false => [OpAdd t off]
    end.

Definition with_null (data : section) (null : option (list Z)) : list section :=
  match null with Some p => [data; SBitvec p] | None => [data] end.

Definition create_col (t : etype) (values : list Z) (off mn0 mx0 : Z) (delta : bool)
           (null : option (list Z)) : result column :=
  do es <- encode_vals t off values ;
  do lo <- sub64 mn0 off ;
  do hi <- sub64 mx0 off ;
  Val (mk_column (zlen es) (Some (lo, hi))
                 (int_codec t off delta (match null with Some _ => true | None => false end))
                 (with_null (SInts t es) null)).

Definition i64_codec (delta nullable : bool) : list codec_op :=
  match nullable, delta with
  | true, true => [OpDelta EI64; OpPush 1; OpNullable]
  | true, false => [OpPush 1; OpNullable]
  | false, true => [OpDelta EI64]
  | false, false => []
  end.

Definition new_boxed (values : list Z) (mn0 mx0 : Z) (delta : bool) (null : option (list Z))
  : result column :=
  do '(vs, mm) <- (if delta then delta_transform values mn0 mx0 else Val (values, (mn0, mx0))) ;
  let '(mn, mx) := mm in
  do iv <- interval mn mx ;
  match choose mn mx iv with
  | Some (t, off) => create_col t vs off mn0 mx0 delta null
  | None =>
    Val (mk_column (zlen vs) (Some (mn0, mx0))
                   (i64_codec delta (match null with Some _ => true | None => false end))
                   (with_null (SInts EI64 vs) null))
  end.

(* IntColBuffer::finalize *)
Definition int_finalize (data : list Z) (st : istats) (present : option (list Z)) : result column :=
  new_boxed data (st_min st) (st_max st) (delta_decision st (zlen data)) present.
