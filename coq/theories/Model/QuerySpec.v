(* Executable specification of the supported SQL fragment (properties C02..C06).

   This file does NOT transcribe engine code: it is the reference semantics the engine's results
   are checked against -- a row-at-a-time evaluator over a logical table (list of rows), plus a
   decidable checker [valid q table output] for the relation "output is a correct answer".  The
   answer is a relation because rows that tie on all ORDER BY keys, and groups of an aggregate
   without ORDER BY, may come back in any order.

   Values: integers are Z (must lie in i64), floats are their 64-bit patterns ordered by the
   OrderedFloat total order (defined here on patterns), strings are lists of bytes ordered
   lexicographically, NULL.  Float arithmetic is not modelled: SUM over floats evaluates to the
   wildcard [VAnyFloat], which matches any float (the harness compares those cells numerically
   with a tolerance, outside the proof).

   Fragment: SELECT sel.. FROM t [WHERE e] [ORDER BY k..] [LIMIT n] [OFFSET m]
     expressions: columns, constants, checked i64 + - * / %, = <> < <= > >= on equal types and on
                  integer vs float (exact mathematical comparison),
                  AND OR NOT (three-valued), IS [NOT] NULL, LIKE
     select items: expressions, COUNT/SUM/MIN/MAX(e), AVG(e) = SUM(e) / COUNT(e) as the parser
                  defines it; a select list with an aggregate groups by all plain items
     ORDER BY: NULL last (first when DESC); keys are expressions (plain queries) or output columns
                  (aggregate queries)

   Executable definitions only; proofs live in Proofs/QuerySpec*.v. *)
From Coq Require Import ZArith NArith List Bool.
From LV Require Import Model.QuerySpecList Model.CheckedArith.
Import ListNotations.
Open Scope Z_scope.

(* ---- values ------------------------------------------------------------------------------------ *)

Inductive val :=
| VNull
| VInt (z : Z)
| VFloat (bits : N)
| VStr (s : list N)
| VBool (b : bool)
| VAnyFloat.                      (* expected-side wildcard: "some float" (float sums) *)

Definition exp_mask : N := 9218868437227405312%N.        (* 0x7ff0_0000_0000_0000 *)
Definition abs_mask : N := 9223372036854775807%N.        (* 0x7fff_ffff_ffff_ffff *)
Definition sign_bit : N := 9223372036854775808%N.        (* 2^63 *)

Definition float_is_nan (b : N) : bool := (exp_mask <? N.land b abs_mask)%N.

(* strictly monotone embedding of the OrderedFloat order into Z: NaN greatest, -0 = +0 *)
Definition float_key (b : N) : Z :=
  if float_is_nan b then 9223372036854775808
  else if (b <? sign_bit)%N then Z.of_N b
  else - Z.of_N (b - sign_bit).

Fixpoint bytes_cmp (a b : list N) : comparison :=
  match a, b with
  | [], [] => Eq
  | [], _ :: _ => Lt
  | _ :: _, [] => Gt
  | x :: a', y :: b' =>
      match N.compare x y with
      | Eq => bytes_cmp a' b'
      | c => c
      end
  end.

Definition type_rank (v : val) : Z :=
  match v with
  | VBool _ => 0 | VInt _ => 1 | VStr _ => 2 | VFloat _ => 3 | VAnyFloat => 4 | VNull => 5
  end.

(* total order used for sorting and grouping: NULL is greatest; values of one column have one type *)
Definition val_cmp (a b : val) : comparison :=
  match a, b with
  | VInt x, VInt y => Z.compare x y
  | VFloat x, VFloat y => Z.compare (float_key x) (float_key y)
  | VStr x, VStr y => bytes_cmp x y
  | VBool x, VBool y => Z.compare (if x then 1 else 0) (if y then 1 else 0)
  | _, _ => Z.compare (type_rank a) (type_rank b)
  end.

Definition val_eqb (a b : val) : bool :=
  match val_cmp a b with Eq => true | _ => false end.

(* expected value vs value returned by the engine *)
Definition val_match (expected actual : val) : bool :=
  match expected, actual with
  | VAnyFloat, VFloat _ => true
  | VAnyFloat, VAnyFloat => true
  | _, _ => val_eqb expected actual
  end.

Fixpoint row_match (e a : list val) : bool :=
  match e, a with
  | [], [] => true
  | x :: e', y :: a' => val_match x y && row_match e' a'
  | _, _ => false
  end.

Fixpoint vals_eqb (a b : list val) : bool :=
  match a, b with
  | [], [] => true
  | x :: a', y :: b' => val_eqb x y && vals_eqb a' b'
  | _, _ => false
  end.

(* ---- expressions ------------------------------------------------------------------------------- *)

Inductive cmp_op := CEq | CNe | CLt | CLe | CGt | CGe.

Inductive expr :=
| ECol (i : nat)
| EConst (v : val)
| EArith (op : arith_op) (l r : expr)
| ECmp (c : cmp_op) (l r : expr)
| EAnd (l r : expr)
| EOr (l r : expr)
| ENot (e : expr)
| EIsNull (e : expr)
| EIsNotNull (e : expr)
| ELike (e : expr) (pattern : list N).

Inductive eres := EVal (v : val) | EOverflow | ETypeErr.

(* + - * / % on i64: the exact result, or Overflow when it does not exist / does not fit.  The
   engine's documented guard for `/` (lhs <= -i64::MAX && rhs = -1) is part of the specification of
   division: -i64::MAX / -1 is reported as Overflow although i64::MAX would fit. *)
Definition spec_arith (op : arith_op) (a b : Z) : eres :=
  match exact_op op a b with
  | None => EOverflow
  | Some z =>
      if in_i64 z &&
         negb (match op with OpDiv => (a <=? - i64_max) && (b =? -1) | _ => false end)
      then EVal (VInt z) else EOverflow
  end.

Definition cmp_holds (c : cmp_op) (r : comparison) : bool :=
  match c, r with
  | CEq, Eq => true | CEq, _ => false
  | CNe, Eq => false | CNe, _ => true
  | CLt, Lt => true | CLt, _ => false
  | CLe, Gt => false | CLe, _ => true
  | CGt, Gt => true | CGt, _ => false
  | CGe, Lt => false | CGe, _ => true
  end.

Definition same_type (a b : val) : bool :=
  match a, b with
  | VInt _, VInt _ | VFloat _, VFloat _ | VStr _, VStr _ => true
  | _, _ => false
  end.

(* exact comparison of an integer with a double given by its bit pattern (the engine's overloads
   (Integer, Float) / (Float, Integer) cast the integer to f64, which is exact for |z| <= 2^53; the
   specification compares the mathematical values).  A finite double is (-1)^s * m * 2^e with
   m = frac (+ 2^52 when normal), e = max(expbits, 1) - 1075.  NaN is greatest (OrderedFloat). *)
Definition cmp_int_float (z : Z) (b : N) : comparison :=
  if float_is_nan b then Lt
  else
    let neg := (sign_bit <=? b)%N in
    let absb := N.land b abs_mask in
    let expbits := N.shiftr absb 52 in
    let frac := N.land absb 4503599627370495%N in           (* 2^52 - 1 *)
    if (expbits =? 2047)%N then (if neg then Gt else Lt)       (* +-infinity *)
    else
      let m := Z.of_N (if (expbits =? 0)%N then frac else (frac + 4503599627370496)%N) in
      let e := Z.of_N (if (expbits =? 0)%N then 1%N else expbits) - 1075 in
      let sm := if neg then - m else m in
      if 0 <=? e then Z.compare z (sm * 2 ^ e) else Z.compare (z * 2 ^ (- e)) sm.

(* comparison of two non-NULL values of comparable types *)
Definition cmp_values (a b : val) : option comparison :=
  match a, b with
  | VInt x, VFloat y => Some (cmp_int_float x y)
  | VFloat x, VInt y => Some (CompOpp (cmp_int_float y x))
  | _, _ => if same_type a b then Some (val_cmp a b) else None
  end.

(* LocustDB's LIKE pattern language on bytes: '%' any sequence, '_' any one byte, "%%" a literal
   percent, "\_" a literal underscore.  37 = '%', 95 = '_', 92 = '\'.
   [like_match fuel pattern s]: fuel = length pattern + length s + 1 suffices. *)
Fixpoint like_match (fuel : nat) (p s : list N) : bool :=
  match fuel with
  | O => false
  | S fuel' =>
      match p with
      | [] => match s with [] => true | _ => false end
      | 37%N :: 37%N :: p' =>
          match s with 37%N :: s' => like_match fuel' p' s' | _ => false end
      | 37%N :: p' =>
          like_match fuel' p' s ||
          match s with [] => false | _ :: s' => like_match fuel' p s' end
      | 92%N :: 95%N :: p' =>
          match s with 95%N :: s' => like_match fuel' p' s' | _ => false end
      | 95%N :: p' =>
          match s with [] => false | _ :: s' => like_match fuel' p' s' end
      | c :: p' =>
          match s with [] => false | d :: s' => (c =? d)%N && like_match fuel' p' s' end
      end
  end.

(* three-valued connectives over VNull / VBool *)
Definition and3 (a b : val) : eres :=
  match a, b with
  | VBool false, (VBool _ | VNull) | VNull, VBool false => EVal (VBool false)
  | VBool true, VBool x => EVal (VBool x)
  | VBool true, VNull | VNull, VBool true | VNull, VNull => EVal VNull
  | _, _ => ETypeErr
  end.

Definition or3 (a b : val) : eres :=
  match a, b with
  | VBool true, (VBool _ | VNull) | VNull, VBool true => EVal (VBool true)
  | VBool false, VBool x => EVal (VBool x)
  | VBool false, VNull | VNull, VBool false | VNull, VNull => EVal VNull
  | _, _ => ETypeErr
  end.

Fixpoint eval_expr (row : list val) (e : expr) : eres :=
  match e with
  | ECol i => EVal (qnth i row VNull)
  | EConst v => EVal v
  | EArith op l r =>
      match eval_expr row l with
      | EVal a =>
          match eval_expr row r with
          | EVal b =>
              match a, b with
              | VInt x, VInt y => spec_arith op x y
              | VNull, (VInt _ | VNull) | VInt _, VNull => EVal VNull
              | _, _ => ETypeErr
              end
          | err => err
          end
      | err => err
      end
  | ECmp c l r =>
      match eval_expr row l with
      | EVal a =>
          match eval_expr row r with
          | EVal b =>
              match a, b with
              | VNull, _ | _, VNull => EVal VNull          (* comparison with NULL is not true *)
              | _, _ => match cmp_values a b with
                        | Some r => EVal (VBool (cmp_holds c r))
                        | None => ETypeErr
                        end
              end
          | err => err
          end
      | err => err
      end
  | EAnd l r =>
      match eval_expr row l with
      | EVal a => match eval_expr row r with EVal b => and3 a b | err => err end
      | err => err
      end
  | EOr l r =>
      match eval_expr row l with
      | EVal a => match eval_expr row r with EVal b => or3 a b | err => err end
      | err => err
      end
  | ENot e1 =>
      match eval_expr row e1 with
      | EVal (VBool b) => EVal (VBool (negb b))
      | EVal VNull => EVal VNull
      | EVal _ => ETypeErr
      | err => err
      end
  | EIsNull e1 =>
      match eval_expr row e1 with
      | EVal VNull => EVal (VBool true)
      | EVal _ => EVal (VBool false)
      | err => err
      end
  | EIsNotNull e1 =>
      match eval_expr row e1 with
      | EVal VNull => EVal (VBool false)
      | EVal _ => EVal (VBool true)
      | err => err
      end
  | ELike e1 p =>
      match eval_expr row e1 with
      | EVal (VStr s) => EVal (VBool (like_match (S (length p + length s)) p s))
      | EVal VNull => EVal VNull
      | EVal _ => ETypeErr
      | err => err
      end
  end.

(* ---- queries ----------------------------------------------------------------------------------- *)

Inductive agg := ACount | ASum | AMin | AMax.

Inductive sel :=
| SPlain (e : expr)
| SAgg (a : agg) (e : expr)
| SAvg (e : expr).

Inductive okey := OExpr (e : expr) | OOut (i : nat).

Record query := {
  q_select : list sel;
  q_where : option expr;
  q_order : list (okey * bool);        (* (key, descending) *)
  q_limit : option N;
  q_offset : N
}.

Definition prow := list val.

Inductive qres := QRows (classes : list (list prow)) | QOverflow | QTypeErr.

(* evaluation result threaded through folds *)
Inductive res (A : Type) := Ok (a : A) | Overflow | TypeErr.
Arguments Ok {A} a. Arguments Overflow {A}. Arguments TypeErr {A}.

Definition rbind {A B} (r : res A) (f : A -> res B) : res B :=
  match r with Ok a => f a | Overflow => Overflow | TypeErr => TypeErr end.

Definition of_eres (r : eres) : res val :=
  match r with EVal v => Ok v | EOverflow => Overflow | ETypeErr => TypeErr end.

Fixpoint rmap {A B} (f : A -> res B) (l : list A) : res (list B) :=
  match l with
  | [] => Ok []
  | x :: r => rbind (f x) (fun y => rbind (rmap f r) (fun ys => Ok (y :: ys)))
  end.

(* WHERE: rows for which the predicate is TRUE, in table order.  An overflow anywhere in the
   predicate fails the query. *)
Fixpoint filter_rows (w : option expr) (t : list (list val)) : res (list (list val)) :=
  match t with
  | [] => Ok []
  | row :: rest =>
      match w with
      | None => rbind (filter_rows w rest) (fun rs => Ok (row :: rs))
      | Some e =>
          match eval_expr row e with
          | EVal (VBool true) => rbind (filter_rows w rest) (fun rs => Ok (row :: rs))
          | EVal (VBool false) | EVal VNull => filter_rows w rest
          | EVal _ | ETypeErr => TypeErr
          | EOverflow => Overflow
          end
      end
  end.

Definition is_agg (s : sel) : bool := match s with SPlain _ => false | _ => true end.

(* ---- ordering ---------------------------------------------------------------------------------- *)

(* compare two key tuples under per-key directions *)
Fixpoint keys_cmp (dirs : list bool) (a b : list val) : comparison :=
  match dirs, a, b with
  | d :: dirs', x :: a', y :: b' =>
      match val_cmp x y with
      | Eq => keys_cmp dirs' a' b'
      | c => if d then CompOpp c else c
      end
  | _, _, _ => Eq
  end.

Definition keys_leb (dirs : list bool) (a b : list val) : bool :=
  match keys_cmp dirs a b with Gt => false | _ => true end.

(* stable insertion sort of (keys, row) pairs: [x] is inserted in FRONT of the first element that
   is not smaller, and the list is folded from the right, so equal keys keep their input order *)
Fixpoint insert_sorted (dirs : list bool) (x : list val * prow) (l : list (list val * prow)) :=
  match l with
  | [] => [x]
  | y :: r => if keys_leb dirs (fst x) (fst y) then x :: y :: r else y :: insert_sorted dirs x r
  end.

Fixpoint sort_rows (dirs : list bool) (l : list (list val * prow)) :=
  match l with
  | [] => []
  | x :: r => insert_sorted dirs x (sort_rows dirs r)
  end.

(* group adjacent pairs with equal keys into tie classes *)
Fixpoint tie_classes (dirs : list bool) (l : list (list val * prow)) {struct l} : list (list prow) :=
  match l with
  | [] => []
  | kp :: r =>
      match r with
      | [] => [[snd kp]]
      | kp' :: _ =>
          match tie_classes dirs r with
          | c :: cs =>
              match keys_cmp dirs (fst kp) (fst kp') with
              | Eq => (snd kp :: c) :: cs
              | _ => [snd kp] :: c :: cs
              end
          | [] => [[snd kp]]
          end
      end
  end.

(* ---- aggregation ------------------------------------------------------------------------------- *)

(* groups in order of first appearance: (group key, rows of the group in table order) *)
Fixpoint group_insert (k : list val) (row : list val) (gs : list (list val * list (list val))) :=
  match gs with
  | [] => [(k, [row])]
  | (k', rows) :: rest =>
      if vals_eqb k k' then (k', rows ++ [row]) :: rest else (k', rows) :: group_insert k row rest
  end.

Definition sum_pos (xs : list Z) : Z := qfold_left (fun a x => if 0 <? x then a + x else a) xs 0.
Definition sum_neg (xs : list Z) : Z := qfold_left (fun a x => if x <? 0 then a + x else a) xs 0.
Definition sum_all (xs : list Z) : Z := qfold_left Z.add xs 0.

Fixpoint ints_of (vs : list val) : option (list Z) :=
  match vs with
  | [] => Some []
  | VInt z :: r => match ints_of r with Some zs => Some (z :: zs) | None => None end
  | _ => None
  end.

Definition non_null (vs : list val) : list val :=
  qfilter (fun v => match v with VNull => false | _ => true end) vs.

Fixpoint best (want : comparison) (cur : val) (vs : list val) : val :=
  match vs with
  | [] => cur
  | v :: r => best want (if match val_cmp v cur with Eq => false | c => match c, want with Lt, Lt | Gt, Gt => true | _, _ => false end end then v else cur) r
  end.

Definition is_float (v : val) : bool := match v with VFloat _ => true | _ => false end.
Definition is_int (v : val) : bool := match v with VInt _ => true | _ => false end.

(* aggregate over the argument values of one group (NULL inputs ignored) *)
Definition eval_agg (a : agg) (args : list val) : res val :=
  let vs := non_null args in
  match a with
  | ACount => Ok (VInt (Z.of_nat (length vs)))
  | ASum =>
      match vs with
      | [] => Ok VNull
      | _ =>
          match ints_of vs with
          | Some zs => let s := sum_all zs in if in_i64 s then Ok (VInt s) else Overflow
          | None => if qforallb is_float vs then Ok VAnyFloat else TypeErr
          end
      end
  | AMin | AMax =>
      match vs with
      | [] => Ok VNull
      | v :: r =>
          if qforallb is_int vs || qforallb is_float vs
          then Ok (best (match a with AMin => Lt | _ => Gt end) v r)
          else TypeErr
      end
  end.

(* AVG(e) is what the parser makes of it: SUM(e) / COUNT(e) under the engine's integer `/`;
   a NULL sum (no non-NULL input) gives NULL *)
Definition eval_avg (args : list val) : res val :=
  rbind (eval_agg ASum args) (fun s =>
  rbind (eval_agg ACount args) (fun c =>
    match s, c with
    | VInt x, VInt y => of_eres (spec_arith OpDiv x y)
    | VNull, VInt _ => Ok VNull
    | _, _ => TypeErr
    end)).

Definition eval_sel_group (rows : list (list val)) (s : sel) : res val :=
  match s with
  | SPlain e =>
      match rows with
      | row :: _ => of_eres (eval_expr row e)
      | [] => TypeErr
      end
  | SAgg a e => rbind (rmap (fun row => of_eres (eval_expr row e)) rows) (eval_agg a)
  | SAvg e => rbind (rmap (fun row => of_eres (eval_expr row e)) rows) eval_avg
  end.

Definition plain_exprs (ss : list sel) : list expr :=
  qconcat (qmap (fun s => match s with SPlain e => [e] | _ => [] end) ss).

(* ---- the answer as ordered tie classes -------------------------------------------------------- *)

Definition order_key (prow_ : prow) (row : option (list val)) (k : okey) : res val :=
  match k with
  | OOut i => Ok (qnth i prow_ VNull)
  | OExpr e => match row with Some r => of_eres (eval_expr r e) | None => TypeErr end
  end.

Definition dirs_of (q : query) : list bool := qmap snd (q_order q).

Definition classes_of (q : query) (keyed : list (list val * prow)) : list (list prow) :=
  match q_order q with
  | [] => []   (* unused *)
  | _ => tie_classes (dirs_of q) (sort_rows (dirs_of q) keyed)
  end.

Definition eval_classes (q : query) (t : list (list val)) : res (list (list prow)) :=
  rbind (filter_rows (q_where q) t) (fun rows =>
  if qexistsb is_agg (q_select q) then
    (* aggregate query: group by the plain select items *)
    let kes := plain_exprs (q_select q) in
    rbind (rmap (fun row => rbind (rmap (fun e => of_eres (eval_expr row e)) kes) (fun k => Ok (k, row))) rows)
      (fun keyed_rows =>
    let groups := qfold_left (fun gs kr => group_insert (fst kr) (snd kr) gs) keyed_rows [] in
    rbind (rmap (fun g => rmap (eval_sel_group (snd g)) (q_select q)) groups) (fun out =>
    match q_order q with
    | [] => Ok (match out with [] => [] | _ => [out] end)       (* no order promised: one class *)
    | ord =>
        rbind (rmap (fun p => rbind (rmap (fun kd => order_key p None (fst kd)) ord) (fun k => Ok (k, p))) out)
          (fun keyed => Ok (classes_of q keyed))
    end))
  else
    let proj row := rmap (fun s => match s with SPlain e => of_eres (eval_expr row e) | _ => TypeErr end) (q_select q) in
    match q_order q with
    | [] => rbind (rmap proj rows) (fun ps => Ok (qmap (fun p => [p]) ps))   (* ingestion order *)
    | ord =>
        rbind (rmap (fun row => rbind (proj row) (fun p =>
                     rbind (rmap (fun kd => order_key p (Some row) (fst kd)) ord) (fun k => Ok (k, p)))) rows)
          (fun keyed => Ok (classes_of q keyed))
    end).

(* ---- LIMIT / OFFSET window and the checker ----------------------------------------------------- *)

Definition window {A} (off : N) (lim : option N) (l : list A) : list A :=
  let rest := qskipn (N.to_nat (N.min off (N.of_nat (length l)))) l in
  match lim with
  | None => rest
  | Some n => qfirstn (N.to_nat (N.min n (N.of_nat (length rest)))) rest
  end.

(* remove the first element of [c] that matches [a] (expected side is [c]) *)
Fixpoint remove_match (a : prow) (c : list prow) : option (list prow) :=
  match c with
  | [] => None
  | e :: r =>
      if row_match e a then Some r
      else match remove_match a r with Some r' => Some (e :: r') | None => None end
  end.

(* every row of [seg] matches a distinct row of [c] *)
Fixpoint sub_multiset (seg c : list prow) : bool :=
  match seg with
  | [] => true
  | a :: seg' => match remove_match a c with Some c' => sub_multiset seg' c' | None => false end
  end.

(* [chk classes skip take out]: [out] is rows skip+1 .. skip+take of SOME order that lists the
   classes in sequence, each class in any internal order.  take = None: no limit. *)
Fixpoint chk (classes : list (list prow)) (skip : nat) (take : option nat) (out : list prow) : bool :=
  match classes with
  | [] => match out with [] => true | _ => false end
  | c :: rest =>
      let len := length c in
      if Nat.leb len skip then chk rest (skip - len) take out
      else
        let avail := (len - skip)%nat in
        let k := match take with None => avail | Some n => Nat.min avail n end in
        let seg := qfirstn k out in
        let out' := qskipn k out in
        Nat.eqb (length seg) k && sub_multiset seg c &&
        chk rest 0 (match take with None => None | Some n => Some (n - k)%nat end) out'
  end.

Definition total_rows (classes : list (list prow)) : nat :=
  qfold_left (fun n c => (n + length c)%nat) classes O.

Inductive output := ORows (rows : list prow) | OOverflow | OOther.

(* can the query legitimately fail with Overflow?  Some row makes some expression of the query
   overflow (rows removed by WHERE included: nothing is promised about evaluation order), or the
   positive / negative part of a SUM argument leaves i64 within a group (partial sums of partitions
   are checked). *)
Definition expr_overflows (row : list val) (e : expr) : bool :=
  match eval_expr row e with EOverflow => true | _ => false end.

Definition sel_exprs (s : sel) : list expr :=
  match s with SPlain e => [e] | SAgg _ e => [e] | SAvg e => [e] end.

Definition query_exprs (q : query) : list expr :=
  (match q_where q with Some e => [e] | None => [] end) ++
  qconcat (qmap sel_exprs (q_select q)) ++
  qconcat (qmap (fun kd => match fst kd with OExpr e => [e] | OOut _ => [] end) (q_order q)).

Definition sum_may_overflow (args : list val) : bool :=
  match ints_of (non_null args) with
  | Some zs => negb (in_i64 (sum_pos zs)) || negb (in_i64 (sum_neg zs))
  | None => false
  end.

Definition group_sum_may_overflow (q : query) (rows : list (list val)) : bool :=
  qexistsb (fun s =>
    match s with
    | SAgg ASum e | SAvg e =>
        match rmap (fun row => of_eres (eval_expr row e)) rows with
        | Ok args => sum_may_overflow args
        | _ => false
        end
    | _ => false
    end) (q_select q).

Definition may_fail (q : query) (t : list (list val)) : bool :=
  qexistsb (fun row => qexistsb (expr_overflows row) (query_exprs q)) t ||
  match filter_rows (q_where q) t with
  | Ok rows =>
      let kes := plain_exprs (q_select q) in
      match rmap (fun row => rbind (rmap (fun e => of_eres (eval_expr row e)) kes) (fun k => Ok (k, row))) rows with
      | Ok keyed_rows =>
          let groups := qfold_left (fun gs kr => group_insert (fst kr) (snd kr) gs) keyed_rows [] in
          qexistsb (fun g => group_sum_may_overflow q (snd g)) groups
      | _ => false
      end
  | _ => false
  end.

Definition off_nat (q : query) (n : nat) : nat := N.to_nat (N.min (q_offset q) (N.of_nat n)).
Definition lim_nat (q : query) (n : nat) : option nat :=
  match q_limit q with None => None | Some l => Some (N.to_nat (N.min l (N.of_nat n))) end.

(* the decidable specification: is [out] a correct result of [q] on table [t]? *)
Definition valid (q : query) (t : list (list val)) (out : output) : bool :=
  match out with
  | OOverflow => may_fail q t
  | OOther => false
  | ORows rows =>
      match eval_classes q t with
      | Ok classes =>
          let n := total_rows classes in
          chk classes (off_nat q n) (lim_nat q n) rows
      | _ => false
      end
  end.

(* the canonical evaluator: classes in order, each in its stable order, then the window *)
Definition eval_query (q : query) (t : list (list val)) : output :=
  match eval_classes q t with
  | Ok classes => ORows (window (q_offset q) (q_limit q) (qconcat classes))
  | Overflow => OOverflow
  | TypeErr => OOther
  end.
