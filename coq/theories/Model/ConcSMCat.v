(* C10 — the column-handle / catalogue protocol on the query path and in the flush thread (DESIGN F14, F14a).

   Transcribed from
     src/mem_store/partition.rs          Partition::{from_buffer (ephemeral = true), new (compaction: ephemeral =
                                         false), nonresident (restart: no handles), get_cols, clone_column_handles}
     src/disk_store/meta_store.rs        MetaStore::subpartition_has_been_loaded / subpartition_key:
                                         self.partitions[table][&partition]   (index: panics on a missing key)
     src/scheduler/inner_locustdb.rs     flush_table_buffer (batch; clone handles; c.try_get().unwrap()),
                                         wal_flush (persist_partitions after batching), compact (get_cols of every
                                         table column on every old partition; Table::compact; prepare_compact)

   Partition objects are never destroyed (a query holds an Arc); `tparts` is the table's partition map, `cat` the
   catalogue (id -> stored columns).  Every batch carries the column set C, compaction's column-name set is C.
   get_cols is modelled as ONE step (handle look-up, catalogue look-up, load): the window between the look-up and
   the disk load is not modelled (the harness parks queries there, label get_or_load:load).
   Panics are program counters (CF_panic, CQ_panic).  Definitions only. *)
From Coq Require Import List Bool Arith.
Import ListNotations.

(* resident column / placeholder for "this partition has no such column" / evicted (handle kept, column dropped) *)
Inductive hk := HRes | HEmpty | HEvicted.

Record pobj := mkP { p_id : nat; p_eph : bool; p_h : list (nat * hk) }.

Inductive cfpc :=
| CF_idle
| CF_batched (p : nat)                   (* Table::batch registered partition p *)
| CF_cloned (p : nat)                    (* its handles cloned and unwrapped *)
| CF_persisted                           (* persist_partitions inserted it into the catalogue *)
| CF_built (olds : list nat)             (* compact: every column of every old partition read *)
| CF_swapped (olds : list nat) (n : nat) (* Table::compact done; prepare_compact pending *)
| CF_panic.

Inductive cqpc :=
| CQ_idle
| CQ_run (todo : list nat) (col : nat)   (* snapshot taken; partitions still to be read for column col *)
| CQ_panic.

Inductive cact :=
| CBatch | CClone | CPersist | CSkip | CBuild (i : nat) | CSwap | CPrepare
| CSnapshot (col : nat) | CGetCols
| CEvict.                                (* evict_cache / the memory-limit thread: every resident column of every
                                            partition reachable through the table map is dropped *)

Record cstate := mkC {
  objs : list pobj; tparts : list nat; cat : list (nat * list nat); cnext : nat;
  cfl : cfpc; cqs : list cqpc }.

Fixpoint assoc {A} (k : nat) (l : list (nat * A)) : option A :=
  match l with
  | [] => None
  | (j, v) :: r => if Nat.eqb k j then Some v else assoc k r
  end.

Fixpoint memn (x : nat) (l : list nat) : bool :=
  match l with [] => false | y :: r => Nat.eqb x y || memn x r end.

Fixpoint find_obj (p : nat) (l : list pobj) : option pobj :=
  match l with
  | [] => None
  | o :: r => if Nat.eqb p (p_id o) then Some o else find_obj p r
  end.

Definition add_handle (p col : nat) (h : hk) (l : list pobj) : list pobj :=
  map (fun o => if Nat.eqb p (p_id o) then mkP (p_id o) (p_eph o) ((col, h) :: p_h o) else o) l.

Inductive gc_result := GCok (objs' : list pobj) | GCpanic | GCstuck.

(* Partition::get_cols for one column *)
Definition get_cols (os : list pobj) (ct : list (nat * list nat)) (p col : nat) : gc_result :=
  match find_obj p os with
  | None => GCstuck                                   (* impossible: the caller holds an Arc *)
  | Some o =>
      match assoc col (p_h o) with
      | Some HEvicted =>
          (* get_or_load of a non-resident handle: Storage::load_column -> MetaStore::subpartition_key indexes the
             catalogue, for ephemeral partitions too *)
          match assoc p ct with
          | None => GCpanic
          | Some stored => GCok (add_handle p col (if memn col stored then HRes else HEmpty) os)
          end
      | Some _ => GCok os                             (* handle present (resident or placeholder) *)
      | None =>
          if p_eph o then GCok (add_handle p col HEmpty os)           (* self.ephemeral || .. => ColumnHandle::empty *)
          else match assoc p ct with
               | None => GCpanic                      (* partitions[table][&id]: no entry found for key *)
               | Some stored => GCok (add_handle p col (if memn col stored then HRes else HEmpty) os)
               end
      end
  end.

Fixpoint get_cols_all (os : list pobj) (ct : list (nat * list nat)) (work : list (nat * nat)) : gc_result :=
  match work with
  | [] => GCok os
  | (p, c) :: r =>
      match get_cols os ct p c with
      | GCok os' => get_cols_all os' ct r
      | x => x
      end
  end.

Definition all_res (o : pobj) : bool := forallb (fun h => match snd h with HRes => true | _ => false end) (p_h o).

(* Partition::evict for every column of every partition in the table map *)
Definition evict_all (tp : list nat) (os : list pobj) : list pobj :=
  map (fun o => if memn (p_id o) tp
                then mkP (p_id o) (p_eph o) (map (fun ch => (fst ch, match snd ch with HRes => HEvicted | x => x end)) (p_h o))
                else o) os.

Fixpoint updq (n : nat) (x : cqpc) (l : list cqpc) : list cqpc :=
  match l, n with
  | [], _ => []
  | _ :: r, O => x :: r
  | y :: r, S m => y :: updq m x r
  end.

Section WithColumns.
  Variable C : list nat.

  Definition full_handles : list (nat * hk) := map (fun c => (c, HRes)) C.

  Definition fstep (a : cact) (st : cstate) : option cstate :=
    match cfl st, a with
    | CF_idle, CBatch =>
        let p := cnext st in
        Some (mkC (objs st ++ [mkP p true full_handles]) (tparts st ++ [p]) (cat st) (S p) (CF_batched p) (cqs st))
    | CF_batched p, CClone =>
        match find_obj p (objs st) with
        | None => None
        | Some o =>
            (* clone_column_handles().map(|c| c.try_get().as_ref().unwrap()): a placeholder has no column *)
            Some (mkC (objs st) (tparts st) (cat st) (cnext st) (if all_res o then CF_cloned p else CF_panic) (cqs st))
        end
    | CF_cloned p, CPersist =>
        Some (mkC (objs st) (tparts st) (cat st ++ [(p, C)]) (cnext st) CF_persisted (cqs st))
    | CF_persisted, CSkip => Some (mkC (objs st) (tparts st) (cat st) (cnext st) CF_idle (cqs st))
    | CF_persisted, CBuild i =>
        let olds := skipn i (tparts st) in
        match olds with
        | [] => None
        | _ =>
            match get_cols_all (objs st) (cat st) (list_prod olds C) with
            | GCok os' => Some (mkC os' (tparts st) (cat st) (cnext st) (CF_built olds) (cqs st))
            | GCpanic => Some (mkC (objs st) (tparts st) (cat st) (cnext st) CF_panic (cqs st))
            | GCstuck => None
            end
        end
    | CF_built olds, CSwap =>
        let n := cnext st in
        Some (mkC (objs st ++ [mkP n false full_handles])
                  (filter (fun i => negb (memn i olds)) (tparts st) ++ [n])
                  (cat st) (S n) (CF_swapped olds n) (cqs st))
    | CF_swapped olds n, CPrepare =>
        Some (mkC (objs st) (tparts st)
                  (filter (fun e => negb (memn (fst e) olds)) (cat st) ++ [(n, C)])
                  (cnext st) CF_idle (cqs st))
    | _, _ => None
    end.

  Definition qstep (n : nat) (a : cact) (st : cstate) : option cstate :=
    match nth_error (cqs st) n with
    | None => None
    | Some q =>
        match q, a with
        | CQ_idle, CSnapshot col =>
            Some (mkC (objs st) (tparts st) (cat st) (cnext st) (cfl st) (updq n (CQ_run (tparts st) col) (cqs st)))
        | CQ_run [] _, CGetCols =>
            Some (mkC (objs st) (tparts st) (cat st) (cnext st) (cfl st) (updq n CQ_idle (cqs st)))
        | CQ_run (p :: r) col, CGetCols =>
            match get_cols (objs st) (cat st) p col with
            | GCok os' => Some (mkC os' (tparts st) (cat st) (cnext st) (cfl st) (updq n (CQ_run r col) (cqs st)))
            | GCpanic => Some (mkC (objs st) (tparts st) (cat st) (cnext st) (cfl st) (updq n CQ_panic (cqs st)))
            | GCstuck => None
            end
        | _, _ => None
        end
    end.

  (* thread None = the flush thread, Some n = querier n *)
  Definition cstep (t : option nat) (a : cact) (st : cstate) : option cstate :=
    match a with
    | CEvict => Some (mkC (evict_all (tparts st) (objs st)) (tparts st) (cat st) (cnext st) (cfl st) (cqs st))
    | _ => match t with None => fstep a st | Some n => qstep n a st end
    end.

  Fixpoint crun (sched : list (option nat * cact)) (st : cstate) : option cstate :=
    match sched with
    | [] => Some st
    | (t, a) :: r => match cstep t a st with None => None | Some st' => crun r st' end
    end.

  (* nd partitions on disk (restored at start-up: non-ephemeral, no handles, in the catalogue), nq queriers *)
  Definition cinit (nd nq : nat) : cstate :=
    mkC (map (fun i => mkP i false []) (seq 0 nd)) (seq 0 nd) (map (fun i => (i, C)) (seq 0 nd)) nd
        CF_idle (repeat CQ_idle nq).

  (* the columns the queries of a schedule reference *)
  Fixpoint sched_cols (sched : list (option nat * cact)) : list nat :=
    match sched with
    | [] => []
    | (_, CSnapshot c) :: r => c :: sched_cols r
    | _ :: r => sched_cols r
    end.
  Fixpoint sched_evicts (sched : list (option nat * cact)) : bool :=
    match sched with
    | [] => false
    | (_, CEvict) :: _ => true
    | _ :: r => sched_evicts r
    end.
End WithColumns.

Definition query_panicked (st : cstate) : bool :=
  existsb (fun q => match q with CQ_panic => true | _ => false end) (cqs st).

Definition flush_panicked (st : cstate) : bool :=
  match cfl st with CF_panic => true | _ => false end.
