(* C10 — the column-handle / catalogue protocol on the query path and in the flush thread, AFTER the repairs
   3a6284a (catalogue look-ups by `get`) and 7a0a728 (flush skips placeholder handles); DESIGN F14, F14a, F14b.

   Transcribed from
     src/mem_store/partition.rs          Partition::{from_buffer (ephemeral = true), new (compaction: ephemeral =
                                         false), nonresident (restart: no handles), get_cols, evict,
                                         clone_column_handles}
     src/disk_store/meta_store.rs        MetaStore::subpartition_has_been_loaded (missing entry => true),
                                         subpartition_key (missing entry => None)
     src/scheduler/disk_read_scheduler.rs get_or_load: load_column = None => handle.set_empty()
     src/scheduler/inner_locustdb.rs     flush_table_buffer (batch; clone handles, skip placeholders, unwrap the
                                         rest), wal_flush (persist_partitions after batching), compact (get_cols of
                                         every table column on every old partition; Table::compact; prepare_compact)

   Partition objects are never destroyed (a query holds an Arc); `tparts` is the table's partition map, `cat` the
   catalogue (id -> columns stored in the partition's files).  Every batch carries the column set C, compaction's
   column-name set is C; so for a column in C an EMPTY handle is a wrong answer (an existing column reported as
   absent: the query returns NULLs, the compaction writes NULLs, the flush persists the partition without it).
   get_cols is modelled as ONE step (handle look-up, catalogue look-up, load): the window between the look-up and
   the disk load is not modelled (the harness parks queries there, label get_or_load:load).
   Panics and wrong answers are program counters (CF_panic, CF_lost, CQ_panic, CQ_wrong).  Definitions only. *)
From Coq Require Import List Bool Arith.
Import ListNotations.

(* resident column / placeholder for "this partition has no such column" / evicted (handle kept, column dropped) *)
Inductive hk := HRes | HEmpty | HEvicted.

Record pobj := mkP { p_id : nat; p_eph : bool; p_h : list (nat * hk) }.

Inductive cfpc :=
| CF_idle
| CF_batched (p : nat)                   (* Table::batch registered partition p *)
| CF_cloned (p : nat) (cols : list nat)  (* its non-placeholder handles cloned and unwrapped: the columns to persist *)
| CF_persisted                           (* persist_partitions inserted it into the catalogue *)
| CF_built (olds : list nat)             (* compact: every column of every old partition read *)
| CF_swapped (olds : list nat) (n : nat) (* Table::compact done; prepare_compact pending *)
| CF_panic                               (* c.try_get().as_ref().unwrap() on a dropped column *)
| CF_lost.                               (* the compaction read an existing column as absent: it writes NULLs *)

Inductive cqpc :=
| CQ_idle
| CQ_run (todo : list nat) (col : nat)   (* snapshot taken; partitions still to be read for column col *)
| CQ_panic
| CQ_wrong.                              (* the query was answered with an existing column reported as absent *)

Inductive cact :=
| CBatch | CClone | CPersist | CSkip | CBuild (i : nat) | CSwap | CPrepare
| CSnapshot (col : nat) | CGetCols
| CEvict (p col : nat).                  (* Table::evict of one column (evict_cache / the memory-limit thread) *)

Record cstate := mkC {
  objs : list pobj; tparts : list nat; cat : list (nat * list nat); cnext : nat;
  cfl : cfpc; cqs : list cqpc }.

Fixpoint assoc {A} (k : nat) (l : list (nat * A)) : option A :=
  match l with
  | [] => None
  | (j, v) :: r => if Nat.eqb k j then Some v else assoc k r
  end.

Fixpoint memn (x : nat) (l : list nat) : bool :=
  match l with [] => false | y :: r => Nat.eqb x y || memn x r end.

Fixpoint find_obj (p : nat) (l : list pobj) : option pobj :=
  match l with
  | [] => None
  | o :: r => if Nat.eqb p (p_id o) then Some o else find_obj p r
  end.

(* the handle of column col becomes h (new handles are inserted in front: assoc sees the newest) *)
Definition add_handle (p col : nat) (h : hk) (l : list pobj) : list pobj :=
  map (fun o => if Nat.eqb p (p_id o) then mkP (p_id o) (p_eph o) ((col, h) :: p_h o) else o) l.

Inductive gc_result := GCok (objs' : list pobj) | GCpanic | GCstuck.

(* Partition::get_cols for one column, on the repaired code: no outcome is a panic any more *)
Definition get_cols (os : list pobj) (ct : list (nat * list nat)) (p col : nat) : gc_result :=
  match find_obj p os with
  | None => GCstuck                                   (* impossible: the caller holds an Arc *)
  | Some o =>
      match assoc col (p_h o) with
      | Some HEvicted =>
          (* get_or_load of a non-resident handle: Storage::load_column -> MetaStore::subpartition_key; a missing
             catalogue entry now yields None: load_column returns None and the handle is set_empty() *)
          match assoc p ct with
          | None => GCok (add_handle p col HEmpty os)
          | Some stored => GCok (add_handle p col (if memn col stored then HRes else HEmpty) os)
          end
      | Some _ => GCok os                             (* handle present (resident or placeholder) *)
      | None =>
          if p_eph o then GCok (add_handle p col HEmpty os)           (* self.ephemeral || .. => ColumnHandle::empty *)
          else match assoc p ct with
               | None => GCok (add_handle p col HEmpty os)            (* partition_has_been_loaded: None => true *)
               | Some stored => GCok (add_handle p col (if memn col stored then HRes else HEmpty) os)
               end
      end
  end.

(* how column col of partition p is seen after get_cols *)
Definition sees_empty (os : list pobj) (p col : nat) : bool :=
  match find_obj p os with
  | Some o => match assoc col (p_h o) with Some HEmpty => true | _ => false end
  | None => false
  end.

Inductive gca_result := GAok (objs' : list pobj) | GAlost (objs' : list pobj) | GAstuck.

Fixpoint updq (n : nat) (x : cqpc) (l : list cqpc) : list cqpc :=
  match l, n with
  | [], _ => []
  | _ :: r, O => x :: r
  | y :: r, S m => y :: updq m x r
  end.

(* clone_column_handles().filter(|c| !c.is_empty()).map(|c| c.try_get().as_ref().unwrap().clone()):
   the columns that will be persisted; None = unwrap of a dropped (evicted) column.  `seen` = columns already
   decided by a newer handle *)
Fixpoint clone_cols (seen : list nat) (h : list (nat * hk)) : option (list nat) :=
  match h with
  | [] => Some []
  | (c, k) :: r =>
      if memn c seen then clone_cols seen r
      else match k, clone_cols (c :: seen) r with
           | HRes, Some l => Some (c :: l)
           | HEmpty, Some l => Some l
           | HEvicted, _ => None
           | _, None => None
           end
  end.

(* Partition::evict: the column is dropped, the handle stays *)
Definition evict_one (tp : list nat) (p col : nat) (os : list pobj) : list pobj :=
  if memn p tp then
    match find_obj p os with
    | Some o => match assoc col (p_h o) with
                | Some HRes => add_handle p col HEvicted os
                | _ => os
                end
    | None => os
    end
  else os.

Section WithColumns.
  Variable C : list nat.

  Definition full_handles : list (nat * hk) := map (fun c => (c, HRes)) C.

  (* compact: get_cols of every table column on every old partition; an existing column read as absent is lost *)
  Fixpoint get_cols_all (os : list pobj) (ct : list (nat * list nat)) (work : list (nat * nat)) : gca_result :=
    match work with
    | [] => GAok os
    | (p, c) :: r =>
        match get_cols os ct p c with
        | GCok os' => if memn c C && sees_empty os' p c then GAlost os' else get_cols_all os' ct r
        | _ => GAstuck
        end
    end.

  Definition fstep (a : cact) (st : cstate) : option cstate :=
    match cfl st, a with
    | CF_idle, CBatch =>
        let p := cnext st in
        Some (mkC (objs st ++ [mkP p true full_handles]) (tparts st ++ [p]) (cat st) (S p) (CF_batched p) (cqs st))
    | CF_batched p, CClone =>
        match find_obj p (objs st) with
        | None => None
        | Some o =>
            Some (mkC (objs st) (tparts st) (cat st) (cnext st)
                      (match clone_cols [] (p_h o) with Some cols => CF_cloned p cols | None => CF_panic end) (cqs st))
        end
    | CF_cloned p cols, CPersist =>
        Some (mkC (objs st) (tparts st) (cat st ++ [(p, cols)]) (cnext st) CF_persisted (cqs st))
    | CF_persisted, CSkip => Some (mkC (objs st) (tparts st) (cat st) (cnext st) CF_idle (cqs st))
    | CF_persisted, CBuild i =>
        let olds := skipn i (tparts st) in
        match olds with
        | [] => None
        | _ =>
            match get_cols_all (objs st) (cat st) (list_prod olds C) with
            | GAok os' => Some (mkC os' (tparts st) (cat st) (cnext st) (CF_built olds) (cqs st))
            | GAlost os' => Some (mkC os' (tparts st) (cat st) (cnext st) CF_lost (cqs st))
            | GAstuck => None
            end
        end
    | CF_built olds, CSwap =>
        let n := cnext st in
        Some (mkC (objs st ++ [mkP n false full_handles])
                  (filter (fun i => negb (memn i olds)) (tparts st) ++ [n])
                  (cat st) (S n) (CF_swapped olds n) (cqs st))
    | CF_swapped olds n, CPrepare =>
        Some (mkC (objs st) (tparts st)
                  (filter (fun e => negb (memn (fst e) olds)) (cat st) ++ [(n, C)])
                  (cnext st) CF_idle (cqs st))
    | _, _ => None
    end.

  Definition qstep (n : nat) (a : cact) (st : cstate) : option cstate :=
    match nth_error (cqs st) n with
    | None => None
    | Some q =>
        match q, a with
        | CQ_idle, CSnapshot col =>
            Some (mkC (objs st) (tparts st) (cat st) (cnext st) (cfl st) (updq n (CQ_run (tparts st) col) (cqs st)))
        | CQ_run [] _, CGetCols =>
            Some (mkC (objs st) (tparts st) (cat st) (cnext st) (cfl st) (updq n CQ_idle (cqs st)))
        | CQ_run (p :: r) col, CGetCols =>
            match get_cols (objs st) (cat st) p col with
            | GCok os' =>
                Some (mkC os' (tparts st) (cat st) (cnext st) (cfl st)
                          (updq n (if memn col C && sees_empty os' p col then CQ_wrong else CQ_run r col) (cqs st)))
            | GCpanic => Some (mkC (objs st) (tparts st) (cat st) (cnext st) (cfl st) (updq n CQ_panic (cqs st)))
            | GCstuck => None
            end
        | _, _ => None
        end
    end.

  (* thread None = the flush thread, Some n = querier n; evictions come from any thread *)
  Definition cstep (t : option nat) (a : cact) (st : cstate) : option cstate :=
    match a with
    | CEvict p col =>
        Some (mkC (evict_one (tparts st) p col (objs st)) (tparts st) (cat st) (cnext st) (cfl st) (cqs st))
    | _ => match t with None => fstep a st | Some n => qstep n a st end
    end.

  Fixpoint crun (sched : list (option nat * cact)) (st : cstate) : option cstate :=
    match sched with
    | [] => Some st
    | (t, a) :: r => match cstep t a st with None => None | Some st' => crun r st' end
    end.

  (* nd partitions on disk (restored at start-up: non-ephemeral, no handles, in the catalogue), nq queriers *)
  Definition cinit (nd nq : nat) : cstate :=
    mkC (map (fun i => mkP i false []) (seq 0 nd)) (seq 0 nd) (map (fun i => (i, C)) (seq 0 nd)) nd
        CF_idle (repeat CQ_idle nq).

  (* every catalogue entry stores every column of C *)
  Definition cat_complete (st : cstate) : bool :=
    forallb (fun e => forallb (fun c => memn c (snd e)) C) (cat st).

  Definition data_lost (st : cstate) : bool :=
    match cfl st with CF_lost => true | _ => false end || negb (cat_complete st).
End WithColumns.

Fixpoint sched_evicts (sched : list (option nat * cact)) : bool :=
  match sched with
  | [] => false
  | (_, CEvict _ _) :: _ => true
  | _ :: r => sched_evicts r
  end.

Definition query_panicked (st : cstate) : bool :=
  existsb (fun q => match q with CQ_panic => true | _ => false end) (cqs st).

Definition query_wrong (st : cstate) : bool :=
  existsb (fun q => match q with CQ_wrong => true | _ => false end) (cqs st).

Definition flush_panicked (st : cstate) : bool :=
  match cfl st with CF_panic => true | _ => false end.
