(* Model of the SECOND decoder and of the column rebuild of compaction (C07, column level):
     src/mem_store/column.rs           the free function `decode` (DataSource::decode)
     src/scheduler/inner_locustdb.rs   InnerLocustDB::compact: decode every part's column and re-push
                                       it into one ColumnBuffer (push_* with the decoded null map)
   Executable definitions only.  Columns are taken with section 0 uncompressed (the LZ4 / Pco arms
   of the free decoder are not modelled).

   The free decoder keeps its own stack discipline: every operator except PushDataSection reads
   `arg0 = stack.first()` (the BOTTOM of the stack), computes a new buffer, then pops the top and
   pushes the result; Nullable and DictLookup pop their arguments themselves before that extra pop.
   The results of Add / Delta / ToI64 / DictLookup are plain vectors: a null map attached to their
   argument is not carried over. *)
From Coq Require Import ZArith List Bool.
From LV Require Import Model.CodecBase Model.StrEnc Model.Codec Model.ColumnBuffer.
Import ListNotations.
Open Scope Z_scope.

(* the stack is a list with the TOP at the head; arg0 is its last element *)
Definition bottom (st : list sval) : result sval :=
  match rev st with [] => Panic OutOfBounds | v :: _ => Val v end.

Definition data_of (v : sval) : dvec := match v with Plain d => d | WithNulls d _ => d end.

(* cast_ref_<t>(): the data part of a plain or nullable buffer of exactly that type *)
Definition cast_ints (t : etype) (v : sval) : result (list Z) :=
  match data_of v with
  | DInts t' l => if etype_eqb t t' then Val l else Panic BadStack
  | DBits l => match t with EU8 => Val l | _ => Panic BadStack end
  | _ => Panic BadStack
  end.

Definition pop_top (st : list sval) : list sval := match st with [] => [] | _ :: r => r end.

(* `v as i64 + value` / `current += delta`: i64 additions, panic on overflow in the dev profile *)
Fixpoint prefix_sums (cur : Z) (ds : list Z) : result (list Z) :=
  match ds with
  | [] => Val []
  | d :: r => do c <- add64 cur d ; do cs <- prefix_sums c r ; Val (c :: cs)
  end.

Definition free_step (sections : list section) (op : codec_op) (st : list sval) : result (list sval) :=
  match op with
  | OpPush i =>
      match nth_error sections i with
      | Some s => Val (of_section s :: st)
      | None => Panic OutOfBounds
      end
  | OpNullable =>
      match st with
      | p :: d :: rest =>
          do pb <- cast_ints EU8 p ;
          match d with
          | Plain dd => Val (WithNulls dd pb :: pop_top rest)
          | WithNulls _ _ => Panic BadStack          (* make_nullable on a NullableVec: type error *)
          end
      | _ => Panic OutOfBounds                       (* unwrap() on an empty stack *)
      end
  | OpAdd t x =>
      do a <- bottom st ; do l <- cast_ints t a ;
      match t with
      | EU8 | EU16 | EU32 => do l' <- add_all x l ; Val (Plain (DInts EI64 l') :: pop_top st)
      | _ => Panic Unsupported
      end
  | OpDelta t =>
      do a <- bottom st ; do l <- cast_ints t a ;
      match t with
      | EU8 | EU16 | EU32 | EI64 => do l' <- prefix_sums 0 l ; Val (Plain (DInts EI64 l') :: pop_top st)
      | _ => Panic Unsupported
      end
  | OpToI64 t =>
      do a <- bottom st ; do l <- cast_ints t a ;
      match t with
      | EU8 | EU16 | EU32 => Val (Plain (DInts EI64 l) :: pop_top st)
      | _ => Panic Unsupported
      end
  | OpDict t =>
      match st with
      | dd :: dr :: di :: rest =>
          do store <- cast_ints EU8 dd ;
          do ranges <- cast_ints EU64 dr ;
          match t with
          | EU8 | EU16 | EU32 | EI64 =>
              do idx <- cast_ints t di ;
              do ss <- dict_lookup idx ranges store ;
              Val (Plain (DStr ss) :: pop_top rest)
          | _ => Panic Unsupported
          end
      | _ => Panic OutOfBounds
      end
  | OpUnpack =>
      match sections with
      | s0 :: _ => do b <- cast_ints EU8 (of_section s0) ;
                   do ss <- unpack_strings b ; Val (Plain (DStr ss) :: pop_top st)
      | [] => Panic OutOfBounds
      end
  | OpUnhex _ _ => Panic Unsupported                 (* todo!() *)
  end.

Fixpoint free_run (sections : list section) (ops : list codec_op) (st : list sval) : result (list sval) :=
  match ops with
  | [] => Val st
  | op :: r => do st' <- free_step sections op st ; free_run sections r st'
  end.

(* column::decode: returns section_stack.pop().unwrap() *)
Definition decode_free (c : column) : result sval :=
  match c_data c with
  | [] => Panic OutOfBounds
  | s0 :: _ =>
    do st <- free_run (c_data c) (c_ops c) [of_section s0] ;
    match st with v :: _ => Val v | [] => Panic OutOfBounds end
  end.

(* the `match decoded.get_type()` of InnerLocustDB::compact *)
Definition repush_op (v : sval) : result push_op :=
  match v with
  | Plain (DF64 l) => Val (PFloats l None)
  | Plain (DInts EI64 l) => Val (PInts l None)
  | Plain (DStr l) => Val (PStrs l None)
  | Plain (DNullV n) => Val (PNulls n)
  | WithNulls (DF64 l) p => Val (PFloats l (Some p))
  | WithNulls (DStr l) p => Val (PStrs l (Some p))
  | WithNulls (DInts EI64 l) p => Val (PInts l (Some p))
  | _ => Panic Unsupported                           (* "Unsupported encoding type for add" *)
  end.

Section WithFloatDisplay.
Variable f2s : Z -> str.

(* the column rebuild of compaction over the parts' columns (a part that lacks the column
   contributes Column::null(len)) *)
Definition compact_ops (parts : list column) : result (list push_op) :=
  mapM (fun c => do v <- decode_free c ; repush_op v) parts.

Definition compact_column (parts : list column) : result column :=
  do ops <- compact_ops parts ;
  finalize f2s (run_pushes f2s (colbuf_null 0) ops).

End WithFloatDisplay.
