(* Model of the scheduler bookkeeping of LocustDB (src/scheduler/inner_locustdb.rs, task.rs,
   shared_sender.rs, src/locustdb.rs) as three small state machines:

   1. damage: what a request's outcome does to the database by WHERE a panic happens, and what
      a valid request (a canary) must observe in a damaged database;
   2. the task queue: schedule / await_task / worker_loop (sequentialised);
   3. the force_flush hand-shake: trigger_wal_flush / enforce_wal_limit / wal_flush.

   Everything here is executable; the canary differential of C11 runs machine 1 against the real
   database (harness/src/bin/lv_front/canary.rs). *)
From Coq Require Import NArith List Bool Arith.
Import ListNotations.

(* ------------------------------------------------------------------------------------------- *)
(* 1. damage                                                                                    *)
(* ------------------------------------------------------------------------------------------- *)

Inductive req := RQuery | RIngest | RFlush | RStats.

(* locks held at a caller-side panic site *)
Inductive held :=
| HNone           (* none: parser panics, panics on an already poisoned lock *)
| HIngest         (* the wal_size mutex (ingest_efficient holds it for the whole call) *)
| HTable          (* a table's frozen_buffer / partitions / buffer locks (Table::snapshot, Table::batch) *)
| HIngestTable.   (* both: a panic below Table::ingest_homogeneous *)

(* what the caller of one API call observes, plus what the panic recorder saw *)
Inductive obs :=
| OOk
| OErr                           (* an error VALUE of any kind *)
| OCallerPanic (h : held)        (* the call panicked in the caller's thread *)
| OCanceled (lost : nat)         (* the one-shot sender was dropped: `lost` pool threads panicked *)
| OHang (lost : nat) (h : held)  (* no answer within the deadline; `lost` pool threads panicked, a
                                    flush job panicked holding `h` *)
| OFlushLost.                    (* force_flush: the flush thread died while this caller waited (RecvError) *)

Record db := {
  alive : nat;                   (* live worker threads; a panicking worker is not replaced *)
  ingest_poisoned : bool;        (* wal_size mutex poisoned *)
  table_poisoned : bool;         (* some table's locks poisoned *)
  flush_dead : bool }.           (* the flush thread is dead or blocked forever in rx.iter().take(n) *)

Definition healthy (d : db) : bool :=
  negb (Nat.eqb (alive d) 0) && negb (ingest_poisoned d) && negb (table_poisoned d) && negb (flush_dead d).

Definition poison (d : db) (h : held) : db :=
  match h with
  | HNone => d
  | HIngest => {| alive := alive d; ingest_poisoned := true; table_poisoned := table_poisoned d; flush_dead := flush_dead d |}
  | HTable => {| alive := alive d; ingest_poisoned := ingest_poisoned d; table_poisoned := true; flush_dead := flush_dead d |}
  | HIngestTable => {| alive := alive d; ingest_poisoned := true; table_poisoned := true; flush_dead := flush_dead d |}
  end.

Definition lose (d : db) (n : nat) : db :=
  {| alive := alive d - n; ingest_poisoned := ingest_poisoned d; table_poisoned := table_poisoned d;
     flush_dead := flush_dead d |}.

Definition kill_flush (d : db) : db :=
  {| alive := alive d; ingest_poisoned := ingest_poisoned d; table_poisoned := table_poisoned d; flush_dead := true |}.

(* effect of one observed call on the database *)
Definition apply_obs (d : db) (r : req) (o : obs) : db :=
  match o with
  | OOk | OErr => d
  | OCallerPanic h => poison d h
  | OCanceled n => lose d n
  | OHang n h =>
      let d' := poison (lose d n) h in
      match r with RFlush => kill_flush d' | _ => d' end
  | OFlushLost =>
      (* the flush thread panicked inside wal_flush while holding the wal_size lock *)
      kill_flush (poison d HIngest)
  end.

(* what a VALID request on an undamaged table (a canary) observes in state d:
   - a query needs a live worker;
   - ingest_efficient starts with wal_size.lock().unwrap();
   - force_flush needs the flush thread: it dies on a poisoned wal_size lock before it takes the
     caller's sender (hang); with only a table lock poisoned it dies in freeze_buffer holding the
     wal_size lock, dropping the senders it took (RecvError in the caller);
   - table_stats runs in a pool thread and locks every table. *)
Definition predict (d : db) (r : req) : obs :=
  match r with
  | RQuery => if Nat.eqb (alive d) 0 then OHang 0 HNone else OOk
  | RIngest => if ingest_poisoned d then OCallerPanic HNone else OOk
  | RFlush =>
      if flush_dead d || ingest_poisoned d then OHang 0 HNone
      else if table_poisoned d then OFlushLost
      else OOk
  | RStats =>
      if Nat.eqb (alive d) 0 then OHang 0 HNone
      else if table_poisoned d then OCanceled 1
      else OOk
  end.

Definition is_hang (o : obs) : bool := match o with OHang _ _ => true | _ => false end.

(* the canaries after every round, pool-independent ones first; after a hanging canary query the
   remaining canaries (table_stats needs a live worker as well) are skipped *)
Definition canaries : list req := [RIngest; RFlush; RQuery; RStats].

Fixpoint run_canaries (d : db) (l : list req) : db * list obs :=
  match l with
  | [] => (d, [])
  | r :: t =>
      let o := predict d r in
      let d' := apply_obs d r o in
      if is_hang o && match r with RQuery => true | _ => false end then (d', [o])
      else let '(d2, os) := run_canaries d' t in (d2, o :: os)
  end.

Definition apply_round (d : db) (round : list (req * obs)) : db :=
  fold_left (fun d ro => apply_obs d (fst ro) (snd ro)) round d.

(* rounds of observed requests, the four canaries after each; the run stops after the first round
   whose canaries hang (every further call would hang as well) *)
Fixpoint run (d : db) (rounds : list (list (req * obs))) : db * list (list obs) :=
  match rounds with
  | [] => (d, [])
  | rd :: rest =>
      let d1 := apply_round d rd in
      let '(d2, os) := run_canaries d1 canaries in
      if existsb is_hang os then (d2, [os])
      else let '(d3, oss) := run d2 rest in (d3, os :: oss)
  end.

(* is the observed outcome of a request possible in state d (necessary conditions only) *)
Definition consistent (d : db) (r : req) (o : obs) : bool :=
  match r, o with
  | RQuery, (OOk | OCanceled _) => negb (Nat.eqb (alive d) 0)
  | RIngest, (OOk | OErr) => negb (ingest_poisoned d)
  | RFlush, (OOk | OErr) => negb (flush_dead d || ingest_poisoned d || table_poisoned d)
  | RStats, OOk => negb (Nat.eqb (alive d) 0) && negb (table_poisoned d)
  | RStats, OCanceled _ => negb (Nat.eqb (alive d) 0)
  | _, _ => true
  end.

(* the run the canary differential compares with: None marks a round whose observed request
   outcomes are impossible in the state the model is in *)
Fixpoint run_checked (d : db) (rounds : list (list (req * obs))) : list (option (list obs)) :=
  match rounds with
  | [] => []
  | rd :: rest =>
      if forallb (fun ro => consistent d (fst ro) (snd ro)) rd then
        let d1 := apply_round d rd in
        let '(d2, os) := run_canaries d1 canaries in
        Some os :: (if existsb is_hang os then [] else run_checked d2 rest)
      else [None]
  end.

(* ------------------------------------------------------------------------------------------- *)
(* 2. the task queue (InnerLocustDB::schedule / await_task / worker_loop)                       *)
(* ------------------------------------------------------------------------------------------- *)

(* queue entries: (task id, remaining parallelism budget); `pdone`: tasks whose completed() is true *)
Record pstate := { pq : list (nat * nat); pdone : list nat }.

Definition mem (t : nat) (l : list nat) : bool := existsb (Nat.eqb t) l.

(* schedule: task_queue.push_back((task, max_parallelism)) *)
Definition schedule (s : pstate) (t par : nat) : pstate :=
  {| pq := pq s ++ [(t, par)]; pdone := pdone s |}.

(* await_task: pop entries, skipping completed tasks; re-push the entry with budget - 1 when the
   budget was above 1 *)
Fixpoint pop (done : list nat) (q : list (nat * nat)) : option (nat * list (nat * nat)) :=
  match q with
  | [] => None
  | (t, p) :: r =>
      if mem t done then pop done r
      else Some (t, if Nat.ltb 1 p then (t, p - 1) :: r else r)
  end.

(* one iteration of worker_loop by a live worker whose task does not panic: the task it obtained
   runs to completion (QueryTask::run loops over next_partition()) and answers its caller *)
Definition worker_iter (s : pstate) : pstate :=
  match pop (pdone s) (pq s) with
  | None => {| pq := []; pdone := pdone s |}
  | Some (t, q') => {| pq := q'; pdone := t :: pdone s |}
  end.

(* the same iteration when the task panics: the entry is consumed, nobody is answered (the worker
   is lost: see `lose`) *)
Definition worker_iter_panic (s : pstate) : pstate :=
  match pop (pdone s) (pq s) with
  | None => {| pq := []; pdone := pdone s |}
  | Some (t, q') => {| pq := q'; pdone := pdone s |}
  end.

Definition measure (q : list (nat * nat)) : nat :=
  fold_right (fun e acc => S (snd e) + acc) 0 q.

(* ------------------------------------------------------------------------------------------- *)
(* 3. the force_flush hand-shake                                                                *)
(* ------------------------------------------------------------------------------------------- *)

Record fstate := {
  pending : list nat;            (* callers whose sender sits in pending_wal_flushes *)
  released : list (nat * nat);   (* (caller, number of the flush after which it was answered) *)
  flushes : nat;                 (* completed wal_flush calls *)
  stuck : bool }.                (* a flush job panicked: rx.iter().take(n) never ends *)

(* trigger_wal_flush: push a sender, notify, then block on the receiver *)
Definition trigger (s : fstate) (caller : nat) : fstate :=
  {| pending := pending s ++ [caller]; released := released s; flushes := flushes s; stuck := stuck s |}.

(* one iteration of enforce_wal_limit: take the pending senders; if there are any (or the WAL is
   over its limit: `forced`), run wal_flush and then answer exactly the senders taken before it *)
Definition flush_iter (forced job_panics : bool) (s : fstate) : fstate :=
  if stuck s then s
  else
    match pending s, forced with
    | [], false => s
    | taken, _ =>
        if job_panics then {| pending := []; released := released s; flushes := flushes s; stuck := true |}
        else {| pending := [];
                released := released s ++ map (fun c => (c, S (flushes s))) taken;
                flushes := S (flushes s);
                stuck := false |}
    end.

(* loop exit (running = false): the remaining senders are answered without a flush *)
Definition shutdown (s : fstate) : fstate :=
  if stuck s then s
  else {| pending := []; released := released s ++ map (fun c => (c, flushes s)) (pending s);
          flushes := flushes s; stuck := false |}.
