(* Models of the sorted-merge kernels the engine uses to combine ORDER BY results of adjacent
   partitions (property C05, reused by C02):

     src/engine/operators/merge.rs              merge<T, C>(left, right, limit) -> (merged, ops)
     src/engine/operators/merge_keep.rs         merge_keep(ops, left, right)
                                                merge_keep_nullable(ops, left, right, lp, rp)
     src/engine/operators/partition.rs          partition<T, C>(left, right, limit)
     src/engine/operators/subpartition.rs       subpartition<T, C>(partitioning, left, right)
     src/engine/operators/merge_partitioned.rs  merge_partitioned<T, C>(partitioning, left, right, limit)
     src/engine/operators/top_n.rs              heap_replace<T, C>(keys, values, key, value, node)
     src/engine/execution/batch_merging.rs      combine (select branch): append_all with limit
     src/engine/execution/query_task.rs         convert_to_output_format: the final slice

   The kernels are generic in the element type T and the comparator C (CmpLessThan /
   CmpGreaterThan); the model takes [cmp_eq : A -> A -> bool] (Comparator::cmp_eq: "if values are
   equal return true") and [cmp] (strict) as parameters.  Rust's index loops are structural
   recursions here; `limit` is a usize and may be u64::MAX, so it is an N that is clipped to the
   input length before it drives a recursion.

   Executable definitions only; proofs live in Proofs/SortKernels.v. *)
From Coq Require Import NArith Arith List Bool.
From LV Require Import Model.QuerySpecList.
Import ListNotations.

Section Merge.
  Context {A : Type}.
  Variable cmp_eq : A -> A -> bool.

  (* merge.rs: while i < |l| && j < |r| && i + j < limit { if cmp_eq(l[i], r[j]) take left (op 1)
     else take right (op 0) }, then the left tail up to limit - j, then the right tail up to
     limit - i.  [n] is the number of elements still allowed (limit - (i + j)). *)
  Fixpoint merge_n (n : nat) (l r : list A) : list A * list bool :=
    match n with
    | O => ([], [])
    | S n' =>
        match l, r with
        | [], [] => ([], [])
        | x :: l', [] => let '(m, o) := merge_n n' l' [] in (x :: m, true :: o)
        | [], y :: r' => let '(m, o) := merge_n n' [] r' in (y :: m, false :: o)
        | x :: l', y :: r' =>
            if cmp_eq x y
            then let '(m, o) := merge_n n' l' r in (x :: m, true :: o)
            else let '(m, o) := merge_n n' l r' in (y :: m, false :: o)
        end
    end.

  Definition clip (limit : N) (len : nat) : nat := N.to_nat (N.min limit (N.of_nat len)).

  Definition merge (l r : list A) (limit : N) : list A * list bool :=
    merge_n (clip limit (length l + length r)) l r.

  (* the same loop without a limit: the stable merge that prefers the left input on ties *)
  Definition smerge (l r : list A) : list A := fst (merge_n (length l + length r) l r).
End Merge.

(* merge_keep.rs: replay the ops on another pair of columns.  Indexing past the end of an input is a
   Rust panic: None. *)
Fixpoint merge_keep {B : Type} (ops : list bool) (l r : list B) : option (list B) :=
  match ops with
  | [] => Some []
  | true :: ops' =>
      match l with
      | [] => None
      | x :: l' => match merge_keep ops' l' r with Some m => Some (x :: m) | None => None end
      end
  | false :: ops' =>
      match r with
      | [] => None
      | y :: r' => match merge_keep ops' l r' with Some m => Some (y :: m) | None => None end
      end
  end.

(* merge_keep_nullable: data and presence bits travel together; a presence bitmap shorter than the
   data reads as "absent" (BitVec::is_set beyond the end) *)
Fixpoint merge_keep_nullable {B : Type} (ops : list bool) (l r : list B) (lp rp : list bool)
  : option (list B * list bool) :=
  match ops with
  | [] => Some ([], [])
  | true :: ops' =>
      match l with
      | [] => None
      | x :: l' =>
          let p := match lp with [] => false | b :: _ => b end in
          match merge_keep_nullable ops' l' r (match lp with [] => [] | _ :: t => t end) rp with
          | Some (m, mp) => Some (x :: m, p :: mp)
          | None => None
          end
      end
  | false :: ops' =>
      match r with
      | [] => None
      | y :: r' =>
          let p := match rp with [] => false | b :: _ => b end in
          match merge_keep_nullable ops' l r' lp (match rp with [] => [] | _ :: t => t end) with
          | Some (m, mp) => Some (y :: m, p :: mp)
          | None => None
          end
      end
  end.

(* batch_merging::combine, select branch: col1.append_all(col2, count) with
   count = if |col1| >= limit then 0 else min(|col2|, limit - |col1|) *)
Definition append_limit {B : Type} (limit : N) (l r : list B) : list B :=
  let n1 := N.of_nat (length l) in
  if (limit <=? n1)%N then l
  else l ++ qfirstn (N.to_nat (N.min (N.of_nat (length r)) (limit - n1))) r.

(* query_task.rs convert_to_output_format (since fix 0df51a0):
     offset = min(lo.offset, len); count = min(limit, len - offset); rows offset .. offset + count.
   No subtraction can underflow any more: the slice is total. *)
Definition final_slice {B : Type} (limit offset : N) (rows : list B) : list B :=
  let len := N.of_nat (length rows) in
  let off := N.min offset len in
  let count := N.min limit (len - off) in
  qfirstn (N.to_nat count) (qskipn (N.to_nat off) rows).

(* NormalFormQuery::run / QueryTask::combined_limit: limit.saturating_add(offset) in u64 *)
Definition u64_max : N := 18446744073709551615.
Definition combined_limit (limit offset : N) : N := N.min (limit + offset) u64_max.

(* ---- partition / subpartition / merge_partitioned (multi-key sorts) ------------------------------ *)

Section Partitioned.
  Context {A : Type}.
  Variable cmp_eq : A -> A -> bool.
  Variable eqb : A -> A -> bool.          (* `==` on T *)

  (* length of the run of elements equal to [e] at the head of [l], and the rest *)
  Fixpoint take_run (e : A) (l : list A) : nat * list A :=
    match l with
    | x :: l' => if eqb e x then let '(n, rest) := take_run e l' in (S n, rest) else (O, l)
    | [] => (O, [])
    end.

  (* partition.rs: runs of identical elements on both sides; stops when min_elems (the sum of
     max(left, right) over the groups) reaches the limit.  Fuel: every iteration consumes at least
     one element. *)
  Fixpoint partition_loop (fuel : nat) (l r : list A) (min_elems limit : N) : list (nat * nat) :=
    match fuel with
    | O => []
    | S fuel' =>
        if (limit <=? min_elems)%N then []
        else
          match l, r with
          | [], [] => []
          | x :: _, y :: _ =>
              let e := if cmp_eq x y then x else y in
              let '(nl, l') := take_run e l in
              let '(nr, r') := take_run e r in
              (nl, nr) :: partition_loop fuel' l' r' (min_elems + N.of_nat (Nat.max nl nr)) limit
          | x :: _, [] =>
              let '(nl, l') := take_run x l in
              (nl, O) :: partition_loop fuel' l' [] (min_elems + N.of_nat nl) limit
          | [], y :: _ =>
              let '(nr, r') := take_run y r in
              (O, nr) :: partition_loop fuel' [] r' (min_elems + N.of_nat nr) limit
          end
    end.

  (* limit is clamped to u32::MAX *)
  Definition partition (l r : list A) (limit : N) : list (nat * nat) :=
    partition_loop (length l + length r) l r 0 (N.min limit 4294967295).

  (* merge_partitioned.rs: inside each premerge group merge left and right by cmp_eq; stop when
     i + j == limit.  Groups are consumed from the fronts of the inputs. *)
  Fixpoint merge_group (n : nat) (gl gr : list A) : list A * list bool :=
    match n with
    | O => ([], [])
    | S n' =>
        match gl, gr with
        | [], [] => ([], [])
        | x :: gl', [] => let '(m, o) := merge_group n' gl' [] in (x :: m, true :: o)
        | [], y :: gr' => let '(m, o) := merge_group n' [] gr' in (y :: m, false :: o)
        | x :: gl', y :: gr' =>
            if cmp_eq x y
            then let '(m, o) := merge_group n' gl' gr in (x :: m, true :: o)
            else let '(m, o) := merge_group n' gl gr' in (y :: m, false :: o)
        end
    end.

  (* [remaining]: pushes still allowed before `i + j == limit` breaks out *)
  Fixpoint merge_partitioned_loop (groups : list (nat * nat)) (l r : list A) (remaining : nat)
    : list A * list bool :=
    match groups with
    | [] => ([], [])
    | (nl, nr) :: gs =>
        match remaining with
        | O => ([], [])
        | _ =>
            let gl := qfirstn nl l in
            let gr := qfirstn nr r in
            let take := Nat.min (nl + nr) remaining in
            let '(m, o) := merge_group take gl gr in
            let '(m', o') := merge_partitioned_loop gs (qskipn nl l) (qskipn nr r) (remaining - take) in
            (m ++ m', o ++ o')
        end
    end.

  (* the test `i + j == limit` follows a push, so limit = 0 never fires and everything is merged *)
  Definition merge_partitioned (groups : list (nat * nat)) (l r : list A) (limit : N)
    : list A * list bool :=
    let total := (length l + length r)%nat in
    merge_partitioned_loop groups l r (if (limit =? 0)%N then total else clip limit total).

  (* subpartition.rs: refine each premerge group by the next key column *)
  Fixpoint subpartition_group (fuel : nat) (gl gr : list A) : list (nat * nat) :=
    match fuel with
    | O => []
    | S fuel' =>
        match gl, gr with
        | [], [] => []
        | x :: _, [] => let '(nl, gl') := take_run x gl in (nl, O) :: subpartition_group fuel' gl' []
        | [], y :: _ => let '(nr, gr') := take_run y gr in (O, nr) :: subpartition_group fuel' [] gr'
        | x :: _, y :: _ =>
            let e := if cmp_eq x y then x else y in
            let '(nl, gl') := take_run e gl in
            let '(nr, gr') := take_run e gr in
            (nl, nr) :: subpartition_group fuel' gl' gr'
        end
    end.

  Fixpoint subpartition (groups : list (nat * nat)) (l r : list A) : list (nat * nat) :=
    match groups with
    | [] => []
    | (nl, nr) :: gs =>
        subpartition_group (nl + nr) (qfirstn nl l) (qfirstn nr r)
        ++ subpartition gs (qskipn nl l) (qskipn nr r)
    end.
End Partitioned.

(* ---- top_n.rs: heap_replace ---------------------------------------------------------------------- *)

Section Heap.
  Context {A : Type}.
  Variable cmp : A -> A -> bool.          (* Comparator::cmp, strict *)

  Fixpoint set_nth {B : Type} (n : nat) (v : B) (l : list B) : list B :=
    match n, l with
    | O, _ :: t => v :: t
    | S n', h :: t => h :: set_nth n' v t
    | _, [] => []
    end.

  (* sift [key]/[value] down from [node]; fuel = length keys is enough (node at least doubles) *)
  Fixpoint heap_replace (fuel : nat) (keys : list A) (values : list nat) (key : A) (value : nat)
           (node : nat) : list A * list nat :=
    let len := length keys in
    let left := (2 * node + 1)%nat in
    let right := (2 * node + 2)%nat in
    match fuel with
    | O => (set_nth node key keys, set_nth node value values)
    | S fuel' =>
        if Nat.ltb left len then
          let kl := qnth left keys key in
          let kr := qnth right keys key in
          if cmp key kl && (Nat.leb len right || cmp kr kl) then
            heap_replace fuel' (set_nth node kl keys) (set_nth node (qnth left values O) values)
                         key value left
          else if Nat.ltb right len && cmp key kr then
            heap_replace fuel' (set_nth node kr keys) (set_nth node (qnth right values O) values)
                         key value right
          else (set_nth node key keys, set_nth node value values)
        else (set_nth node key keys, set_nth node value values)
    end.
End Heap.
