(* Model of comparisons executed on encoded data (property C03):

     src/mem_store/codec.rs                        Codec::encode_int  (constant - offset, unchecked)
     src/engine/operators/comparison_operators.rs  LessThan / LessThanEquals / Equals / NotEquals on
                                                   (u8|u16|u32|i64) x i64 after Widen (both sides i64)
     src/engine/operators/dict_lookup.rs           InverseDictLookup (first index with equal bytes, else -1)
     src/engine/planning/planner.rs                And / Or over nullable operands: the value is
                                                   computed on the data, the null maps are AND-ed
                                                   (combine_null_maps)

   An offset-encoded integer column stores e = v - offset in a narrow unsigned type; a comparison
   with a constant c runs as  e `op` encode_int(c)  on the widened values.  A dictionary-encoded string
   column stores the index of each value in a sorted, duplicate-free dictionary; a comparison with a
   constant runs on indices after inverse_dict_lookup.

   Executable definitions only; proofs live in Proofs/EncodedCmp.v. *)
From Coq Require Import ZArith NArith List Bool.
From LV Require Import Model.QuerySpecList Model.CheckedArith Model.QuerySpec.
Import ListNotations.
Open Scope Z_scope.

(* Codec::encode_int for [Add(_, offset)]: x - offset in i64.  None = the subtraction overflows
   (panic in the dev profile, wrap-around in release: [encode_int_wrapping]). *)
Definition encode_int (offset c : Z) : option Z :=
  if in_i64 (c - offset) then Some (c - offset) else None.

Definition encode_int_wrapping (offset c : Z) : Z := wrap64 (c - offset).

(* the stored (narrow) value, widened *)
Definition encode_val (offset v : Z) : Z := v - offset.

(* comparison_operators.rs after Widen: plain integer comparison of the widened operands.
   GT / GTE are planned as less_than(rhs, lhs) / less_than_equals(rhs, lhs). *)
Definition cmp_enc (c : cmp_op) (e k : Z) : bool :=
  match c with
  | CEq => e =? k
  | CNe => negb (e =? k)
  | CLt => e <? k
  | CLe => e <=? k
  | CGt => k <? e
  | CGe => k <=? e
  end.

(* the same comparison on decoded values: the specification *)
Definition cmp_dec (c : cmp_op) (v k : Z) : bool := cmp_holds c (Z.compare v k).

(* ---- dictionary-encoded strings ---------------------------------------------------------------- *)

Fixpoint bytes_eqb (a b : list N) : bool :=
  match a, b with
  | [], [] => true
  | x :: a', y :: b' => (x =? y)%N && bytes_eqb a' b'
  | _, _ => false
  end.

(* InverseDictLookup: index of the first dictionary entry equal to the constant, -1 if none *)
Fixpoint inverse_dict_lookup_from (i : Z) (dict : list (list N)) (c : list N) : Z :=
  match dict with
  | [] => -1
  | s :: d => if bytes_eqb s c then i else inverse_dict_lookup_from (i + 1) d c
  end.

Definition inverse_dict_lookup (dict : list (list N)) (c : list N) : Z :=
  inverse_dict_lookup_from 0 dict c.

(* comparison of a stored index with the translated constant *)
Definition cmp_dict (c : cmp_op) (idx : nat) (k : Z) : bool := cmp_enc c (Z.of_nat idx) k.

(* ---- null-aware boolean operators as planned ---------------------------------------------------- *)

(* a nullable boolean: (data bit, present bit); the data bit of a NULL row is arbitrary *)
Definition nbool := (bool * bool)%type.

Definition engine_and (a b : nbool) : nbool := (fst a && fst b, snd a && snd b).
Definition engine_or (a b : nbool) : nbool := (fst a || fst b, snd a && snd b).

(* Filter::NullableU8: a row is kept iff its bit is set and it is present *)
Definition engine_keeps (a : nbool) : bool := fst a && snd a.

Definition nbool_val (a : nbool) : val := if snd a then VBool (fst a) else VNull.

Definition spec_keeps (r : eres) : bool :=
  match r with EVal (VBool true) => true | _ => false end.
