(* Model of src/mem_store/floats.rs FloatColumn::new_boxed and of the `i64 as f64` conversion used by
   ColumnBuffer when an integer meets a float buffer.  A float is its 64-bit pattern.
   Executable definitions only. *)
From Coq Require Import ZArith List Bool.
From LV Require Import Model.CodecBase.
Import ListNotations.
Open Scope Z_scope.

(* values for NULL entries are replaced by the last non-null value (initially 0.0) *)
Fixpoint fill_nulls (p : list Z) (i last : Z) (vs : list Z) : list Z :=
  match vs with
  | [] => []
  | v :: r => if bv_get p i then v :: fill_nulls p (i + 1) v r
              else last :: fill_nulls p (i + 1) last r
  end.

Definition float_new_boxed (values : list Z) (null : option (list Z)) : column :=
  match null with
  | Some p => mk_column (zlen values) None [OpPush 1; OpNullable]
                        [SF64 (fill_nulls p 0 0 values); SBitvec p]
  | None => mk_column (zlen values) None [] [SF64 values]
  end.

(* `i as f64` for an i64: round to nearest, ties to even; exact below 2^53 *)
Definition f64_of_nat_part (m : Z) : Z :=       (* m > 0: pattern without the sign bit *)
  let e := Z.log2 m in
  if e <=? 52 then (e + 1023) * 4503599627370496 + (m * 2 ^ (52 - e) - 4503599627370496)
  else
    let sh := e - 52 in
    let q := Z.shiftr m sh in                   (* 53-bit significand, truncated *)
    let rem := m - Z.shiftl q sh in
    let half := 2 ^ (sh - 1) in
    let q' := if (half <? rem) || ((rem =? half) && Z.odd q) then q + 1 else q in
    (* a carry out of the significand (q' = 2^53) lands in the exponent field by the addition *)
    (e + 1023) * 4503599627370496 + (q' - 4503599627370496).

Definition i64_to_f64 (i : Z) : Z :=
  if i =? 0 then 0
  else if 0 <? i then f64_of_nat_part i
  else 9223372036854775808 + f64_of_nat_part (- i).
