(* Model of VersionedChecksummedBlobWriter::{store,load} (src/disk_store/file_writer.rs).
   A byte is an N < 256; a blob is a list of bytes.  The digest function is a parameter of the
   definitions (sha256 in the code); nothing is assumed about it except its output length. *)
From Coq Require Import NArith List Bool.
Import ListNotations.
Open Scope N_scope.

(* k-byte big-endian representation of n (to_be_bytes) *)
Fixpoint be (k : nat) (n : N) : list N :=
  match k with
  | O => []
  | S k' => be k' (n / 256) ++ [n mod 256]
  end.

(* from_be_bytes *)
Definition be_decode (l : list N) : N := fold_left (fun acc b => acc * 256 + b) l 0.

Definition u64_max : N := 18446744073709551615.

Inductive load_result :=
| Loaded (payload : list N)
| Rejected.                     (* Err(..): reported as invalid *)

Section WithDigest.
  Variable H : list N -> list N.

  (* store: version 0 (8 bytes) ++ payload length (8 bytes) ++ digest (32 bytes) ++ payload *)
  Definition store (p : list N) : list N :=
    be 8 0 ++ be 8 (N.of_nat (length p)) ++ H p ++ p.

  Definition load (b : list N) : load_result :=
    if N.of_nat (length b) <? 48 then Rejected else
    let version := be_decode (firstn 8 b) in
    if negb (version =? 0) then Rejected else
    let data_len := be_decode (firstn 8 (skipn 8 b)) in
    (* data_len.checked_add(8 + 8 + 32) != Some(data.len()): an overflowing length field is an error
       value (before the fix recorded in known_findings.json it was an arithmetic-overflow panic) *)
    if u64_max <? 48 + data_len then Rejected else
    if negb (N.of_nat (length b) =? 48 + data_len) then Rejected else
    let checksum := firstn 32 (skipn 16 b) in
    let payload := skipn 48 b in
    if forallb (fun xy => fst xy =? snd xy) (combine checksum (H payload))
       && (Nat.eqb (length checksum) (length (H payload)))
    then Loaded payload else Rejected.
End WithDigest.

(* corruptions of a stored blob *)
Definition flip_bit (b : list N) (pos bit : nat) : list N :=
  firstn pos b ++
  match skipn pos b with
  | [] => []
  | x :: r => N.lxor x (2 ^ N.of_nat bit) :: r
  end.
