(* C10 — replaying an observed sequence of sync-point events on the interleaving model.

   Every sync point of the harness sits INSIDE the critical section whose effect it reports (or, for a
   release, is the last label before the guard is dropped), so the order of the event log is a
   linearisation of the real lock operations.  An event stands for the model steps the thread has
   performed since its previous event; `replay` executes them with `step` and stops at the first one the
   model does not enable (the observed interleaving is then not a path of the model). *)
From Coq Require Import NArith List Bool Arith.
From LV Require Import Model.ConcSM.
Import ListNotations.

Inductive ev :=
| EIWal (n : nat) (b : list N)      (* ingest:wal_locked            ingester n holds the wal lock, will push b *)
| EILocked (n : nat)                (* ingest_homogeneous:locked    holds the buffer lock *)
| EIPushed (n : nat)                (* ingest_homogeneous:pushed    pushed; buffer guard dropped next *)
| EIAck (n : nat)                   (* ingest:wal_written           wal guard dropped next (request returns) *)
| EFWal                             (* wal_flush:wal_locked *)
| EFzFrozen                         (* freeze:frozen_locked *)
| EFzLocked                         (* freeze:locked *)
| EFzSwapped                        (* freeze:swapped               both guards dropped next *)
| EFFrozenAll                       (* wal_flush:frozen             wal guard dropped next *)
| EBFrozen                          (* batch:frozen_locked          (returns None at once if the buffer is empty) *)
| EBTaken                           (* batch:taken *)
| EBWrite                           (* batch:write_locked *)
| EBInserted                        (* batch:inserted               write guard dropped next *)
| EBRegistered                      (* batch:registered             frozen guard dropped at return *)
| EPlanned (choice : option nat)    (* flush_table_buffer:planned   plan_compaction result (suffix start) *)
| ECParts                           (* compact:parts_snapshotted *)
| ECWrite                           (* table_compact:write_locked *)
| ECSwapped                         (* table_compact:swapped        write guard dropped next *)
| EQStart (n : nat)                 (* harness: query n issued *)
| EQLocked (n : nat)                (* snapshot:locked *)
| EQCopied (n : nat).               (* snapshot:copied              all three guards dropped at return *)

Definition acts_of (e : ev) (st : state) : list (thr * act) :=
  match e with
  | EIWal n b => [(TI n, AIStart b)]
  | EILocked n => [(TI n, AILockBuf)]
  | EIPushed n => [(TI n, AIPush); (TI n, AIUnlockBuf)]
  | EIAck n => [(TI n, AIAck)]
  | EFWal => [(TF, AFStart)]
  | EFzFrozen => [(TF, AFzLockFrozen)]
  | EFzLocked => [(TF, AFzLockBuf)]
  | EFzSwapped => [(TF, AFzSwap); (TF, AFzUnlockBuf); (TF, AFzUnlockFrozen)]
  | EFFrozenAll => [(TF, AFUnlockWal)]
  | EBFrozen =>
      if is_nil (fbuf (dat st))
      then [(TF, ABLockFrozen); (TF, ABTake); (TF, ABReturnNone)]
      else [(TF, ABLockFrozen)]
  | EBTaken => [(TF, ABTake)]
  | EBWrite => [(TF, ABLockParts)]
  | EBInserted => [(TF, ABInsert); (TF, ABUnlockParts)]
  | EBRegistered => [(TF, ABUnlockFrozen)]
  | EPlanned c => [(TF, APlanLock); (TF, APlan c)]
  | ECParts => [(TF, ACRead); (TF, ACReadDone)]
  | ECWrite => [(TF, ACWrite)]
  | ECSwapped => [(TF, ACSwap); (TF, ACUnlock)]
  | EQStart n =>
      match nth_error (qs st) n with
      | Some (Q_done _ _) => [(TQ n, AQReset); (TQ n, AQStart)]
      | _ => [(TQ n, AQStart)]
      end
  | EQLocked n => [(TQ n, AQLockFrozen); (TQ n, AQLockParts); (TQ n, AQLockBuf)]
  | EQCopied n => [(TQ n, AQCopy); (TQ n, AQUnlockBuf); (TQ n, AQUnlockParts); (TQ n, AQUnlockFrozen)]
  end.

Inductive replay_result :=
| RDone (results : list (nat * snapshot)) (final : state)   (* snapshots in completion order *)
| RStuck (event_index : nat).

Fixpoint replay (evs : list ev) (st : state) (idx : nat) (acc : list (nat * snapshot)) : replay_result :=
  match evs with
  | [] => RDone (rev acc) st
  | e :: r =>
      match run (acts_of e st) st with
      | None => RStuck idx
      | Some st' =>
          let acc' :=
            match e with
            | EQCopied n =>
                match nth_error (qs st') n with
                | Some (Q_done _ s) => (n, s) :: acc
                | _ => acc
                end
            | _ => acc
            end in
          replay r st' (S idx) acc'
      end
  end.

Definition replay_from_init (ni nq : nat) (evs : list ev) : replay_result :=
  replay evs (init ni nq) 0 [].

(* the final layout: (id, number of rows) of every partition in offset order, rows in the frozen and in the
   open buffer *)
Definition layout (st : state) : list (nat * nat) * nat * nat :=
  (map (fun p => (fst p, length (concat (snd p)))) (parts (dat st)),
   length (concat (fbuf (dat st))), length (concat (obuf (dat st)))).
