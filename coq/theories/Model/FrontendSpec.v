(* Decidable input classes used in the statements of C12 (executable, no proofs):
   - known_panic_class: the reduced ASTs on which the faithful model of parse_query panics
     (finding F6: LIMIT/OFFSET literals that are not u64, strip_quotes on a lone quote or next to a
     multi-byte character, an empty statement list);
   - supported: the grammar the conversion accepts. *)
From Coq Require Import NArith ZArith List Bool.
From LV Require Import Model.Frontend.
Import ListNotations.
Open Scope N_scope.

Definition is_none {A} (o : option A) : bool := match o with None => true | Some _ => false end.

(* strip_quotes panics on exactly these strings *)
Definition bad_quoted (s : bytes) : bool :=
  starts_with_quote s &&
  (Nat.ltb (length s) 2 || negb (is_char_boundary s 1 && is_char_boundary s (length s - 1))).

(* get_raw_val panics on exactly these values (never produced by sqlparser's tokenizer, whose
   number tokens always parse as f64; kept because the reduced AST admits them) *)
Definition bad_number (v : value) : bool :=
  match v with
  | VNumber text f64 => is_none (parse_i64 text) && is_none f64
  | _ => false
  end.

Fixpoint expr_bad (e : expr) : bool :=
  match e with
  | EBinary _ l r => expr_bad l || expr_bad r
  | EUnary _ x | ENested x | EIsNull x | EIsNotNull x | EFloor x => expr_bad x
  | EValue v => bad_number v
  | EIdent v => bad_quoted v
  | EFunction _ args => fargs_bad args
  | ELike _ x p _ => expr_bad x || expr_bad p
  | EOther => false
  end
with farg_bad (a : farg) : bool :=
  match a with
  | FAExpr e => expr_bad e
  | _ => false
  end
with fargs_bad (a : fargs) : bool :=
  match a with
  | FList1 x => farg_bad x
  | FList2 x y => farg_bad x || farg_bad y
  | _ => false
  end.

Definition item_bad (it : select_item) : bool :=
  match it with
  | SIUnnamed e display => expr_bad e || bad_quoted display
  | SIAlias e alias => expr_bad e || bad_quoted alias
  | _ => false
  end.

Definition relation_bad (f : from_item) : bool :=
  match fi_relation f with
  | TFTable display => bad_quoted display
  | TFOther => false
  end.

(* LIMIT / OFFSET: a number literal that is not a u64 *)
Definition count_bad (o : option expr) : bool :=
  match o with
  | Some (EValue (VNumber text _)) => is_none (parse_u64 text)
  | _ => false
  end.

Definition opt_expr_bad (o : option expr) : bool :=
  match o with Some e => expr_bad e | None => false end.

Definition order_bad (ob : order_by) : bool :=
  match ob with
  | OBExprs l => existsb (fun p => expr_bad (fst p)) l
  | _ => false
  end.

Definition limit_bad (lc : limit_clause) : bool :=
  match lc with
  | LCLimitOffset l o => count_bad l || count_bad o
  | _ => false
  end.

Definition known_panic_class (p : parsed) : bool :=
  match p with
  | POk [] => true
  | POk [StQuery (BdSelect s) ob lc] =>
      existsb item_bad (s_projection s) || existsb relation_bad (s_from s)
      || opt_expr_bad (s_selection s) || order_bad ob || limit_bad lc
  | _ => false
  end.

(* ------------------------------------------------------------------------------------------- *)
(* the supported grammar                                                                        *)
(* ------------------------------------------------------------------------------------------- *)

Definition binop_supported (o : binop) : bool := match o with BOther => false | _ => true end.
Definition unop_supported (o : unop) : bool := match o with UOther => false | _ => true end.

Fixpoint expr_supported (e : expr) : bool :=
  match e with
  | EBinary op l r => binop_supported op && expr_supported l && expr_supported r
  | EUnary op x => unop_supported op && expr_supported x
  | EValue v => match v with VOther => false | _ => true end
  | EIdent _ => true
  | ENested x | EIsNull x | EIsNotNull x | EFloor x => expr_supported x
  | EFunction name args =>
      match function_kind name, args with
      | FUnknown, _ => false
      | FRegex, FList2 a b => farg_supported a && farg_supported b
      | FRegex, _ => false
      | _, FList1 a => farg_supported a
      | _, _ => false
      end
  | ELike _ x p escape => negb escape && expr_supported x && expr_supported p
  | EOther => false
  end
with farg_supported (a : farg) : bool :=
  match a with
  | FAExpr e => expr_supported e
  | _ => false
  end.

Definition item_supported (it : select_item) : bool :=
  match it with
  | SIUnnamed e _ | SIAlias e _ => expr_supported e
  | SIWildcard => true
  | SIOther => false
  end.

Definition count_supported (o : option expr) : bool :=
  match o with
  | None => true
  | Some (EValue (VNumber _ _)) => true
  | Some _ => false
  end.

Definition select_supported (s : select) : bool :=
  match s_group_by s with GBExprs O O => true | GBAll => true | _ => false end
  && negb (s_having s) && negb (s_distinct s)
  && match s_from s with
     | [f] => Nat.eqb (fi_joins f) 0 && match fi_relation f with TFTable _ => true | TFOther => false end
     | _ => false
     end
  && forallb item_supported (s_projection s)
  && match s_selection s with Some e => expr_supported e | None => true end.

Definition supported (p : parsed) : bool :=
  match p with
  | POk [StQuery (BdSelect s) ob lc] =>
      select_supported s
      && match ob with OBExprs l => forallb (fun p => expr_supported (fst p)) l | _ => true end
      && match lc with LCLimitOffset l o => count_supported l && count_supported o | _ => true end
  | _ => false
  end.

(* the name a select item is expected to get: its alias or its written text, with the surrounding
   quote characters removed when the text starts with one *)
Definition unquoted (s : bytes) : bytes :=
  if starts_with_quote s then removelast (tl s) else s.

Definition expected_name (it : select_item) : option bytes :=
  match it with
  | SIUnnamed _ display => Some (unquoted display)
  | SIAlias _ alias => Some (unquoted alias)
  | SIWildcard => Some star
  | SIOther => None
  end.

Definition projection_of (p : parsed) : list select_item :=
  match p with
  | POk [StQuery (BdSelect s) _ _] => s_projection s
  | _ => []
  end.
