(* Decidable predicates used in the statements of C12 (executable, no proofs):
   - parser_output: the invariants of what sqlparser + Rust's str type can hand to parse_query
     (texts are valid UTF-8; number tokens parse as f64). These are facts about the trusted
     parser, not defect classes: since the fixes ec6c954 / 88d707c / 7f4db9b the conversion has no
     reachable panic left, and C12_total is stated for every reduced AST with these invariants;
   - supported: the grammar the conversion accepts;
   - expected_name: the name a select item gets. *)
From Coq Require Import NArith ZArith List Bool.
From LV Require Import Model.Frontend.
Import ListNotations.
Open Scope N_scope.

Definition is_none {A} (o : option A) : bool := match o with None => true | Some _ => false end.

(* ------------------------------------------------------------------------------------------- *)
(* UTF-8 well-formedness (shape only: lead byte classes and continuation bytes)                  *)
(* ------------------------------------------------------------------------------------------- *)

Definition is_cont (b : N) : bool := (128 <=? b) && (b <? 192).

Fixpoint valid_utf8 (s : bytes) : bool :=
  match s with
  | [] => true
  | b :: r =>
      if b <? 128 then valid_utf8 r
      else if (194 <=? b) && (b <? 224) then
        match r with c1 :: r1 => is_cont c1 && valid_utf8 r1 | _ => false end
      else if (224 <=? b) && (b <? 240) then
        match r with c1 :: c2 :: r2 => is_cont c1 && is_cont c2 && valid_utf8 r2 | _ => false end
      else if (240 <=? b) && (b <? 245) then
        match r with c1 :: c2 :: c3 :: r3 => is_cont c1 && is_cont c2 && is_cont c3 && valid_utf8 r3 | _ => false end
      else false
  end.

(* number tokens of the tokenizer always parse as f64 (the harness supplies the parsed value) *)
Definition number_ok (v : value) : bool :=
  match v with
  | VNumber text f64 => negb (is_none (parse_i64 text) && is_none f64)
  | _ => true
  end.

Fixpoint expr_wf (e : expr) : bool :=
  match e with
  | EBinary _ l r => expr_wf l && expr_wf r
  | EUnary _ x | ENested x | EIsNull x | EIsNotNull x | EFloor x => expr_wf x
  | EValue v => number_ok v
  | EIdent _ => true
  | EFunction _ args => fargs_wf args
  | ELike _ x p _ => expr_wf x && expr_wf p
  | EOther => true
  end
with farg_wf (a : farg) : bool :=
  match a with
  | FAExpr e => expr_wf e
  | _ => true
  end
with fargs_wf (a : fargs) : bool :=
  match a with
  | FList1 x => farg_wf x
  | FList2 x y => farg_wf x && farg_wf y
  | _ => true
  end.

Definition item_wf (it : select_item) : bool :=
  match it with
  | SIUnnamed e display => expr_wf e && valid_utf8 display
  | SIAlias e alias => expr_wf e && valid_utf8 alias
  | _ => true
  end.

Definition relation_wf (f : from_item) : bool :=
  match fi_relation f with
  | TFTable display => valid_utf8 display
  | TFOther => true
  end.

Definition opt_expr_wf (o : option expr) : bool :=
  match o with Some e => expr_wf e | None => true end.

Definition order_wf (ob : order_by) : bool :=
  match ob with
  | OBExprs l => forallb (fun p => expr_wf (fst p)) l
  | _ => true
  end.

Definition statement_wf (st : statement) : bool :=
  match st with
  | StQuery (BdSelect s) ob lc =>
      forallb item_wf (s_projection s) && forallb relation_wf (s_from s)
      && opt_expr_wf (s_selection s) && order_wf ob
  | _ => true
  end.

(* what the parser can produce *)
Definition parser_output (p : parsed) : bool :=
  match p with
  | POk stmts => forallb statement_wf stmts
  | _ => true
  end.

(* ------------------------------------------------------------------------------------------- *)
(* the supported grammar                                                                        *)
(* ------------------------------------------------------------------------------------------- *)

Definition binop_supported (o : binop) : bool := match o with BOther => false | _ => true end.
Definition unop_supported (o : unop) : bool := match o with UOther => false | _ => true end.

Fixpoint expr_supported (e : expr) : bool :=
  match e with
  | EBinary op l r => binop_supported op && expr_supported l && expr_supported r
  | EUnary op x => unop_supported op && expr_supported x
  | EValue v => match v with VOther => false | _ => true end
  | EIdent _ => true
  | ENested x | EIsNull x | EIsNotNull x | EFloor x => expr_supported x
  | EFunction name args =>
      match function_kind name, args with
      | FUnknown, _ => false
      | FRegex, FList2 a b => farg_supported a && farg_supported b
      | FRegex, _ => false
      | _, FList1 a => farg_supported a
      | _, _ => false
      end
  | ELike _ x p escape => negb escape && expr_supported x && expr_supported p
  | EOther => false
  end
with farg_supported (a : farg) : bool :=
  match a with
  | FAExpr e => expr_supported e
  | _ => false
  end.

Definition item_supported (it : select_item) : bool :=
  match it with
  | SIUnnamed e _ | SIAlias e _ => expr_supported e
  | SIWildcard => true
  | SIOther => false
  end.

(* LIMIT / OFFSET: absent, or a number literal that is a u64 *)
Definition count_supported (o : option expr) : bool :=
  match o with
  | None => true
  | Some (EValue (VNumber text _)) => negb (is_none (parse_u64 text))
  | Some _ => false
  end.

Definition select_supported (s : select) : bool :=
  match s_group_by s with GBExprs O O => true | GBAll => true | _ => false end
  && negb (s_having s) && negb (s_distinct s)
  && match s_from s with
     | [f] => Nat.eqb (fi_joins f) 0 && match fi_relation f with TFTable _ => true | TFOther => false end
     | _ => false
     end
  && forallb item_supported (s_projection s)
  && match s_selection s with Some e => expr_supported e | None => true end.

Definition supported (p : parsed) : bool :=
  match p with
  | POk [StQuery (BdSelect s) ob lc] =>
      select_supported s
      && match ob with OBExprs l => forallb (fun p => expr_supported (fst p)) l | _ => true end
      && match lc with LCLimitOffset l o => count_supported l && count_supported o | _ => true end
  | _ => false
  end.

(* the name a select item gets: its alias or its written text; the surrounding quote characters
   are removed when the text starts AND ends with the same quote character *)
Definition unquoted (s : bytes) : bytes :=
  if quoted_by 96 s || quoted_by 34 s then removelast (tl s) else s.

Definition expected_name (it : select_item) : option bytes :=
  match it with
  | SIUnnamed _ display => Some (unquoted display)
  | SIAlias _ alias => Some (unquoted alias)
  | SIWildcard => Some star
  | SIOther => None
  end.

Definition projection_of (p : parsed) : list select_item :=
  match p with
  | POk [StQuery (BdSelect s) _ _] => s_projection s
  | _ => []
  end.
