(* Model of the checked integer arithmetic of the query engine (property C06).

   Transcribed from
     src/engine/operators/numeric_operators.rs   CheckedBinaryOp::perform_checked for + - * / %
     src/engine/operators/binary_operator.rs     Checked / NullableChecked x VV / VS / SV operators
     src/engine/operators/aggregate.rs           CheckedAggregator<_, i64> for SumI64 (accumulate_checked)
     src/engine/operators/merge_aggregate.rs     Combinable<i64>::combine (SumI64 / Count / MaxI64 / MinI64)

   Executable definitions only; proofs live in Proofs/CheckedArith.v.

   Rust integers are Z with explicit range predicates.  Every operand is widened to i64 first
   (`lhs.to_i64().unwrap()` on u8/u16/u32/i64 never fails), so the model is stated on i64 values.
   `overflowing_add/sub/mul` return the wrapped value together with the overflow flag: [wrap64] is
   two's complement reduction into [-2^63, 2^63).  i64 `/` and `%` truncate toward zero: [Z.quot] and
   [Z.rem].  The modulo branch uses `wrapping_rem` (since fix 5836e7f): i64::MIN wrapping_rem -1 = 0,
   which is also the exact remainder, so [Z.rem] models it for every i64 pair with a non-zero divisor. *)
From Coq Require Import ZArith List Bool.
From LV Require Import Model.QuerySpecList.
Import ListNotations.
Open Scope Z_scope.

Definition i64_min : Z := -9223372036854775808.
Definition i64_max : Z := 9223372036854775807.
Definition two64 : Z := 18446744073709551616.
Definition two63 : Z := 9223372036854775808.

Definition in_i64 (z : Z) : bool := (i64_min <=? z) && (z <=? i64_max).

(* two's complement wrap-around of a mathematical integer into i64 *)
Definition wrap64 (z : Z) : Z := (z + two63) mod two64 - two63.

Inductive arith_op := OpAdd | OpSub | OpMul | OpDiv | OpMod.

(* (value, overflow flag) as returned by perform_checked *)
Inductive checked_res := RVal (v : Z) (overflow : bool).

Definition overflowing (z : Z) : checked_res := RVal (wrap64 z) (negb (in_i64 z)).

Definition perform_checked (op : arith_op) (a b : Z) : checked_res :=
  match op with
  | OpAdd => overflowing (a + b)
  | OpSub => overflowing (a - b)
  | OpMul => overflowing (a * b)
  | OpDiv =>
      (* division_by_0 || (lhs <= -i64::MAX && rhs == -1)  =>  (1, true) *)
      if (b =? 0) || ((a <=? - i64_max) && (b =? -1)) then RVal 1 true
      else RVal (Z.quot a b) false
  | OpMod =>
      if b =? 0 then RVal 1 true
      else RVal (Z.rem a b) false                         (* lhs.wrapping_rem(rhs) *)
  end.

(* the mathematically exact result; None when undefined (division by zero) *)
Definition exact_op (op : arith_op) (a b : Z) : option Z :=
  match op with
  | OpAdd => Some (a + b)
  | OpSub => Some (a - b)
  | OpMul => Some (a * b)
  | OpDiv => if b =? 0 then None else Some (Z.quot a b)
  | OpMod => if b =? 0 then None else Some (Z.rem a b)
  end.

(* ---- whole-vector operators ------------------------------------------------------------------ *)

(* outcome of executing one operator over a batch *)
Inductive vec_res := VOk (vs : list Z) | VOverflow.

(* loop body shared by the six operator shapes: [present] masks the overflow flag (None: no null
   map, i.e. the plain Checked* operators).  The loop pushes every result and only reports
   Err(Overflow) after the last element. *)
Fixpoint checked_loop (op : arith_op) (pairs : list (Z * Z)) (present : option (list bool))
         (acc : list Z) (any : bool) : vec_res :=
  match pairs with
  | [] => if any then VOverflow else VOk (qrev acc)
  | (a, b) :: rest =>
      let '(p, present') :=
        match present with
        | None => (true, None)
        | Some [] => (false, Some [])                (* is_set beyond the end of the bitmap = false *)
        | Some (p :: ps) => (p, Some ps)
        end in
      match perform_checked op a b with
      | RVal v o => checked_loop op rest present' (v :: acc) (any || (o && p))
      end
  end.

Definition checked_vv (op : arith_op) (l r : list Z) : vec_res :=
  checked_loop op (qcombine l r) None [] false.
Definition checked_vs (op : arith_op) (l : list Z) (s : Z) : vec_res :=
  checked_loop op (qmap (fun a => (a, s)) l) None [] false.
Definition checked_sv (op : arith_op) (s : Z) (r : list Z) : vec_res :=
  checked_loop op (qmap (fun b => (s, b)) r) None [] false.
Definition nullable_checked_vv (op : arith_op) (l r : list Z) (present : list bool) : vec_res :=
  checked_loop op (qcombine l r) (Some present) [] false.
Definition nullable_checked_vs (op : arith_op) (l : list Z) (s : Z) (present : list bool) : vec_res :=
  checked_loop op (qmap (fun a => (a, s)) l) (Some present) [] false.
Definition nullable_checked_sv (op : arith_op) (s : Z) (r : list Z) (present : list bool) : vec_res :=
  checked_loop op (qmap (fun b => (s, b)) r) (Some present) [] false.

(* ---- row-level semantics of an arithmetic expression tree ---------------------------------------

   A cell is [Some z] or NULL ([None]).  The engine evaluates an expression column-at-a-time; the
   query fails with Overflow iff some *present* row raises the flag.  Row by row this is: *)
Inductive cell_res := COk (v : option Z) | COverflow.

Inductive aexpr :=
| ACol (i : nat)
| AConst (z : Z)
| ABin (op : arith_op) (l r : aexpr).

Definition cell_op (op : arith_op) (a b : option Z) : cell_res :=
  match a, b with
  | Some x, Some y =>
      match perform_checked op x y with
      | RVal v true => COverflow
      | RVal v false => COk (Some v)
      end
  | _, _ => COk None                                   (* NULL operand: NULL, no error *)
  end.

Fixpoint eval_aexpr (row : list (option Z)) (e : aexpr) : cell_res :=
  match e with
  | ACol i => COk (qnth i row None)
  | AConst z => COk (Some z)
  | ABin op l r =>
      match eval_aexpr row l with
      | COk a =>
          match eval_aexpr row r with
          | COk b => cell_op op a b
          | err => err
          end
      | err => err
      end
  end.

(* the same tree over unbounded integers: the mathematical meaning of the expression *)
Fixpoint exact_aexpr (row : list (option Z)) (e : aexpr) : option (option Z) :=
  match e with
  | ACol i => Some (qnth i row None)
  | AConst z => Some (Some z)
  | ABin op l r =>
      match exact_aexpr row l, exact_aexpr row r with
      | Some (Some a), Some (Some b) =>
          match exact_op op a b with Some z => Some (Some z) | None => None end
      | Some _, Some _ => Some None
      | _, _ => None
      end
  end.

(* ---- checked summation --------------------------------------------------------------------------

   CheckedAggregate<_, _, i64, SumI64>: acc.overflowing_add(value), flags or-ed, error at the end. *)
Fixpoint sum_loop (acc : Z) (any : bool) (xs : list Z) : Z * bool :=
  match xs with
  | [] => (acc, any)
  | x :: r => sum_loop (wrap64 (acc + x)) (any || negb (in_i64 (acc + x))) r
  end.

(* one partition: Some sum, or None = Err(Overflow) *)
Definition sum_partition (xs : list Z) : option Z :=
  let '(s, o) := sum_loop 0 false xs in if o then None else Some s.

(* I64_NULL sentinel used by merge_aggregate's null coalescing (src/engine/data_types: i64::MAX) *)
Definition i64_null : Z := i64_max.

Inductive agg_kind := AggSum | AggCount | AggMax | AggMin.

(* Combinable<i64>::combine; None = Err(Overflow).  Count uses an unchecked `a + b`: modelled like
   the dev profile (panic on overflow) as a distinct result. *)
Inductive comb_res := CbOk (v : Z) | CbOverflow | CbPanic.

Definition combine_i64 (k : agg_kind) (a b : Z) : comb_res :=
  if a =? i64_null then CbOk b
  else if b =? i64_null then CbOk a
  else match k with
       | AggSum => if in_i64 (a + b) then CbOk (a + b) else CbOverflow
       | AggCount => if in_i64 (a + b) then CbOk (a + b) else CbPanic
       | AggMax => CbOk (Z.max a b)
       | AggMin => CbOk (Z.min a b)
       end.

(* SUM of one group over a list of partitions, merged left to right (the general tree is in
   Proofs): None = Overflow *)
Fixpoint sum_merge (acc : Z) (parts : list (list Z)) : option Z :=
  match parts with
  | [] => Some acc
  | p :: rest =>
      match sum_partition p with
      | None => None
      | Some s =>
          match combine_i64 AggSum acc s with
          | CbOk v => sum_merge v rest
          | _ => None
          end
      end
  end.

Definition sum_split (parts : list (list Z)) : option Z :=
  match parts with
  | [] => Some 0
  | p :: rest => match sum_partition p with None => None | Some s => sum_merge s rest end
  end.

(* binary merge trees over partition results *)
Inductive mtree := MLeaf (xs : list Z) | MNode (l r : mtree).

Fixpoint mtree_rows (t : mtree) : list Z :=
  match t with MLeaf xs => xs | MNode l r => mtree_rows l ++ mtree_rows r end.

Fixpoint sum_tree (t : mtree) : option Z :=
  match t with
  | MLeaf xs => sum_partition xs
  | MNode l r =>
      match sum_tree l, sum_tree r with
      | Some a, Some b => match combine_i64 AggSum a b with CbOk v => Some v | _ => None end
      | _, _ => None
      end
  end.
