(* Model of the integer response column codec in locustdb-serialization/src/api.rs
   (Column::Int in serialize_builder / deserialize_reader, determine_delta_compressability,
   delta_encode, double_delta_encode), as it stands after the fix recorded in known_findings.json:
   all i64 differences are taken and re-applied modulo 2^64 (wrapping_sub / wrapping_add /
   wrapping_mul); delta-deltas in the statistics are exact i128 values. *)
From Coq Require Import ZArith List Bool.
Import ListNotations.
Open Scope Z_scope.

Definition two63 : Z := 9223372036854775808.
Definition two64 : Z := 18446744073709551616.
Definition i128_max : Z := 170141183460469231731687303715884105727.
Definition i128_min : Z := -170141183460469231731687303715884105728.

Definition in_i64 (z : Z) : Prop := - two63 <= z < two63.

(* two's complement wrap of a mathematical integer into i64 *)
Definition wrap64 (z : Z) : Z := (z + two63) mod two64 - two63.
Definition wadd (a b : Z) : Z := wrap64 (a + b).
Definition wsub (a b : Z) : Z := wrap64 (a - b).
Definition wmul (a b : Z) : Z := wrap64 (a * b).

Inductive width := W8 | W16 | W32.
Definition wlo (w : width) : Z := match w with W8 => -128 | W16 => -32768 | W32 => -2147483648 end.
Definition whi (w : width) : Z := match w with W8 => 127 | W16 => 32767 | W32 => 2147483647 end.
Definition fits (w : width) (z : Z) : bool := (wlo w <=? z) && (z <=? whi w).

Inductive layout :=
| LRange (start : Z) (len : nat) (step : Z)
| LDelta (w : width) (first : Z) (data : list Z)
| LDD (w : width) (first second : Z) (data : list Z)
| LPlain (xs : list Z).

(* wrapped differences of neighbours: [x1 - x0; x2 - x1; ...] *)
Fixpoint wdeltas (prev : Z) (xs : list Z) : list Z :=
  match xs with
  | [] => []
  | x :: r => wsub x prev :: wdeltas x r
  end.

(* exact differences of neighbours (i128 in the statistics) *)
Fixpoint xdeltas (prev : Z) (ds : list Z) : list Z :=
  match ds with
  | [] => []
  | d :: r => (d - prev) :: xdeltas d r
  end.

Definition min_of (init : Z) (l : list Z) : Z := fold_left Z.min l init.
Definition max_of (init : Z) (l : list Z) : Z := fold_left Z.max l init.

(* T::try_from(v).unwrap() for every element *)
Definition all_fit (w : width) (l : list Z) : bool := forallb (fits w) l.

(* serialize_builder, Column::Int arm.  None = a panic (try_from(..).unwrap() on a value that does
   not fit the chosen width) *)
Definition encode (xs : list Z) : option layout :=
  match xs with
  | [] | [_] => Some (LPlain xs)
  | x0 :: ((x1 :: rest) as tl) =>
      let ds := wdeltas x0 tl in                       (* d1 = x1 - x0, ... *)
      let d1 := wsub x1 x0 in
      let dtail := wdeltas x1 rest in
      let min_delta := min_of d1 dtail in
      let max_delta := max_of d1 dtail in
      let dds := xdeltas d1 dtail in
      let min_dd := min_of i128_max dds in
      let max_dd := max_of i128_min dds in
      let try_delta w := if all_fit w ds then Some (LDelta w x0 ds) else None in
      let try_dd w := if all_fit w dds then Some (LDD w x0 x1 dds) else None in
      if (min_delta =? max_delta) && (max_delta <=? two63 - 1) && (- two63 <=? max_delta)
      then Some (LRange x0 (length xs) min_delta)
      else if (wlo W8 <=? min_delta) && (max_delta <=? whi W8) then try_delta W8
      else if (wlo W8 <=? min_dd) && (max_dd <=? whi W8) then try_dd W8
      else if (wlo W16 <=? min_delta) && (max_delta <=? whi W16) then try_delta W16
      else if (wlo W16 <=? min_dd) && (max_dd <=? whi W16) then try_dd W16
      else if (wlo W32 <=? min_delta) && (max_delta <=? whi W32) then try_delta W32
      else if (wlo W32 <=? min_dd) && (max_dd <=? whi W32) then try_dd W32
      else Some (LPlain xs)
  end.

Fixpoint undelta (last : Z) (data : list Z) : list Z :=
  match data with
  | [] => []
  | d :: r => let last' := wadd last d in last' :: undelta last' r
  end.

Fixpoint undd (last last_delta : Z) (data : list Z) : list Z :=
  match data with
  | [] => []
  | dd :: r =>
      let ld := wadd last_delta dd in
      let last' := wadd last ld in
      last' :: undd last' ld r
  end.

Fixpoint range_from (start step : Z) (i : Z) (n : nat) : list Z :=
  match n with
  | O => []
  | S n' => wadd start (wmul i step) :: range_from start step (i + 1) n'
  end.

(* deserialize_reader *)
Definition decode (l : layout) : list Z :=
  match l with
  | LRange start len step => range_from start step 0 len
  | LDelta _ first data => first :: undelta first data
  | LDD _ first second data => first :: second :: undd second (wsub second first) data
  | LPlain xs => xs
  end.

Definition roundtrip (xs : list Z) : option (list Z) :=
  match encode xs with None => None | Some l => Some (decode l) end.
