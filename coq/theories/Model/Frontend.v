(* Model of the query front end of LocustDB: src/syntax/parser.rs (parse_query and its helpers:
   get_query_components, get_projection, get_table_name, get_order_by, get_limit, get_offset,
   function_arg_to_expr, convert_to_native_expr, strip_quotes, map_unary_operator,
   map_binary_operator, get_raw_val), on a REDUCED AST of the sqlparser crate's output.

   The reduced AST keeps exactly what the conversion inspects.  The harness links sqlparser, parses
   the query text with the same dialect and maps the crate's AST to this type (trusted glue; every
   node the conversion does not name goes to the `Other` constructor of its class).

   Strings are lists of bytes (N < 256, UTF-8 as Rust stores them).  Every place where the Rust code
   can panic is a `Panic site` result: nothing is totalised. *)
From Coq Require Import NArith ZArith List Bool.
Import ListNotations.
Open Scope N_scope.

Definition bytes := list N.

(* ------------------------------------------------------------------------------------------- *)
(* results                                                                                      *)
(* ------------------------------------------------------------------------------------------- *)

Inductive err_kind := ParseError | NotImplemented | Fatal | TypeError.

Inductive panic_site :=
| PSStripBoundary    (* strip_quotes: ident[1..len-1] with an end that is not a char boundary (impossible
                        for a valid str: both ends follow / are one-byte quote characters) *)
| PSFloatUnwrap.     (* get_raw_val: num.parse::<f64>().unwrap() (the tokenizer's number tokens always parse) *)

Inductive result (A : Type) :=
| Val (a : A)
| Err (k : err_kind)
| Panic (s : panic_site).
Arguments Val {A} a.
Arguments Err {A} k.
Arguments Panic {A} s.

Definition bind {A B} (r : result A) (f : A -> result B) : result B :=
  match r with
  | Val a => f a
  | Err k => Err k
  | Panic s => Panic s
  end.
Notation "'do' x <- r ; k" := (bind r (fun x => k)) (at level 200, x name, r at level 100, k at level 200).

(* ------------------------------------------------------------------------------------------- *)
(* reduced sqlparser AST                                                                        *)
(* ------------------------------------------------------------------------------------------- *)

Inductive binop :=
| BAnd | BPlus | BMinus | BMultiply | BDivide | BModulo | BGt | BGtEq | BLt | BLtEq | BEq | BNotEq | BOr
| BOther.                      (* every other BinaryOperator: ||, ^, &, |, <<, XOR, <=>, ... *)

Inductive unop := UNot | UMinus | UOther.

Inductive value :=
| VNumber (text : bytes) (f64 : option N)
    (* Value::Number(text, _); `f64` is what text.parse::<f64>() returns (bit pattern), supplied
       by the harness as an oracle leaf: float parsing is not modelled *)
| VSQString (s : bytes)        (* Value::SingleQuotedString *)
| VNull
| VOther.                      (* booleans, double-quoted / hex / national / dollar strings, placeholders *)

Inductive expr :=
| EBinary (op : binop) (l r : expr)
| EUnary (op : unop) (e : expr)
| EValue (v : value)
| EIdent (v : bytes)                       (* Identifier: the UNQUOTED value of the identifier *)
| ENested (e : expr)
| EFunction (upper_name : bytes) (args : fargs)   (* format!("{}", f.name).to_uppercase() *)
| EIsNull (e : expr)
| EIsNotNull (e : expr)
| ELike (negated : bool) (e pat : expr) (escape : bool)
| EFloor (e : expr)
| EOther                                   (* every other Expr: CompoundIdentifier, InList, Between,
                                              Case, Subquery, Cast, Exists, ILike, IsTrue, ... *)
with farg :=
| FAExpr (e : expr)                        (* FunctionArg::Unnamed(FunctionArgExpr::Expr) *)
| FANamed                                  (* FunctionArg::Named *)
| FAWildcard
| FAQualifiedWildcard
| FAOther                                  (* FunctionArg::ExprNamed *)
with fargs :=
| FNone                                    (* FunctionArguments::None *)
| FSubquery                                (* FunctionArguments::Subquery *)
| FList1 (a : farg)                        (* FunctionArguments::List with exactly one argument *)
| FList2 (a b : farg)                      (* ... exactly two *)
| FListN (n : nat).                        (* ... zero, or three and more (only the count is inspected) *)

Inductive select_item :=
| SIUnnamed (e : expr) (display : bytes)   (* UnnamedExpr(e), format!("{}", e) *)
| SIAlias (e : expr) (alias : bytes)       (* ExprWithAlias, alias.to_string() (quotes included) *)
| SIWildcard
| SIOther.                                 (* QualifiedWildcard *)

Inductive table_factor :=
| TFTable (display : bytes)                (* TableFactor::Table, format!("{}", name) *)
| TFOther.                                 (* Derived, TableFunction, UNNEST, NestedJoin, ... *)

Record from_item := { fi_relation : table_factor; fi_joins : nat }.

Inductive group_by :=
| GBExprs (n_exprs n_modifiers : nat)
| GBAll.

Inductive order_by :=
| OBNone
| OBExprs (l : list (expr * option bool))  (* expression, options.asc *)
| OBAll.

Inductive limit_clause :=
| LCNone
| LCLimitOffset (limit offset : option expr)   (* offset: Offset.value *)
| LCOther.                                     (* MySQL `LIMIT a, b` *)

Record select := {
  s_distinct : bool;
  s_projection : list select_item;
  s_from : list from_item;
  s_selection : option expr;
  s_group_by : group_by;
  s_having : bool }.

Inductive body :=
| BdSelect (s : select)
| BdOther.                                 (* set operations, VALUES, nested query, INSERT/UPDATE bodies *)

Inductive statement :=
| StQuery (b : body) (ob : order_by) (lc : limit_clause)
| StOther.                                 (* INSERT, UPDATE, DELETE, CREATE, ... *)

Inductive parsed :=
| PParserError                             (* Err(ParserError::ParserError(_)) *)
| POtherError                              (* Err(TokenizerError | RecursionLimitExceeded) *)
| POk (stmts : list statement).

(* ------------------------------------------------------------------------------------------- *)
(* LocustDB's query                                                                             *)
(* ------------------------------------------------------------------------------------------- *)

Inductive func2 :=
| Equals | NotEquals | LT | LTE | GT | GTE | And | Or | Add | Subtract | Multiply | Divide | Modulo
| RegexMatch | Like | NotLike.

Inductive func1 := Negate | ToYear | Not | IsNull | IsNotNull | Length | Floor.

Inductive aggregator := Count | SumI64 | MaxI64 | MinI64.

Inductive rawval :=
| RInt (z : Z)
| RFloat (bits : N)
| RStr (s : bytes)
| RNull.

Inductive nexpr :=
| ColName (n : bytes)
| Const (v : rawval)
| Func1 (f : func1) (e : nexpr)
| Func2 (f : func2) (a b : nexpr)
| Aggregate (a : aggregator) (e : nexpr).

Record column_info := { ci_expr : nexpr; ci_name : bytes }.

Record query := {
  q_select : list column_info;
  q_table : bytes;
  q_filter : nexpr;
  q_order_by : list (nexpr * bool);        (* expression, descending *)
  q_limit : N;
  q_offset : N }.

(* ------------------------------------------------------------------------------------------- *)
(* Rust's integer parsing (core::num::from_str_radix, radix 10)                                 *)
(* ------------------------------------------------------------------------------------------- *)

Definition u64_max : N := 18446744073709551615.
Definition i64_max : N := 9223372036854775807.
Definition i64_min_abs : N := 9223372036854775808.

Definition is_digit (b : N) : bool := (48 <=? b) && (b <=? 57).

(* value of a non-empty all-digit string *)
Fixpoint digits_val (acc : N) (l : bytes) : option N :=
  match l with
  | [] => Some acc
  | b :: r => if is_digit b then digits_val (acc * 10 + (b - 48)) r else None
  end.

Definition digits (l : bytes) : option N :=
  match l with
  | [] => None
  | _ => digits_val 0 l
  end.

(* <u64 as FromStr>::from_str: an optional '+', then at least one digit, no overflow; a '-' is an
   invalid digit for an unsigned type *)
Definition parse_u64 (s : bytes) : option N :=
  let body := match s with 43 :: r => r | _ => s end in
  match digits body with
  | Some v => if v <=? u64_max then Some v else None
  | None => None
  end.

(* <i64 as FromStr>::from_str *)
Definition parse_i64 (s : bytes) : option Z :=
  match s with
  | 45 :: r =>
      match digits r with
      | Some v => if v <=? i64_min_abs then Some (- Z.of_N v)%Z else None
      | None => None
      end
  | _ =>
      let body := match s with 43 :: r => r | _ => s end in
      match digits body with
      | Some v => if v <=? i64_max then Some (Z.of_N v) else None
      | None => None
      end
  end.

(* ------------------------------------------------------------------------------------------- *)
(* strip_quotes                                                                                 *)
(* ------------------------------------------------------------------------------------------- *)

(* str::is_char_boundary: 0 and len are boundaries, an index past the end is not, otherwise the
   byte at the index must not be a UTF-8 continuation byte (0x80..=0xBF) *)
Definition is_char_boundary (s : bytes) (i : nat) : bool :=
  match i with
  | O => true
  | _ =>
      match Nat.compare i (length s) with
      | Eq => true
      | Gt => false
      | Lt =>
          match nth_error s i with
          | Some b => (b <? 128) || (192 <=? b)
          | None => false
          end
      end
  end.

Fixpoint last_byte (s : bytes) : option N :=
  match s with
  | [] => None
  | [b] => Some b
  | _ :: r => last_byte r
  end.

(* does the text start and end with the quote character q, and is it at least two bytes long *)
Definition quoted_by (q : N) (s : bytes) : bool :=
  Nat.leb 2 (length s)
  && match s with b :: _ => b =? q | [] => false end
  && match last_byte s with Some b => b =? q | None => false end.

(* fn strip_quotes(ident: &str) -> String {            (after fix 7f4db9b)
     for quote in [BACKTICK, DOUBLE_QUOTE] {
         if ident.len() >= 2 && ident.starts_with(quote) && ident.ends_with(quote) {
             return ident[1..ident.len() - 1].to_string();
         }
     }
     ident.to_string() }
   The range index still checks both ends for being char boundaries. *)
Definition strip_quotes (s : bytes) : result bytes :=
  if quoted_by 96 s || quoted_by 34 s then
    let n := length s in
    if is_char_boundary s 1 && is_char_boundary s (n - 1)
    then Val (firstn (n - 2) (skipn 1 s))
    else Panic PSStripBoundary
  else Val s.

(* ------------------------------------------------------------------------------------------- *)
(* expressions                                                                                  *)
(* ------------------------------------------------------------------------------------------- *)

Definition map_binary_operator (o : binop) : result func2 :=
  match o with
  | BAnd => Val And | BPlus => Val Add | BMinus => Val Subtract | BMultiply => Val Multiply
  | BDivide => Val Divide | BModulo => Val Modulo | BGt => Val GT | BGtEq => Val GTE
  | BLt => Val LT | BLtEq => Val LTE | BEq => Val Equals | BNotEq => Val NotEquals | BOr => Val Or
  | BOther => Err NotImplemented
  end.

Definition map_unary_operator (o : unop) : result func1 :=
  match o with
  | UNot => Val Not
  | UMinus => Val Negate
  | UOther => Err Fatal          (* fatal!("Unexpected unary operator: {}") *)
  end.

Definition get_raw_val (v : value) : result rawval :=
  match v with
  | VNumber text f64 =>
      match parse_i64 text with
      | Some z => Val (RInt z)
      | None =>
          match f64 with
          | Some bits => Val (RFloat bits)
          | None => Panic PSFloatUnwrap
          end
      end
  | VSQString s => Val (RStr s)
  | VNull => Val RNull
  | VOther => Err NotImplemented
  end.

(* upper-cased function names the conversion knows *)
Definition n_TO_YEAR : bytes := [84; 79; 95; 89; 69; 65; 82].
Definition n_REGEX : bytes := [82; 69; 71; 69; 88].
Definition n_LENGTH : bytes := [76; 69; 78; 71; 84; 72].
Definition n_COUNT : bytes := [67; 79; 85; 78; 84].
Definition n_SUM : bytes := [83; 85; 77].
Definition n_AVG : bytes := [65; 86; 71].
Definition n_MAX : bytes := [77; 65; 88].
Definition n_MIN : bytes := [77; 73; 78].

Fixpoint bytes_eqb (a b : bytes) : bool :=
  match a, b with
  | [], [] => true
  | x :: a', y :: b' => (x =? y) && bytes_eqb a' b'
  | _, _ => false
  end.

Inductive fkind := FToYear | FRegex | FLength | FCount | FSum | FAvg | FMax | FMin | FUnknown.

Definition function_kind (name : bytes) : fkind :=
  if bytes_eqb name n_TO_YEAR then FToYear
  else if bytes_eqb name n_REGEX then FRegex
  else if bytes_eqb name n_LENGTH then FLength
  else if bytes_eqb name n_COUNT then FCount
  else if bytes_eqb name n_SUM then FSum
  else if bytes_eqb name n_AVG then FAvg
  else if bytes_eqb name n_MAX then FMax
  else if bytes_eqb name n_MIN then FMin
  else FUnknown.

Fixpoint convert_expr (e : expr) : result nexpr :=
  match e with
  | EBinary op l r =>
      do f <- map_binary_operator op;
      do a <- convert_expr l;
      do b <- convert_expr r;
      Val (Func2 f a b)
  | EUnary op x =>
      do f <- map_unary_operator op;
      do a <- convert_expr x;
      Val (Func1 f a)
  | EValue v => do c <- get_raw_val v; Val (Const c)
  | EIdent v => Val (ColName v)      (* sqlparser has already removed the quotes *)
  | ENested x => convert_expr x
  | EFunction name args =>
      let one (mk : nexpr -> nexpr) : result nexpr :=
        match args with
        | FList1 a => do x <- convert_farg a; Val (mk x)
        | _ => Err ParseError
        end in
      match function_kind name with
      | FToYear => one (Func1 ToYear)
      | FRegex =>
          match args with
          | FList2 a b =>
              do x <- convert_farg a;
              do y <- convert_farg b;
              Val (Func2 RegexMatch x y)
          | _ => Err ParseError
          end
      | FLength => one (Func1 Length)
      | FCount => one (Aggregate Count)
      | FSum => one (Aggregate SumI64)
      | FAvg => one (fun x => Func2 Divide (Aggregate SumI64 x) (Aggregate Count x))
      | FMax => one (Aggregate MaxI64)
      | FMin => one (Aggregate MinI64)
      | FUnknown => Err NotImplemented
      end
  | EIsNull x => do a <- convert_expr x; Val (Func1 IsNull a)
  | EIsNotNull x => do a <- convert_expr x; Val (Func1 IsNotNull a)
  | ELike negated x pat escape =>
      if escape then Err NotImplemented
      else
        do a <- convert_expr x;
        do b <- convert_expr pat;
        Val (Func2 (if negated then NotLike else Like) a b)
  | EFloor x => do a <- convert_expr x; Val (Func1 Floor a)
  | EOther => Err NotImplemented
  end
with convert_farg (a : farg) : result nexpr :=
  match a with
  | FAExpr e => convert_expr e
  | FANamed | FAWildcard | FAQualifiedWildcard | FAOther => Err NotImplemented
  end.

(* ------------------------------------------------------------------------------------------- *)
(* the query shell                                                                              *)
(* ------------------------------------------------------------------------------------------- *)

Record components := {
  c_projection : list select_item;
  c_relation : option table_factor;
  c_selection : option expr;
  c_order_by : option (list (expr * option bool));
  c_limit : option expr;
  c_offset : option expr }.

Definition get_query_components (b : body) (ob : order_by) (lc : limit_clause) : result components :=
  match b with
  | BdOther => Err NotImplemented
  | BdSelect s =>
      let grouped := match s_group_by s with
                     | GBExprs ne nm => negb (Nat.eqb ne 0) || negb (Nat.eqb nm 0)
                     | GBAll => false
                     end in
      if grouped then Err NotImplemented
      else if s_having s then Err NotImplemented
      else if s_distinct s then Err NotImplemented
      else if Nat.ltb 1 (length (s_from s)) then Err NotImplemented
      else if match s_from s with f :: _ => negb (Nat.eqb (fi_joins f) 0) | [] => false end
           then Err NotImplemented
      else
        let '(limit, offset) := match lc with
                                | LCLimitOffset l o => (l, o)
                                | _ => (None, None)
                                end in
        Val {| c_projection := s_projection s;
               c_relation := match s_from s with f :: _ => Some (fi_relation f) | [] => None end;
               c_selection := s_selection s;
               c_order_by := match ob with OBExprs l => Some l | _ => None end;
               c_limit := limit;
               c_offset := offset |}
  end.

Definition star : bytes := [42].

Definition convert_item (it : select_item) : result column_info :=
  match it with
  | SIUnnamed e display =>
      do x <- convert_expr e;
      do n <- strip_quotes display;
      Val {| ci_expr := x; ci_name := n |}
  | SIWildcard => Val {| ci_expr := ColName star; ci_name := star |}
  | SIAlias e alias =>
      do x <- convert_expr e;
      do n <- strip_quotes alias;
      Val {| ci_expr := x; ci_name := n |}
  | SIOther => Err NotImplemented
  end.

Fixpoint get_projection (l : list select_item) : result (list column_info) :=
  match l with
  | [] => Val []
  | it :: r =>
      do c <- convert_item it;
      do cs <- get_projection r;
      Val (c :: cs)
  end.

Definition get_table_name (rel : option table_factor) : result bytes :=
  match rel with
  | Some (TFTable display) => strip_quotes display
  | Some TFOther => Err ParseError
  | None => Err ParseError
  end.

Fixpoint get_order_by_list (l : list (expr * option bool)) : result (list (nexpr * bool)) :=
  match l with
  | [] => Val []
  | (e, asc) :: r =>
      do x <- convert_expr e;
      do xs <- get_order_by_list r;
      Val ((x, negb (match asc with Some b => b | None => true end)) :: xs)
  end.

Definition get_order_by (o : option (list (expr * option bool))) : result (list (nexpr * bool)) :=
  match o with
  | Some l => get_order_by_list l
  | None => Val []
  end.

Definition get_limit (l : option expr) : result N :=
  match l with
  | Some (EValue (VNumber text _)) =>
      match parse_u64 text with
      | Some v => Val v
      | None => Err ParseError       (* "Invalid LIMIT: expected an unsigned integer" *)
      end
  | None => Val u64_max
  | Some _ => Err NotImplemented
  end.

Definition get_offset (o : option expr) : result N :=
  match o with
  | None => Val 0
  | Some (EValue (VNumber text _)) =>
      match parse_u64 text with
      | Some v => Val v
      | None => Err ParseError       (* "Invalid OFFSET: expected an unsigned integer" *)
      end
  | Some _ => Err ParseError
  end.

Definition parse_query (p : parsed) : result query :=
  match p with
  | PParserError => Err ParseError
  | POtherError => Err Fatal
  | POk stmts =>
      if Nat.ltb 1 (length stmts) then Err ParseError
      else
        match stmts with
        | [] => Err ParseError       (* "Empty query." *)
        | StOther :: _ => Err ParseError
        | StQuery b ob lc :: _ =>
            do c <- get_query_components b ob lc;
            do projection <- get_projection (c_projection c);
            do table <- get_table_name (c_relation c);
            do filter <- match c_selection c with
                         | Some s => convert_expr s
                         | None => Val (Const (RInt 1))
                         end;
            do order <- get_order_by (c_order_by c);
            do limit <- get_limit (c_limit c);
            do offset <- get_offset (c_offset c);
            Val {| q_select := projection; q_table := table; q_filter := filter;
                   q_order_by := order; q_limit := limit; q_offset := offset |}
        end
  end.

(* the output column names of a successfully converted query (QueryTask::new: output_colnames) *)
Definition output_names (q : query) : list bytes := map ci_name (q_select q).

(* ------------------------------------------------------------------------------------------- *)
(* Query::normalize / extract_aggregators / ensure_no_aggregates (src/engine/planning/query.rs) *)
(* ------------------------------------------------------------------------------------------- *)

Record normal_form := {
  nf_projection : list column_info;
  nf_aggregate : list (aggregator * column_info);
  nf_filter : nexpr;
  nf_order_by : list (nexpr * bool);
  nf_limit : N;
  nf_offset : N }.

Inductive result_column := Proj (i : nat) | Agg (i : nat).

(* format!("{}", n) for a usize *)
Fixpoint uint_bytes (d : Decimal.uint) : bytes :=
  match d with
  | Decimal.Nil => []
  | Decimal.D0 r => 48 :: uint_bytes r
  | Decimal.D1 r => 49 :: uint_bytes r
  | Decimal.D2 r => 50 :: uint_bytes r
  | Decimal.D3 r => 51 :: uint_bytes r
  | Decimal.D4 r => 52 :: uint_bytes r
  | Decimal.D5 r => 53 :: uint_bytes r
  | Decimal.D6 r => 54 :: uint_bytes r
  | Decimal.D7 r => 55 :: uint_bytes r
  | Decimal.D8 r => 56 :: uint_bytes r
  | Decimal.D9 r => 57 :: uint_bytes r
  end.
Definition nat_dec (n : nat) : bytes := uint_bytes (Nat.to_uint n).

Definition cs_name (k : nat) : bytes := [95; 99; 115] ++ nat_dec k.   (* _cs{k} *)
Definition ca_name (k : nat) : bytes := [95; 99; 97] ++ nat_dec k.    (* _ca{k} *)
(* INTERMEDIARY_COL *)
Definition intermediary_col : bytes := [73; 78; 84; 69; 82; 77; 69; 68; 73; 65; 82; 89; 95; 67; 79; 76].

Fixpoint has_aggregate (e : nexpr) : bool :=
  match e with
  | Aggregate _ _ => true
  | Func1 _ x => has_aggregate x
  | Func2 _ x y => has_aggregate x || has_aggregate y
  | Const _ | ColName _ => false
  end.

(* returns the rewritten expression, the extracted aggregates and the new length of column_names *)
Fixpoint extract_aggregators (e : nexpr) (k : nat) (alias : bytes)
  : result (nexpr * list (aggregator * column_info) * nat) :=
  match e with
  | Aggregate a x =>
      if has_aggregate x then Err TypeError     (* ensure_no_aggregates: "Nested aggregates found." *)
      else Val (ColName (ca_name k), [(a, {| ci_expr := x; ci_name := alias |})], S k)
  | Func1 f x =>
      do r <- extract_aggregators x k alias;
      let '(x', ags, k') := r in Val (Func1 f x', ags, k')
  | Func2 f x y =>
      do r1 <- extract_aggregators x k alias;
      let '(x', a1, k1) := r1 in
      do r2 <- extract_aggregators y k1 alias;
      let '(y', a2, k2) := r2 in Val (Func2 f x' y', a1 ++ a2, k2)
  | Const _ | ColName _ => Val (e, [], k)
  end.

Record nstate := {
  ns_final_projection : list column_info;
  ns_select : list column_info;
  ns_aggregate : list (aggregator * column_info);
  ns_kagg : nat;              (* aggregate_colnames.len() *)
  ns_ksel : nat;              (* select_colnames.len() *)
  ns_ordering : list result_column }.

Definition nstate0 : nstate :=
  {| ns_final_projection := []; ns_select := []; ns_aggregate := []; ns_kagg := 0; ns_ksel := 0;
     ns_ordering := [] |}.

Definition normalize_item (st : nstate) (c : column_info) : result nstate :=
  do r <- extract_aggregators (ci_expr c) (ns_kagg st) (ci_name c);
  let '(full, ags, k') := r in
  match ags with
  | [] =>
      Val {| ns_final_projection :=
               ns_final_projection st ++ [{| ci_expr := ColName (cs_name (ns_ksel st)); ci_name := ci_name c |}];
             ns_select := ns_select st ++ [{| ci_expr := full; ci_name := ci_name c |}];
             ns_aggregate := ns_aggregate st;
             ns_kagg := k';
             ns_ksel := S (ns_ksel st);
             ns_ordering := ns_ordering st ++ [Proj (length (ns_select st))] |}
  | _ =>
      Val {| ns_final_projection := ns_final_projection st ++ [{| ci_expr := full; ci_name := ci_name c |}];
             ns_select := ns_select st;
             ns_aggregate := ns_aggregate st ++ ags;
             ns_kagg := k';
             ns_ksel := ns_ksel st;
             ns_ordering := ns_ordering st ++ [Agg (length (ns_aggregate st))] |}
  end.

Fixpoint normalize_items (st : nstate) (l : list column_info) : result nstate :=
  match l with
  | [] => Val st
  | c :: r => do st' <- normalize_item st c; normalize_items st' r
  end.

(* the order-by loop of the final-pass branch: state + accumulated final_order_by *)
Definition normalize_order_item (acc : nstate * list (nexpr * bool)) (o : nexpr * bool)
  : result (nstate * list (nexpr * bool)) :=
  let '(st, fob) := acc in
  let '(e, desc) := o in
  do r <- extract_aggregators e (ns_kagg st) intermediary_col;
  let '(full, ags, k') := r in
  match ags with
  | [] =>
      let name := cs_name (ns_ksel st) in
      Val ({| ns_final_projection := ns_final_projection st;
              ns_select := ns_select st ++ [{| ci_expr := full; ci_name := name |}];
              ns_aggregate := ns_aggregate st;
              ns_kagg := k';
              ns_ksel := S (ns_ksel st);
              ns_ordering := ns_ordering st |}, fob ++ [(ColName name, desc)])
  | _ =>
      Val ({| ns_final_projection := ns_final_projection st;
              ns_select := ns_select st;
              ns_aggregate := ns_aggregate st ++ ags;
              ns_kagg := k';
              ns_ksel := ns_ksel st;
              ns_ordering := ns_ordering st |}, fob ++ [(full, desc)])
  end.

Fixpoint normalize_order (acc : nstate * list (nexpr * bool)) (l : list (nexpr * bool))
  : result (nstate * list (nexpr * bool)) :=
  match l with
  | [] => Val acc
  | o :: r => do acc' <- normalize_order_item acc o; normalize_order acc' r
  end.

Definition is_colname (e : nexpr) : bool := match e with ColName _ => true | _ => false end.

Definition is_nil {A} (l : list A) : bool := match l with [] => true | _ => false end.

Definition normalize (q : query) : result (normal_form * option normal_form * list result_column) :=
  do st <- normalize_items nstate0 (q_select q);
  let nontrivial := existsb (fun c => negb (is_colname (ci_expr c))) (ns_final_projection st) in
  let sort_after := negb (is_nil (ns_aggregate st)) && negb (is_nil (q_order_by q)) in
  if sort_after || nontrivial then
    do acc <- normalize_order (st, []) (q_order_by q);
    let '(st', fob) := acc in
    Val ({| nf_projection := ns_select st'; nf_aggregate := ns_aggregate st'; nf_filter := q_filter q;
            nf_order_by := []; nf_limit := u64_max; nf_offset := 0 |},
         Some {| nf_projection := ns_final_projection st'; nf_aggregate := []; nf_filter := Const (RInt 1);
                 nf_order_by := fob; nf_limit := q_limit q; nf_offset := q_offset q |},
         map Proj (seq 0 (length (ns_final_projection st'))))
  else
    Val ({| nf_projection := ns_select st; nf_aggregate := ns_aggregate st; nf_filter := q_filter q;
            nf_order_by := q_order_by q; nf_limit := q_limit q; nf_offset := q_offset q |},
         None, ns_ordering st).

(* parse, then normalise (the path of LocustDB::run_query up to QueryTask::new, select-star aside) *)
Definition parse_and_normalize (p : parsed) :=
  do q <- parse_query p; normalize q.

(* ------------------------------------------------------------------------------------------- *)
(* the output slice of convert_to_output_format                                                 *)
(* ------------------------------------------------------------------------------------------- *)

(* let offset = cmp::min(lo.offset, full_result.len());            (after fix 0df51a0)
   let count = cmp::min(limit, full_result.len() - offset);
   returns (offset, count): the rows [offset, offset + count) of the result *)
Definition output_slice (limit offset len : N) : N * N :=
  let o := N.min offset len in (o, N.min limit (len - o)).

(* limit.saturating_add(offset) in NormalFormQuery::run and QueryTask::combined_limit *)
Definition combined_limit (limit offset : N) : N := N.min (limit + offset) u64_max.
