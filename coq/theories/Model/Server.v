(* Model of the response encoders of src/server/mod.rs: encode_column (type-signature dispatch for
   Mixed columns) and the JSON cell rendering, and of the client's reading of an api::Column.
   Floats are 64-bit patterns.  The XOR float coder is Model/XorFloat.v. *)
From Coq Require Import ZArith NArith List Bool.
From LV Require Import Model.XorFloat.
Import ListNotations.

Inductive value :=
| RInt (i : Z)
| RFloat (bits : N)
| RStr (s : list N)
| RNull.

Inductive basic_column :=
| BInt (xs : list Z)
| BFloat (xs : list N)
| BString (xs : list (list N))
| BNull (n : N)
| BMixed (xs : list value).

Inductive api_column :=
| AInt (xs : list Z)
| AFloat (xs : list N)
| AString (xs : list (list N))
| ANull (n : N)
| AMixed (xs : list value)
| AXor (bytes : option (list N)).     (* None: the encoder panicked *)

Definition null_nan : N := 9221870836978985642.    (* 0x7ffaaaaaaaaaaaaa, xor_float::NULL *)

Record encoding_opts := { xor_float_compression : bool; mantissa : option N }.

Definition sig_bit (v : value) : N :=
  match v with RInt _ => 1 | RStr _ => 2 | RNull => 4 | RFloat _ => 8 end.

Definition type_signature (xs : list value) : N :=
  fold_left (fun acc v => N.lor acc (sig_bit v)) xs 0%N.

Definition encode_floats (o : encoding_opts) (fs : list N) : api_column :=
  if xor_float_compression o then AXor (encode_bytes (mantissa o) 100 fs) else AFloat fs.

(* encode_column; the `unreachable!()` arms are modelled by returning the value unchanged in a
   Mixed column so that reaching one shows up as a disagreement *)
Definition encode_column (o : encoding_opts) (c : basic_column) : api_column :=
  match c with
  | BInt xs => AInt xs
  | BFloat xs => encode_floats o xs
  | BString xs => AString xs
  | BNull n => ANull n
  | BMixed xs =>
      let s := type_signature xs in
      if N.eqb s 2 then AString (flat_map (fun v => match v with RStr x => [x] | _ => [] end) xs)
      else if N.eqb s 1 then AInt (flat_map (fun v => match v with RInt x => [x] | _ => [] end) xs)
      else if N.eqb s 4 then ANull (N.of_nat (length xs))
      else if N.eqb s 8 || N.eqb s 12 then
        encode_floats o (flat_map (fun v => match v with RFloat f => [f] | RNull => [null_nan] | _ => [] end) xs)
      else AMixed xs
  end.

(* what a client reads out of a response column: one value per row; the reserved NaN in a float
   column stands for NULL *)
Definition float_cell (f : N) : value := if N.eqb f null_nan then RNull else RFloat f.

(* the reserved NaN reads as NULL wherever a float may appear *)
Definition canon (v : value) : value := match v with RFloat f => float_cell f | _ => v end.

Definition client_cells (c : api_column) : option (list value) :=
  match c with
  | AInt xs => Some (map RInt xs)
  | AFloat xs => Some (map float_cell xs)
  | AString xs => Some (map RStr xs)
  | ANull n => Some (repeat RNull (N.to_nat n))
  | AMixed xs => Some (map canon xs)
  | AXor None => None
  | AXor (Some bytes) =>
      match decode_bytes bytes with
      | None => None
      | Some fs => Some (map float_cell fs)
      end
  end.

(* the embedded result's cells *)
Definition basic_cells (c : basic_column) : list value :=
  match c with
  | BInt xs => map RInt xs
  | BFloat xs => map float_cell xs
  | BString xs => map RStr xs
  | BNull n => repeat RNull (N.to_nat n)
  | BMixed xs => map canon xs
  end.
