(* The persistence protocol at the granularity of primitive file-system effects, and recovery
   from the directory as it is after any prefix of them (process death at any instant).
   FileBlobWriter::store = create temp, write, sync, rename; ::delete = remove
   (src/disk_store/file_writer.rs); Storage::recover lists wal/, keeps the files called
   <u64>.wal as segments and removes every other file (src/disk_store/storage.rs, since commit
   4e8886f).  Executable definitions only.

   What is kept of the effects is what a later recovery can tell apart:
   - the temp file of a partition file (tables/<t>/<id>_<key>..INCOMPLETE) and of the catalogue
     file (meta..INCOMPLETE) is never read by anything, so their create / write / sync steps leave
     the directory, as far as recovery goes, where it was: only the rename is an effect here;
   - the temp file of a log segment (wal/<id>..INCOMPLETE) lives in the directory recovery lists:
     created or partially written it is [TmpPartial], completely written [TmpWhole]; sync changes
     nothing a reader sees.  Recovery does not read it, but it removes it, and that removal is one
     of recovery's own effects;
   - power-loss reordering is not modelled (effects reach the disk in program order).
   A crash state is a [cdisk]: the durable fields of a [db] (t_files, t_meta of every table,
   d_cursor, d_wal) plus the log temp file; the volatile fields are ignored by recovery. *)
From Coq Require Import NArith ZArith List Bool.
From LV Require Import Model.TableSM Model.Catalogue Model.WalSM.
Import ListNotations.
Open Scope N_scope.

Inductive tmpseg :=
| TmpPartial                          (* created, or a strict prefix of the bytes written *)
| TmpWhole (id : N) (sg : segment).   (* all bytes written (synced or not), not yet renamed *)

Record cdisk := { cd_db : db; cd_tmp : option tmpseg }.

Definition with_wal (s : db) (w : list (N * segment)) : db :=
  {| tabs := tabs s; next_wal := next_wal s; earliest := earliest s; wal_size := wal_size s;
     d_cursor := d_cursor s; d_wal := w; acked := acked s |}.

Definition with_tabs (s : db) (l : list (name * tstate)) : db :=
  {| tabs := l; next_wal := next_wal s; earliest := earliest s; wal_size := wal_size s;
     d_cursor := d_cursor s; d_wal := d_wal s; acked := acked s |}.

Definition with_cursor (s : db) (k : N) : db :=
  {| tabs := tabs s; next_wal := next_wal s; earliest := earliest s; wal_size := wal_size s;
     d_cursor := Some k; d_wal := d_wal s; acked := acked s |}.

(* InnerLocustDB::new on the directory [d].  The log temp file is not a segment: it is not read.

   History (finding F8, fixed by 4e8886f).  Until 4e8886f Storage::recover loaded every file of
   wal/: a partially written temp file failed the envelope check and LocustDB::new did not return
   a database (it waited forever on rx.iter().take(n) until b430922, panicked with "Failed to load
   WAL segment <path>" after), and a completely written one was replayed like a segment.  The
   model then was
     recover_c c d = match cd_tmp d with
                     | Some TmpPartial => RFail
                     | Some (TmpWhole id sg) => ROut (recover c (with_wal (cd_db d) (d_wal (cd_db d) ++ [(id, sg)])))
                     | None => ROut (recover c (cd_db d)) end
   and the theorems were C09_ingest_cuts "recovery fails exactly at cut 1" and
   C09_recoverable_refuted. *)
Definition recover_c (c : cfg) (d : cdisk) : res db := recover c (cd_db d).

(* ---------------------------------------------------------------------------------------------- *)
(* effects *)

Inductive eff :=
| EWalTmpCreate (id : N)
| EWalTmpWrite (id : N) (sg : segment)
| EWalRename (id : N) (sg : segment)
| EWalTmpRemove                           (* recovery's removal of a leftover wal/<id>..INCOMPLETE *)
| EPartStore (n : name) (id : N) (rows : list row)
| EMetaStore (cursor : N) (metas : list (name * list pmeta))
| EPartRemove (n : name) (id : N)
| EWalRemove (id : N).

Definition set_tfiles (t : tstate) (fs : list (N * list row)) : tstate :=
  {| t_buf := t_buf t; t_frozen := t_frozen t; t_parts := t_parts t; t_next_id := t_next_id t;
     t_next_off := t_next_off t; t_cols := t_cols t; t_files := fs; t_meta := t_meta t;
     t_dead := t_dead t |}.

Definition set_tmeta (t : tstate) (ms : list pmeta) : tstate :=
  {| t_buf := t_buf t; t_frozen := t_frozen t; t_parts := t_parts t; t_next_id := t_next_id t;
     t_next_off := t_next_off t; t_cols := t_cols t; t_files := t_files t; t_meta := ms;
     t_dead := t_dead t |}.

Fixpoint metas_for (n : name) (ms : list (name * list pmeta)) : list pmeta :=
  match ms with
  | [] => []
  | (k, v) :: r => if name_eqb n k then v else metas_for n r
  end.

Definition apply_eff (d : cdisk) (e : eff) : cdisk :=
  let s := cd_db d in
  match e with
  | EWalTmpCreate _ => {| cd_db := s; cd_tmp := Some TmpPartial |}
  | EWalTmpWrite id sg => {| cd_db := s; cd_tmp := Some (TmpWhole id sg) |}
  | EWalRename id sg => {| cd_db := with_wal s (d_wal s ++ [(id, sg)]); cd_tmp := None |}
  | EWalTmpRemove => {| cd_db := s; cd_tmp := None |}
  | EPartStore n id rows =>
      match lookup n (tabs s) with
      | Some t => {| cd_db := with_tabs s (upd n (set_tfiles t (store_file id rows (t_files t))) (tabs s));
                     cd_tmp := cd_tmp d |}
      | None => d
      end
  | EMetaStore k ms =>
      {| cd_db := with_cursor
                    (with_tabs s (map (fun nt => (fst nt, set_tmeta (snd nt) (metas_for (fst nt) ms))) (tabs s))) k;
         cd_tmp := cd_tmp d |}
  | EPartRemove n id =>
      match lookup n (tabs s) with
      | Some t => {| cd_db := with_tabs s (upd n (set_tfiles t (remove_file id (t_files t))) (tabs s));
                     cd_tmp := cd_tmp d |}
      | None => d
      end
  | EWalRemove id =>
      {| cd_db := with_wal s (filter (fun x => negb (fst x =? id)) (d_wal s)); cd_tmp := cd_tmp d |}
  end.

Definition apply_effs (d : cdisk) (es : list eff) : cdisk := fold_left apply_eff es d.

(* the directory as it is after the first k effects *)
Definition cut (d : cdisk) (es : list eff) (k : nat) : cdisk := apply_effs d (firstn k es).

(* ---------------------------------------------------------------------------------------------- *)
(* the effects of the operations, from a state at rest *)

Definition at_rest (s : db) : cdisk := {| cd_db := s; cd_tmp := None |}.

(* ingestion: persist_wal_segment stores wal/<next_wal>.wal; [full] is the event buffer with the
   catalogue rows *)
Definition ingest_effects (id : N) (bytes : N) (full : batch) : list eff :=
  let sg := {| sg_bytes := bytes; sg_data := full |} in
  [EWalTmpCreate id; EWalTmpWrite id sg; EWalRename id sg].

(* flush, given the table map [l1] after batching and compaction (flush_mid): the partition files
   written by persist_partitions / prepare_compact, then the catalogue file, then the removals *)
Definition added_files (t1 : tstate) : list (N * list row) :=
  skipn (length (t_meta t1)) (t_files t1).

Definition part_stores (l1 : list (name * tstate)) : list eff :=
  flat_map (fun nt => map (fun f => EPartStore (fst nt) (fst f) (snd f)) (added_files (snd nt))) l1.

Definition new_metas (l1 : list (name * tstate)) : list (name * list pmeta) :=
  map (fun nt => (fst nt, map pmeta_of (t_parts (snd nt)))) l1.

Definition part_removes (l1 : list (name * tstate)) : list eff :=
  flat_map (fun nt => map (EPartRemove (fst nt)) (t_dead (snd nt))) l1.

Fixpoint seq_ids (a : N) (k : nat) : list N :=
  match k with O => [] | S k' => a :: seq_ids (a + 1) k' end.

Definition wal_removes (lo hi : N) : list eff := map EWalRemove (seq_ids lo (N.to_nat (hi - lo))).

Definition flush_effects (s : db) (l1 : list (name * tstate)) : list eff :=
  part_stores l1 ++ [EMetaStore (next_wal s) (new_metas l1)] ++ part_removes l1
  ++ wal_removes (earliest s) (next_wal s).

(* recovery's own effects: the removal of the segments below the cursor ... *)
Definition recover_effects (s : db) : list eff :=
  let cursor := match d_cursor s with Some k => k | None => 0 end in
  map (fun x => EWalRemove (fst x)) (filter (fun x => fst x <? cursor) (d_wal s)).

(* ... preceded, on a directory a crash left behind, by the removal of the log temp file *)
Definition recover_effects_c (d : cdisk) : list eff :=
  match cd_tmp d with Some _ => [EWalTmpRemove] | None => [] end ++ recover_effects (cd_db d).

(* classification used by the ordering statement *)
Definition is_part_store (e : eff) : bool := match e with EPartStore _ _ _ => true | _ => false end.
Definition is_remove (e : eff) : bool :=
  match e with EPartRemove _ _ => true | EWalRemove _ => true | EWalTmpRemove => true | _ => false end.

(* ---------------------------------------------------------------------------------------------- *)
(* the effects of a whole history (for the effect-trace correspondence) *)

Definition last_batch (s : db) : batch := match rev (acked s) with x :: _ => x | [] => [] end.

Definition op_effects (c : cfg) (s : db) (o : op) : list eff :=
  match o with
  | OIngest b bytes =>
      match ingest c b bytes s with
      | Val s' => ingest_effects (next_wal s) bytes (last_batch s')
      | _ => []
      end
  | OFlush _ orc =>
      match flush_mid false c orc s with
      | Val l1 => flush_effects s l1
      | _ => []
      end
  | OEvict => []
  | ORestart => recover_effects s
  end.

Fixpoint run_effects (c : cfg) (ops : list op) (s : db) : list (list eff) :=
  match ops with
  | [] => []
  | o :: rest =>
      op_effects c s o ::
      match step false c s o with
      | Val s' => run_effects c rest s'
      | _ => []
      end
  end.
