(* Model of file naming and column routing:
     src/disk_store/storage.rs      sanitize_table_name, partition_filename
     src/scheduler/inner_locustdb.rs subpartition, is_filesystem_safe
     src/disk_store/meta_store.rs   PartitionMetadata::subpartition_key (BTreeMap lower_bound)
   A string is the list of its Unicode scalar values (N); Rust's str ordering (bytewise on UTF-8)
   coincides with lexicographic order on scalar values.  Unicode tables and sha256 are parameters. *)
From Coq Require Import NArith List Bool Ascii.
Import ListNotations.
Open Scope N_scope.

Definition str := list N.

Fixpoint lex_cmp (a b : str) : comparison :=
  match a, b with
  | [], [] => Eq
  | [], _ :: _ => Lt
  | _ :: _, [] => Gt
  | x :: a', y :: b' =>
      match N.compare x y with
      | Eq => lex_cmp a' b'
      | c => c
      end
  end.

Definition str_ltb (a b : str) : bool := match lex_cmp a b with Lt => true | _ => false end.
Definition str_leb (a b : str) : bool := match lex_cmp a b with Gt => false | _ => true end.
Definition str_eqb (a b : str) : bool := match lex_cmp a b with Eq => true | _ => false end.

(* ---------- characters ---------- *)
Definition c_dash : N := 45.       (* '-' *)
Definition c_dot : N := 46.        (* '.' *)
Definition c_slash : N := 47.      (* '/' *)
Definition c_underscore : N := 95. (* '_' *)

Definition is_ascii_alnum (c : N) : bool :=
  ((48 <=? c) && (c <=? 57)) || ((65 <=? c) && (c <=? 90)) || ((97 <=? c) && (c <=? 122)).

Definition hex_digit (n : N) : N := if n <? 10 then 48 + n else 87 + n.   (* 0-9a-f *)

(* format!("{:x}", digest): two lowercase hex digits per byte *)
Fixpoint hex (bytes : list N) : str :=
  match bytes with
  | [] => []
  | b :: r => hex_digit (b / 16) :: hex_digit (b mod 16) :: hex r
  end.

(* decimal digits of n, most significant first (fuel = number of digits to try) *)
Fixpoint dec_digits (fuel : nat) (n : N) (acc : str) : str :=
  match fuel with
  | O => acc
  | S f => if n <? 10 then (48 + n) :: acc else dec_digits f (n / 10) ((48 + n mod 10) :: acc)
  end.
Definition decimal (n : N) : str := dec_digits 25 n [].

Fixpoint pad0 (k : nat) (s : str) : str :=
  match k with O => s | S k' => 48 :: pad0 k' s end.

(* format!("{:05}", id) *)
Definition fmt05 (id : N) : str :=
  let d := decimal id in pad0 (5 - length d) d.

(* format!("{:05}_{}.part", id, key) *)
Definition partition_filename (id : N) (key : str) : str :=
  fmt05 id ++ [c_underscore] ++ key ++ [46; 112; 97; 114; 116].

Section WithTables.
  (* Unicode: char::is_alphanumeric, char::is_lowercase, str::to_lowercase; sha256 *)
  Variable u_alnum : N -> bool.
  Variable u_lower : N -> bool.
  Variable to_lowercase : str -> str.
  Variable utf8_len : str -> N.          (* str::len() in bytes *)
  Variable sha256 : str -> list N.       (* digest of the UTF-8 bytes, 32 bytes *)

  (* is_filesystem_safe *)
  Definition is_filesystem_safe (name : str) : bool :=
    (utf8_len name <=? 64) &&
    forallb (fun c => (u_alnum c && u_lower c) || (c =? c_underscore)) name.

  Fixpoint trim_start (s : str) : str :=
    match s with
    | c :: r => if (c =? c_dash) || (c =? c_dot) then trim_start r else s
    | [] => []
    end.

  (* sanitize_table_name; after `retain` the string is ASCII so byte slicing [..189] is char slicing *)
  Definition sanitize_table_name (table : str) : str :=
    let name := to_lowercase table in
    let name := filter (fun c => is_ascii_alnum c || (c =? c_underscore) || (c =? c_dash) || (c =? c_dot)) name in
    let name := trim_start name in
    let name := if Nat.ltb 189 (length name) then firstn 189 name else name in
    if str_eqb name table then name
    else [c_dash] ++ name ++ [c_dash] ++ hex (sha256 table).

  (* ---------- subpartition: columns (name, size) -> groups ---------- *)
  Definition col := (str * N)%type.

  Fixpoint insert_sorted (c : col) (l : list col) : list col :=
    match l with
    | [] => [c]
    | d :: r => if str_leb (fst c) (fst d) then c :: l else d :: insert_sorted c r
    end.
  Definition sort_cols (l : list col) : list col := fold_right insert_sorted [] l.

  (* the greedy loop: acc = current group (reversed), bytes; returns groups in order *)
  Fixpoint group_loop (max_bytes : N) (cols : list col) (cur : list col) (bytes : N)
    : list (list col * N) :=
    match cols with
    | [] => [(rev cur, bytes)]
    | c :: r =>
        if (max_bytes <? bytes + snd c) && negb (match cur with [] => true | _ => false end)
        then (rev cur, bytes) :: group_loop max_bytes r [c] (snd c)
        else group_loop max_bytes r (c :: cur) (bytes + snd c)
    end.

  Record subpart := { sp_key : str; sp_last : str; sp_size : N; sp_cols : list str }.

  Definition last_name (g : list col) : str := fst (last g ([], 0)).

  Definition max_name (cols : list col) : str :=
    fold_left (fun acc c => if str_ltb acc (fst c) then fst c else acc) cols [].

  Definition subpartition (max_bytes : N) (columns : list col) : list subpart :=
    let sorted := sort_cols columns in
    let groups := group_loop max_bytes sorted [] 0 in
    match groups with
    | [(g, size)] =>
        [{| sp_key := [97; 108; 108]; sp_last := max_name sorted; sp_size := size;
            sp_cols := map fst g |}]
    | _ =>
        map (fun gs =>
               let last := last_name (fst gs) in
               {| sp_key := if is_filesystem_safe last then last else hex (sha256 last);
                  sp_last := last; sp_size := snd gs; sp_cols := map fst (fst gs) |}) groups
    end.

  (* BTreeMap<last_column, index>::lower_bound(Included(name)).peek_next(): the entry with the
     smallest key >= name.  Inserting a duplicate key overwrites (later index wins). *)
  Fixpoint route_scan (name : str) (subs : list subpart) (idx : N) (best : option (str * N))
    : option (str * N) :=
    match subs with
    | [] => best
    | s :: r =>
        let best' :=
          if str_leb name (sp_last s) then
            match best with
            | None => Some (sp_last s, idx)
            | Some (k, _) => if str_leb (sp_last s) k then Some (sp_last s, idx) else best
            end
          else best in
        route_scan name r (idx + 1) best'
    end.

  Definition route (subs : list subpart) (name : str) : option N :=
    match route_scan name subs 0 None with
    | None => None
    | Some (_, i) => Some i
    end.

  Definition route_key (subs : list subpart) (name : str) : option str :=
    match route subs name with
    | None => None
    | Some i => match nth_error subs (N.to_nat i) with
                | Some s => Some (sp_key s)
                | None => None
                end
    end.
End WithTables.
