(* Model of one table of the persistence state machine: src/mem_store/table.rs (Table), the part of
   src/scheduler/inner_locustdb.rs that works on a single table during a WAL flush
   (flush_table_buffer, compact), src/disk_store/storage.rs (write_subpartitions, prepare_compact,
   delete_orphaned_partitions) and the per-table part of Table::restore_tables_from_disk.
   Executable definitions only; proofs live in Proofs/TableSM*.v.

   Abstractions (stated in the check's CLAIMED text):
   - a row is an association list column name -> cell; a column the row does not mention reads NULL.
     Column encodings (src/mem_store/column*.rs) are another model's business; what is kept here of
     the compaction rebuild (InnerLocustDB::compact -> column::decode -> ColumnBuffer::push_* ->
     finalize) is (1) it iterates over Table.column_names, so a column outside that set is dropped,
     and (2) finding F1: a column that is NULL in some but not all rows of a merged partition loses
     its null map (ColumnBuffer::push_present ignores the supplied map while it has none; the free
     decoder forgets the map after ToI64/Add) and the NULL cells come back as the type's filler.
   - a partition is one file (sub-partitions, i.e. the split of a partition's columns over several
     files by max_partition_size_bytes, are not modelled; the correspondence compares partitions).
   - the partitions of a table are kept in offset order (the code keeps a HashMap and sorts by
     range().start where order matters: Table::plan_compaction).
   - per-table durable state (the files in tables/<name>/ and the table's entries in the catalogue
     file) is stored next to the volatile state of the table; the catalogue file as a whole is
     replaced atomically by a flush (see WalSM / CrashSM). *)
From Coq Require Import NArith ZArith List Bool.
Import ListNotations.
Open Scope N_scope.

(* ---------------------------------------------------------------------------------------------- *)
(* names, cells, rows *)

Definition name := list N.                      (* UTF-8 bytes *)

Fixpoint name_eqb (a b : name) : bool :=
  match a, b with
  | [], [] => true
  | x :: a', y :: b' => (x =? y) && name_eqb a' b'
  | _, _ => false
  end.

Fixpoint mem_name (n : name) (l : list name) : bool :=
  match l with [] => false | x :: r => name_eqb n x || mem_name n r end.

Fixpoint is_prefix (p n : name) : bool :=
  match p, n with
  | [], _ => true
  | x :: p', y :: n' => (x =? y) && is_prefix p' n'
  | _ :: _, [] => false
  end.

Inductive cell := CNull | CInt (z : Z) | CStr (s : list N) | CFloat (bits : N).

Definition is_null (c : cell) : bool := match c with CNull => true | _ => false end.

Definition row := list (name * cell).

Fixpoint get (r : row) (c : name) : cell :=
  match r with
  | [] => CNull
  | (k, v) :: r' => if name_eqb c k then v else get r' c
  end.

(* column names a row mentions *)
Definition row_cols (r : row) : list name := map fst r.

(* ---------------------------------------------------------------------------------------------- *)
(* partitions, per-table state *)

Record part := { p_id : N; p_off : N; p_size : N; p_rows : list row }.

Definition p_len (p : part) : N := N.of_nat (length (p_rows p)).

(* PartitionMetadata as written to the catalogue file *)
Record pmeta := { pm_id : N; pm_off : N; pm_len : N; pm_size : N }.

Definition pmeta_of (p : part) : pmeta :=
  {| pm_id := p_id p; pm_off := p_off p; pm_len := p_len p; pm_size := p_size p |}.

Definition file_of (p : part) : N * list row := (p_id p, p_rows p).

Record tstate := {
  (* volatile: Table *)
  t_buf : list row;                 (* buffer *)
  t_frozen : list row;              (* frozen_buffer *)
  t_parts : list part;              (* partitions, offset order *)
  t_next_id : N;                    (* next_partition_id *)
  t_next_off : N;                   (* next_partition_offset *)
  t_cols : option (list name);      (* column_names: None = not loaded since restart *)
  (* durable: directory tables/<name>/ and this table's entries of the catalogue file *)
  t_files : list (N * list row);
  t_meta : list pmeta;
  (* this table's entry of wal_flush's partitions_to_delete (empty outside a flush) *)
  t_dead : list N
}.

Definition set_buf (t : tstate) (b : list row) : tstate :=
  {| t_buf := b; t_frozen := t_frozen t; t_parts := t_parts t; t_next_id := t_next_id t;
     t_next_off := t_next_off t; t_cols := t_cols t; t_files := t_files t; t_meta := t_meta t; t_dead := t_dead t |}.

Definition set_cols (t : tstate) (c : option (list name)) : tstate :=
  {| t_buf := t_buf t; t_frozen := t_frozen t; t_parts := t_parts t; t_next_id := t_next_id t;
     t_next_off := t_next_off t; t_cols := c; t_files := t_files t; t_meta := t_meta t; t_dead := t_dead t |}.

(* rows of the table in offset order: partitions, then frozen buffer, then open buffer
   (Table::snapshot) *)
Definition part_rows (ps : list part) : list row := flat_map p_rows ps.

Definition table_content (t : tstate) : list row :=
  part_rows (t_parts t) ++ t_frozen t ++ t_buf t.

(* ---------------------------------------------------------------------------------------------- *)
(* column name sets *)

Fixpoint add_names (s : list name) (l : list name) : list name :=
  match l with
  | [] => s
  | c :: l' => if mem_name c s then add_names s l' else add_names (s ++ [c]) l'
  end.

(* Table::new_column_names *)
Definition new_names (s : list name) (l : list name) : list name :=
  filter (fun c => negb (mem_name c s)) l.

(* Table::ingest_homogeneous: needs column_names loaded; extends the set, appends to the buffer *)
Definition ingest_rows (t : tstate) (cols : list name) (rows : list row) : option tstate :=
  match t_cols t with
  | None => None                    (* panic "column names have not been initialized" *)
  | Some s => Some (set_cols (set_buf t (t_buf t ++ rows)) (Some (add_names s cols)))
  end.

(* Table::freeze_buffer (the assertion "Frozen buffer is not empty" is the None branch) *)
Definition freeze (t : tstate) : option tstate :=
  match t_frozen t with
  | [] => Some {| t_buf := []; t_frozen := t_buf t; t_parts := t_parts t; t_next_id := t_next_id t;
                  t_next_off := t_next_off t; t_cols := t_cols t; t_files := t_files t;
                  t_meta := t_meta t; t_dead := t_dead t |}
  | _ :: _ => None
  end.

(* ---------------------------------------------------------------------------------------------- *)
(* files of one table directory (FileBlobWriter::store replaces atomically; ::delete fails when
   the file is missing) *)

Fixpoint find_file (id : N) (fs : list (N * list row)) : option (list row) :=
  match fs with
  | [] => None
  | (k, v) :: r => if k =? id then Some v else find_file id r
  end.

Definition remove_file (id : N) (fs : list (N * list row)) : list (N * list row) :=
  filter (fun f => negb (fst f =? id)) fs.

Definition store_file (id : N) (rows : list row) (fs : list (N * list row)) : list (N * list row) :=
  remove_file id fs ++ [(id, rows)].

Fixpoint delete_files (ids : list N) (fs : list (N * list row)) : option (list (N * list row)) :=
  match ids with
  | [] => Some fs
  | id :: r => match find_file id fs with
               | None => None            (* remove_file(..).unwrap() on a missing file *)
               | Some _ => delete_files r (remove_file id fs)
               end
  end.

(* ---------------------------------------------------------------------------------------------- *)
(* Table::batch + Storage::persist_partitions for this table: the frozen buffer becomes partition
   next_partition_id at next_partition_offset; its file is written; it is registered in the
   (in-memory) catalogue.  [size] is the oracle for heap_size_of_children of the new columns. *)

Definition batch_table (size : N) (t : tstate) : tstate :=
  match t_frozen t with
  | [] => t
  | rows =>
      let p := {| p_id := t_next_id t; p_off := t_next_off t; p_size := size; p_rows := rows |} in
      {| t_buf := t_buf t; t_frozen := []; t_parts := t_parts t ++ [p];
         t_next_id := t_next_id t + 1; t_next_off := t_next_off t + p_len p;
         t_cols := t_cols t; t_files := store_file (p_id p) rows (t_files t);
         t_meta := t_meta t; t_dead := t_dead t |}
  end.

(* ---------------------------------------------------------------------------------------------- *)
(* Table::plan_compaction: partitions in offset order, cumulative sizes from the end, the first
   index i with size_i * factor < sum_{j >= i} size_j; everything from i on is merged.
   u64 arithmetic: an overflow of the product or the sum is PlanOverflow (a panic in the dev
   profile). *)

Definition u64_lim : N := 18446744073709551616.

Inductive plan_result := PlanNone | PlanFrom (i : nat) | PlanOverflow.

Fixpoint plan_aux (f : N) (ps : list part) : N * plan_result :=
  match ps with
  | [] => (0, PlanNone)
  | p :: rest =>
      let '(tot_rest, best) := plan_aux f rest in
      let tot := p_size p + tot_rest in
      match best with
      | PlanOverflow => (tot, PlanOverflow)
      | _ =>
          if (u64_lim <=? tot) || (u64_lim <=? p_size p * f) then (tot, PlanOverflow)
          else if p_size p * f <? tot then (tot, PlanFrom 0)
          else (tot, match best with PlanFrom i => PlanFrom (S i) | b => b end)
      end
  end.

Definition plan_compaction (f : N) (ps : list part) : plan_result := snd (plan_aux f ps).

(* ---------------------------------------------------------------------------------------------- *)
(* the rebuild of the merged partition's rows *)

(* compaction iterates over column_names: columns outside the set are not carried over *)
Definition restrict (cols : list name) (r : row) : row :=
  filter (fun kv => mem_name (fst kv) cols) r.

Definition cols_complete (cols : list name) (rows : list row) : bool :=
  forallb (fun r => forallb (fun c => mem_name c cols) (row_cols r)) rows.

(* a column is "nullable" in a partition when some of its cells are NULL and some are not *)
Definition col_nullable (rows : list row) (c : name) : bool :=
  existsb (fun r => is_null (get r c)) rows && existsb (fun r => negb (is_null (get r c))) rows.

Definition nullable_cols (cols : list name) (rows : list row) : list name :=
  filter (col_nullable rows) cols.

(* finding F1: what comes back for a NULL cell of a nullable column (IntColBuffer pushes 0,
   StringColBuffer "", FloatColBuffer 0.0 for a NULL slot; for floats the value actually observed
   depends on the column's compression, the model says 0.0 - only integer columns are replayed
   exactly) *)
Fixpoint filler (rows : list row) (c : name) : cell :=
  match rows with
  | [] => CNull
  | r :: rest => match get r c with
                 | CNull => filler rest c
                 | CInt _ => CInt 0
                 | CStr _ => CStr []
                 | CFloat _ => CFloat 0
                 end
  end.

Definition fill_row (rows : list row) (cs : list name) (r : row) : row :=
  fold_left (fun r c => if is_null (get r c) then (c, filler rows c) :: r else r) cs r.

(* the rows of one merged partition after decode + re-push *)
Definition lossy_part_rows (cols : list name) (rows : list row) : list row :=
  match nullable_cols cols rows with
  | [] => rows
  | cs => map (fill_row rows cs) rows
  end.

Definition f1_free (cols : list name) (ps : list part) : bool :=
  forallb (fun p => match nullable_cols cols (p_rows p) with [] => true | _ => false end) ps.

Definition rebuild_rows (cols : list name) (ps : list part) : list row :=
  map (restrict cols) (flat_map (fun p => lossy_part_rows cols (p_rows p)) ps).

(* ---------------------------------------------------------------------------------------------- *)
(* compaction of the partitions from index i on (InnerLocustDB::compact, Table::compact,
   Storage::prepare_compact, then - after the catalogue file is durable -
   Storage::delete_orphaned_partitions).  The id of the merged partition was drawn by
   flush_table_buffer (table.next_partition_id()).  The ids whose files are to be deleted are
   recorded in t_dead. *)

(* the sites at which the guarded run stops instead of executing compaction:
   KF1 - a column that is NULL in every row of one merged partition and not in another (open
         finding F1: the NULLs are not carried over);
   KF3 - the name set compaction iterates over (Table.column_names) does not cover the columns the
         merged rows carry (rows would lose cells).  This was reachable through finding F3 (fixed
         by 647a26b); for histories of well-formed requests it is now proved unreachable
         (Props/C13.v: C13_compaction_carries_all), the guard is kept for arbitrary histories. *)
Inductive known := KF1 | KF3.

Inductive tres (A : Type) :=
| TVal (a : A)
| TKnown (k : known)          (* guarded run only: a known-defect site would be executed *)
| TPanic.                     (* a panic / assertion of the code *)
Arguments TVal {A} a.
Arguments TKnown {A} k.
Arguments TPanic {A}.

Definition compact (guard : bool) (size : N) (i : nat) (cols : list name) (t : tstate)
  : tres tstate :=
  let keep := firstn i (t_parts t) in
  let merged := skipn i (t_parts t) in
  match merged with
  | [] => TPanic                                  (* by_offset[i] out of range *)
  | first :: _ =>
      if guard && negb (cols_complete cols (part_rows merged)) then TKnown KF3
      else if guard && negb (f1_free cols merged) then TKnown KF1
      else
        let rows := rebuild_rows cols merged in
        let p := {| p_id := t_next_id t; p_off := p_off first; p_size := size; p_rows := rows |} in
        TVal {| t_buf := t_buf t; t_frozen := t_frozen t; t_parts := keep ++ [p];
                t_next_id := t_next_id t + 1; t_next_off := t_next_off t; t_cols := t_cols t;
                t_files := store_file (p_id p) rows (t_files t); t_meta := t_meta t;
                t_dead := t_dead t ++ map p_id merged |}
  end.

(* the table's part of Storage::persist_metastore: the catalogue file now lists the current
   partitions *)
Definition publish_meta (t : tstate) : tstate :=
  {| t_buf := t_buf t; t_frozen := t_frozen t; t_parts := t_parts t; t_next_id := t_next_id t;
     t_next_off := t_next_off t; t_cols := t_cols t; t_files := t_files t;
     t_meta := map pmeta_of (t_parts t); t_dead := t_dead t |}.

(* the table's part of Storage::delete_orphaned_partitions *)
Definition delete_dead (t : tstate) : option tstate :=
  match delete_files (t_dead t) (t_files t) with
  | None => None
  | Some fs =>
      Some {| t_buf := t_buf t; t_frozen := t_frozen t; t_parts := t_parts t;
              t_next_id := t_next_id t; t_next_off := t_next_off t; t_cols := t_cols t;
              t_files := fs; t_meta := t_meta t; t_dead := [] |}
  end.

(* ---------------------------------------------------------------------------------------------- *)
(* restart: Table::restore_tables_from_disk for one table (insert_nonresident_partition for every
   catalogue entry; columns are loaded from the partition files when first read - here eagerly, a
   missing file is the panic of Storage::load_column's unwrap) *)

Fixpoint restore_parts (ms : list pmeta) (fs : list (N * list row)) : option (list part) :=
  match ms with
  | [] => Some []
  | m :: r =>
      match find_file (pm_id m) fs, restore_parts r fs with
      | Some rows, Some ps =>
          Some ({| p_id := pm_id m; p_off := pm_off m; p_size := pm_size m; p_rows := rows |} :: ps)
      | _, _ => None
      end
  end.

Definition max_next_id (ms : list pmeta) : N := fold_left (fun a m => N.max a (pm_id m + 1)) ms 0.
Definition max_next_off (ms : list pmeta) : N :=
  fold_left (fun a m => N.max a (pm_off m + pm_len m)) ms 0.

Definition restore (cols0 : option (list name)) (t : tstate) : option tstate :=
  match restore_parts (t_meta t) (t_files t) with
  | None => None
  | Some ps =>
      Some {| t_buf := []; t_frozen := []; t_parts := ps;
              t_next_id := max_next_id (t_meta t); t_next_off := max_next_off (t_meta t);
              t_cols := cols0; t_files := t_files t; t_meta := t_meta t; t_dead := t_dead t |}
  end.

Definition empty_table (cols0 : option (list name)) : tstate :=
  {| t_buf := []; t_frozen := []; t_parts := []; t_next_id := 0; t_next_off := 0; t_cols := cols0;
     t_files := []; t_meta := []; t_dead := [] |}.
