(* Model of the query-path decoder: the stack machine of Codec::decode_ops
   (src/mem_store/codec.rs) with whole-vector semantics for the operators it plans
   (engine/operators/{assemble_nullable, delta_decode, dict_lookup, unpack_strings,
   unhexpack_strings}.rs, the `add` with a scalar and the cast to i64), and the view of the final
   buffer as a list of cells.  The lz4/pco operators are not modelled: columns are decoded from
   their uncompressed sections (see Proofs/Codec.v for the compression section).
   Executable definitions only. *)
From Coq Require Import ZArith List Bool.
From LV Require Import Model.CodecBase.
Import ListNotations.
Open Scope Z_scope.

(* a decoded buffer *)
Inductive dvec :=
| DInts (t : etype) (l : list Z)
| DF64 (l : list Z)
| DStr (l : list (list Z))
| DNullV (n : Z)
| DBits (l : list Z).

(* a stack entry: plain or with a null map (Nullable<T> buffers of the engine) *)
Inductive sval := Plain (d : dvec) | WithNulls (d : dvec) (present : list Z).

Definition of_section (s : section) : sval :=
  match s with
  | SInts t l => Plain (DInts t l)
  | SF64 l => Plain (DF64 l)
  | SNull n => Plain (DNullV n)
  | SBitvec l => Plain (DBits l)
  end.

(* ---------------------------------------------------------------------------------------------- *)
(* operators *)

(* DeltaDecode: current = e + previous, starting from previous = 0 *)
Fixpoint delta_decode (prev : Z) (es : list Z) : result (list Z) :=
  match es with
  | [] => Val []
  | e :: r => do c <- add64 e prev ; do cs <- delta_decode c r ; Val (c :: cs)
  end.

Definition add_all (x : Z) (l : list Z) : result (list Z) := mapM (fun v => add64 v x) l.

(* IndexedPackedStrings entry: offset in the upper 40 bits, length in the lower 24 *)
Definition slice {A} (l : list A) (off len : Z) : result (list A) :=
  let r := skipn (Z.to_nat off) l in
  if Z.of_nat (length r) <? len then Panic OutOfBounds else Val (firstn (Z.to_nat len) r).

Definition dict_entry (ranges : list Z) (store : list Z) (i : Z) : result (list Z) :=
  match nth_error ranges (Z.to_nat i) with
  | None => Panic OutOfBounds
  | Some e => slice store (Z.shiftr e 24) (Z.land e 16777215)
  end.

Definition dict_lookup (indices ranges store : list Z) : result (list (list Z)) :=
  mapM (dict_entry ranges store) indices.

(* StringPackerIterator / PackedBytesIterator: length = 255 * (number of leading 255 bytes) + next byte *)
Fixpoint read_len (acc : Z) (d : list Z) : result (Z * list Z) :=
  match d with
  | [] => Panic OutOfBounds
  | b :: r => if b =? 255 then read_len (acc + 255) r else Val (acc + b, r)
  end.

Fixpoint unpack (fuel : nat) (d : list Z) : result (list (list Z)) :=
  match d with
  | [] => Val []
  | _ :: _ =>
    match fuel with
    | O => Panic OutOfFuel
    | S f =>
      do '(len, r) <- read_len 0 d ;
      do s <- slice r 0 len ;
      do rest <- unpack f (skipn (Z.to_nat len) r) ;
      Val (s :: rest)
    end
  end.

Definition unpack_strings (d : list Z) : result (list (list Z)) := unpack (length d) d.

(* hex::encode / hex::encode_upper *)
Definition hex_digit (upper : bool) (v : Z) : Z :=
  if v <? 10 then 48 + v else (if upper then 55 else 87) + v.

Fixpoint hex_encode (upper : bool) (bs : list Z) : list Z :=
  match bs with
  | [] => []
  | b :: r => hex_digit upper (b / 16) :: hex_digit upper (b mod 16) :: hex_encode upper r
  end.

Definition unhexpack_strings (upper : bool) (d : list Z) : result (list (list Z)) :=
  do bs <- unpack_strings d ; Val (map (hex_encode upper) bs).

(* ---------------------------------------------------------------------------------------------- *)
(* Codec::decode_ops *)

Definition ints_of (d : dvec) : result (list Z) :=
  match d with DInts _ l => Val l | _ => Panic BadStack end.

Definition bytes_of (d : dvec) : result (list Z) :=
  match d with DInts EU8 l => Val l | DBits l => Val l | _ => Panic BadStack end.

(* apply an integer -> i64 operator underneath an optional null map *)
Definition lift_ints (f : list Z -> result (list Z)) (v : sval) : result sval :=
  match v with
  | Plain d => do l <- ints_of d ; do l' <- f l ; Val (Plain (DInts EI64 l'))
  | WithNulls d p => do l <- ints_of d ; do l' <- f l ; Val (WithNulls (DInts EI64 l') p)
  end.

Definition step (sections : list section) (op : codec_op) (stack : list sval) : result (list sval) :=
  match op, stack with
  | OpNullable, Plain p :: Plain d :: rest =>
      do pb <- bytes_of p ; Val (WithNulls d pb :: rest)
  | OpAdd _ x, v :: rest => do v' <- lift_ints (add_all x) v ; Val (v' :: rest)
  | OpDelta _, Plain d :: rest =>
      do l <- ints_of d ; do l' <- delta_decode 0 l ; Val (Plain (DInts EI64 l') :: rest)
  | OpToI64 _, v :: rest => do v' <- lift_ints (fun l => Val l) v ; Val (v' :: rest)
  | OpPush i, _ =>
      match nth_error sections i with
      | Some s => Val (of_section s :: stack)
      | None => Panic OutOfBounds
      end
  | OpDict _, Plain dd :: Plain dr :: v :: rest =>
      do store <- bytes_of dd ;
      do ranges <- ints_of dr ;
      match v with
      | Plain di => do idx <- ints_of di ; do ss <- dict_lookup idx ranges store ; Val (Plain (DStr ss) :: rest)
      | WithNulls di p =>
          do idx <- ints_of di ; do ss <- dict_lookup idx ranges store ; Val (WithNulls (DStr ss) p :: rest)
      end
  | OpUnpack, Plain d :: rest =>
      do b <- bytes_of d ; do ss <- unpack_strings b ; Val (Plain (DStr ss) :: rest)
  | OpUnhex upper _, Plain d :: rest =>
      do b <- bytes_of d ; do ss <- unhexpack_strings upper b ; Val (Plain (DStr ss) :: rest)
  | _, _ => Panic BadStack
  end.

Fixpoint run_ops (sections : list section) (ops : list codec_op) (stack : list sval)
  : result (list sval) :=
  match ops with
  | [] => Val stack
  | op :: r => do st <- step sections op stack ; run_ops sections r st
  end.

(* decode of a whole column: the stack starts with section 0 and must end with one entry *)
Definition decode_column (c : column) : result sval :=
  match c_data c with
  | [] => Panic OutOfBounds
  | s0 :: _ =>
    do st <- run_ops (c_data c) (c_ops c) [of_section s0] ;
    match st with [v] => Val v | _ => Panic BadStack end
  end.

(* ---------------------------------------------------------------------------------------------- *)
(* cells of a decoded buffer *)

Definition cells_plain (d : dvec) : list cell :=
  match d with
  | DInts _ l => map CInt l
  | DF64 l => map CFloat l
  | DStr l => map CStr l
  | DNullV n => repeat CNull (Z.to_nat n)
  | DBits l => map CInt l
  end.

Fixpoint mask_cells (p : list Z) (i : Z) (cs : list cell) : list cell :=
  match cs with
  | [] => []
  | c :: r => (if bv_get p i then c else CNull) :: mask_cells p (i + 1) r
  end.

Definition cells_of (v : sval) : list cell :=
  match v with
  | Plain d => cells_plain d
  | WithNulls d p => mask_cells p 0 (cells_plain d)
  end.

Definition column_cells (c : column) : result (list cell) :=
  do v <- decode_column c ; Val (cells_of v).
