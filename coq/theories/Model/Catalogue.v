(* Model of the catalogue tables _meta_tables / _meta_columns_<t>: Table::new's name-based seeding
   of column_names (src/mem_store/table.rs), create_if_empty_no_ingest, new_column_names and the
   catalogue rows InnerLocustDB::ingest_efficient appends to the same event buffer
   (src/scheduler/inner_locustdb.rs), query_column_names + init_column_names (lazy loading after a
   restart).  Executable definitions only. *)
From Coq Require Import NArith ZArith List Bool.
From LV Require Import Model.TableSM.
Import ListNotations.
Open Scope N_scope.

(* "_meta_columns_" *)
Definition s_meta_columns_ : name := [95;109;101;116;97;95;99;111;108;117;109;110;115;95].
(* "_meta_tables" *)
Definition s_meta_tables : name := [95;109;101;116;97;95;116;97;98;108;101;115].
(* "column_name" *)
Definition s_column_name : name := [99;111;108;117;109;110;95;110;97;109;101].
(* "column_names": the literal Table::new inserted for a table called _meta_columns_* until commit
   647a26b (finding F3, fixed); kept only so that the history of the finding can be replayed with
   the generic [seed] parameter of the definitions below *)
Definition s_column_names : name := [99;111;108;117;109;110;95;110;97;109;101;115].
(* the literal Table::new inserts for a table called _meta_columns_* in the code as it stands
   (src/mem_store/table.rs, since 647a26b): the name of the one column catalogue rows have *)
Definition code_seed : name := s_column_name.
(* "timestamp", "name" *)
Definition s_timestamp : name := [116;105;109;101;115;116;97;109;112].
Definition s_name : name := [110;97;109;101].

Definition meta_columns_of (t : name) : name := s_meta_columns_ ++ t.

Definition is_meta_columns (n : name) : bool := is_prefix s_meta_columns_ n.
Definition is_meta_tables (n : name) : bool := is_prefix s_meta_tables n.

(* Table::new(name, lru, column_names): [seed] is the literal inserted for _meta_columns_* tables;
   the state machine (Model/WalSM.v) instantiates it with [code_seed] = "column_name".  Before
   647a26b the literal was "column_names" (F3): the definitions stay generic in it so that the old
   behaviour remains expressible. *)
Definition seed_cols (seed : name) (n : name) (dflt : option (list name)) : option (list name) :=
  if is_meta_columns n then Some [seed]
  else if is_meta_tables n then Some [s_timestamp; s_name]
  else dflt.

(* one event-buffer entry: a table name, the columns the batch mentions, its rows *)
Record tbatch := { tb_name : name; tb_cols : list name; tb_rows : list row }.
Definition batch := list tbatch.

(* the values of column [c] as strings; None when a cell is not a string (query_column_names then
   fails with "Expected single string column ..." and the caller's expect() panics) *)
Fixpoint string_column (c : name) (rows : list row) : option (list name) :=
  match rows with
  | [] => Some []
  | r :: rest =>
      match get r c, string_column c rest with
      | CStr s, Some l => Some (s :: l)
      | _, _ => None
      end
  end.

(* rows appended to _meta_tables for newly created tables (the timestamp cell is wall-clock time in
   the code; it is never observed by the checks and is 0 here) *)
Definition meta_tables_row (n : name) : row := [(s_timestamp, CInt 0); (s_name, CStr n)].
Definition meta_tables_batch (created : list name) : batch :=
  match created with
  | [] => []
  | _ => [{| tb_name := s_meta_tables; tb_cols := [s_timestamp; s_name];
             tb_rows := map meta_tables_row created |}]
  end.

(* rows appended to _meta_columns_<t> for names not yet in the table's column set *)
Definition meta_columns_batch (t : name) (fresh : list name) : batch :=
  match fresh with
  | [] => []
  | _ => [{| tb_name := meta_columns_of t; tb_cols := [s_column_name];
             tb_rows := map (fun c => [(s_column_name, CStr c)]) fresh |}]
  end.
