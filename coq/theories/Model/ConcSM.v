(* C10 — the locking / publication protocol of ONE table as a small-step interleaving semantics.

   Transcribed from
     src/mem_store/table.rs            Table::{snapshot, freeze_buffer, batch, plan_compaction, snapshot_parts,
                                              compact, ingest_homogeneous}
     src/scheduler/inner_locustdb.rs   ingest_efficient (wal lock), wal_flush (freeze under the wal lock, then
                                              flush_table_buffer = batch + plan, then compact)

   Shared state: the acknowledged log (ghost), the open buffer, the frozen buffer, the partition map (kept in
   offset order: `batch` appends at the next offset, `plan_compaction` always selects a suffix in offset order),
   the partition-id counter, and five lock resources: the wal mutex, the frozen_buffer mutex, the partitions
   RwLock (write side KPW, read side KPR) and the buffer mutex.

   Roles: any number of ingesters (serialised by the wal lock), THE flush thread, any number of queriers.  Every
   role is a program with a program counter; every step performs AT MOST ONE lock operation and is enabled only
   if that operation is possible (mutex free / no writer / no reader and no writer).  Guards are dropped one at
   a time in Rust's drop order (reverse declaration order).

   Rust panics that the protocol could reach are pcs (`F_panic`), never totalised away:
     - freeze_buffer's  assert!(frozen_buffer.len() == 0)
     - snapshot_parts'  partitions[id]  (index of a missing id)
   Definitions only; proofs are in Proofs/ConcSM*.v. *)
From Coq Require Import NArith List Bool Arith.
Import ListNotations.

Notation batch := (list N) (only parsing).   (* the row ids of one ingestion request for this table *)
Notation pid := nat (only parsing).          (* partition id *)

Inductive thr := TI (n : nat) | TF | TQ (n : nat).

Definition thr_eqb (a b : thr) : bool :=
  match a, b with
  | TI n, TI m => Nat.eqb n m
  | TF, TF => true
  | TQ n, TQ m => Nat.eqb n m
  | _, _ => false
  end.

(* lock resources; the RwLock over the partition map has a write side and a read side *)
Inductive lk := KWal | KFrozen | KPW | KPR | KBuffer.

(* the global acquisition order: wal_size < frozen_buffer < partitions < buffer *)
Definition rank (k : lk) : nat :=
  match k with KWal => 0 | KFrozen => 1 | KPW => 2 | KPR => 2 | KBuffer => 3 end.

Inductive lockop := LNone | Acq (k : lk) | Rel (k : lk).

(* holders of each resource *)
Record locks := mkLocks {
  h_wal : list thr; h_frozen : list thr; h_pw : list thr; h_pr : list thr; h_buffer : list thr }.

Definition holders (ls : locks) (k : lk) : list thr :=
  match k with
  | KWal => h_wal ls | KFrozen => h_frozen ls | KPW => h_pw ls | KPR => h_pr ls | KBuffer => h_buffer ls
  end.

Definition set_holders (ls : locks) (k : lk) (v : list thr) : locks :=
  match k with
  | KWal => mkLocks v (h_frozen ls) (h_pw ls) (h_pr ls) (h_buffer ls)
  | KFrozen => mkLocks (h_wal ls) v (h_pw ls) (h_pr ls) (h_buffer ls)
  | KPW => mkLocks (h_wal ls) (h_frozen ls) v (h_pr ls) (h_buffer ls)
  | KPR => mkLocks (h_wal ls) (h_frozen ls) (h_pw ls) v (h_buffer ls)
  | KBuffer => mkLocks (h_wal ls) (h_frozen ls) (h_pw ls) (h_pr ls) v
  end.

Definition is_nil {A} (l : list A) : bool := match l with [] => true | _ => false end.

(* can resource k be acquired now? *)
Definition can_acquire (ls : locks) (k : lk) : bool :=
  match k with
  | KPW => is_nil (h_pw ls) && is_nil (h_pr ls)       (* write: no writer, no reader *)
  | KPR => is_nil (h_pw ls)                            (* read: no writer *)
  | _ => is_nil (holders ls k)                         (* mutex: free *)
  end.

Fixpoint remove_thr (t : thr) (l : list thr) : list thr :=
  match l with
  | [] => []
  | x :: r => if thr_eqb t x then remove_thr t r else x :: remove_thr t r
  end.

Fixpoint mem_thr (t : thr) (l : list thr) : bool :=
  match l with [] => false | x :: r => thr_eqb t x || mem_thr t r end.

Definition apply_lockop (t : thr) (lo : lockop) (ls : locks) : option locks :=
  match lo with
  | LNone => Some ls
  | Acq k => if can_acquire ls k then Some (set_holders ls k (t :: holders ls k)) else None
  | Rel k => if mem_thr t (holders ls k) then Some (set_holders ls k (remove_thr t (holders ls k))) else None
  end.

(* ---------------------------------------------------------------------------------------------- *)
(* shared data                                                                                      *)

Record data := mkData {
  log : list batch;                       (* ghost: every batch pushed so far, in push order *)
  acked : nat;                            (* ghost: number of acknowledged (returned) ingestion requests *)
  obuf : list batch;                      (* Table.buffer *)
  fbuf : list batch;                      (* Table.frozen_buffer *)
  parts : list (pid * list batch);        (* Table.partitions, in offset order *)
  next_pid : nat;                         (* Table.next_partition_id *)
  swaps : list (list pid * pid) }.        (* ghost: compaction swaps performed (old ids, new id) *)

(* what a snapshot copies *)
Record snapshot := mkSnap { s_pids : list pid; s_batches : list batch }.

Definition part_batches (ps : list (pid * list batch)) : list batch := concat (map snd ps).

Definition view (d : data) : snapshot :=
  mkSnap (map fst (parts d)) (part_batches (parts d) ++ fbuf d ++ obuf d).

Definition snap_rows (s : snapshot) : list N := concat (s_batches s).

Fixpoint mem_nat (x : nat) (l : list nat) : bool :=
  match l with [] => false | y :: r => Nat.eqb x y || mem_nat x r end.

Fixpoint lookup_part (i : pid) (ps : list (pid * list batch)) : option (list batch) :=
  match ps with
  | [] => None
  | (j, b) :: r => if Nat.eqb i j then Some b else lookup_part i r
  end.

(* snapshot_parts: parts.iter().map(|id| partitions[id].clone()) — None models the index panic *)
Fixpoint lookup_all (ids : list pid) (ps : list (pid * list batch)) : option (list batch) :=
  match ids with
  | [] => Some []
  | i :: r =>
      match lookup_part i ps, lookup_all r ps with
      | Some b, Some rest => Some (b ++ rest)
      | _, _ => None
      end
  end.

(* ---------------------------------------------------------------------------------------------- *)
(* programs                                                                                         *)

(* ingest_efficient for this table *)
Inductive ipc :=
| I_idle
| I_wal (b : batch)            (* holds wal *)
| I_buf (b : batch)            (* ingest_homogeneous: holds wal, buffer *)
| I_pushed_l                   (* pushed; holds wal, buffer *)
| I_pushed.                    (* buffer released; holds wal; not yet acknowledged *)

(* wal_flush for this table: freeze; flush_table_buffer (batch, plan); compact *)
Inductive fpc :=
| F_idle
| F_wal                                                   (* holds wal *)
| F_fz1                                                   (* freeze_buffer: + frozen *)
| F_fz2                                                   (* + buffer; before the swap *)
| F_fz3                                                   (* swapped *)
| F_fz4                                                   (* buffer released *)
| F_fz5                                                   (* frozen released; holds wal *)
| F_batch                                                 (* wal released *)
| F_b1                                                    (* batch: holds frozen *)
| F_b_none                                                (* frozen buffer was empty: about to return None *)
| F_b2 (taken : list batch) (id : pid)                    (* buffer taken out, id allocated; holds frozen *)
| F_b3 (taken : list batch) (id : pid)                    (* + partitions (write) *)
| F_b4                                                    (* inserted *)
| F_b5                                                    (* write lock released; holds frozen *)
| F_plan                                                  (* batch returned *)
| F_p1                                                    (* plan_compaction: holds partitions (read) *)
| F_c0 (olds : list pid) (newid : pid)                    (* compaction planned, id allocated; no locks *)
| F_cr (olds : list pid) (newid : pid)                    (* snapshot_parts: holds partitions (read) *)
| F_cb (olds : list pid) (newid : pid) (merged : list batch)   (* merged columns built; no locks *)
| F_c1 (olds : list pid) (newid : pid) (merged : list batch)   (* Table::compact: holds partitions (write) *)
| F_c2                                                    (* swapped *)
| F_panic.

(* Table::snapshot as called by run_query *)
Inductive qpc :=
| Q_idle
| Q_start (k0 : nat)                     (* query issued when k0 requests had been acknowledged *)
| Q_l1 (k0 : nat)                        (* holds frozen *)
| Q_l2 (k0 : nat)                        (* + partitions (read) *)
| Q_l3 (k0 : nat)                        (* + buffer *)
| Q_c (k0 : nat) (s : snapshot)          (* copied; still holds all three *)
| Q_r1 (k0 : nat) (s : snapshot)         (* buffer released *)
| Q_r2 (k0 : nat) (s : snapshot)         (* partitions released *)
| Q_done (k0 : nat) (s : snapshot).      (* frozen released: the query runs on s *)

Inductive act :=
(* ingester *)
| AIStart (b : batch) | AILockBuf | AIPush | AIUnlockBuf | AIAck
(* flusher: freeze *)
| AFStart | AFzLockFrozen | AFzLockBuf | AFzSwap | AFzUnlockBuf | AFzUnlockFrozen | AFUnlockWal
(* flusher: batch *)
| ABLockFrozen | ABTake | ABReturnNone | ABLockParts | ABInsert | ABUnlockParts | ABUnlockFrozen
(* flusher: plan; the choice is the scheduler's: None, or the index at which the compacted suffix starts *)
| APlanLock | APlan (choice : option nat)
(* flusher: compact *)
| ACRead | ACReadDone | ACWrite | ACSwap | ACUnlock
(* querier *)
| AQStart | AQLockFrozen | AQLockParts | AQLockBuf | AQCopy | AQUnlockBuf | AQUnlockParts | AQUnlockFrozen
| AQReset.

Definition itrans (p : ipc) (a : act) (d : data) : option (lockop * ipc * data) :=
  match p, a with
  | I_idle, AIStart b => Some (Acq KWal, I_wal b, d)
  | I_wal b, AILockBuf => Some (Acq KBuffer, I_buf b, d)
  | I_buf b, AIPush =>
      Some (LNone, I_pushed_l,
            mkData (log d ++ [b]) (acked d) (obuf d ++ [b]) (fbuf d) (parts d) (next_pid d) (swaps d))
  | I_pushed_l, AIUnlockBuf => Some (Rel KBuffer, I_pushed, d)
  | I_pushed, AIAck =>
      Some (Rel KWal, I_idle,
            mkData (log d) (S (acked d)) (obuf d) (fbuf d) (parts d) (next_pid d) (swaps d))
  | _, _ => None
  end.

Definition ftrans (p : fpc) (a : act) (d : data) : option (lockop * fpc * data) :=
  match p, a with
  | F_idle, AFStart => Some (Acq KWal, F_wal, d)
  | F_wal, AFzLockFrozen => Some (Acq KFrozen, F_fz1, d)
  | F_fz1, AFzLockBuf => Some (Acq KBuffer, F_fz2, d)
  | F_fz2, AFzSwap =>
      (* assert!(frozen_buffer.len() == 0); mem::swap(buffer, frozen_buffer) *)
      if is_nil (fbuf d)
      then Some (LNone, F_fz3, mkData (log d) (acked d) (fbuf d) (obuf d) (parts d) (next_pid d) (swaps d))
      else Some (LNone, F_panic, d)
  | F_fz3, AFzUnlockBuf => Some (Rel KBuffer, F_fz4, d)
  | F_fz4, AFzUnlockFrozen => Some (Rel KFrozen, F_fz5, d)
  | F_fz5, AFUnlockWal => Some (Rel KWal, F_batch, d)
  | F_batch, ABLockFrozen => Some (Acq KFrozen, F_b1, d)
  | F_b1, ABTake =>
      if is_nil (fbuf d) then Some (LNone, F_b_none, d)
      else Some (LNone, F_b2 (fbuf d) (next_pid d),
                 mkData (log d) (acked d) (obuf d) [] (parts d) (S (next_pid d)) (swaps d))
  | F_b_none, ABReturnNone => Some (Rel KFrozen, F_plan, d)
  | F_b2 tk i, ABLockParts => Some (Acq KPW, F_b3 tk i, d)
  | F_b3 tk i, ABInsert =>
      Some (LNone, F_b4,
            mkData (log d) (acked d) (obuf d) (fbuf d) (parts d ++ [(i, tk)]) (next_pid d) (swaps d))
  | F_b4, ABUnlockParts => Some (Rel KPW, F_b5, d)
  | F_b5, ABUnlockFrozen => Some (Rel KFrozen, F_plan, d)
  | F_plan, APlanLock => Some (Acq KPR, F_p1, d)
  | F_p1, APlan None => Some (Rel KPR, F_idle, d)
  | F_p1, APlan (Some i) =>
      if Nat.ltb i (length (parts d))
      then Some (Rel KPR, F_c0 (map fst (skipn i (parts d))) (next_pid d),
                 mkData (log d) (acked d) (obuf d) (fbuf d) (parts d) (S (next_pid d)) (swaps d))
      else None
  | F_c0 olds n, ACRead => Some (Acq KPR, F_cr olds n, d)
  | F_cr olds n, ACReadDone =>
      match lookup_all olds (parts d) with
      | Some m => Some (Rel KPR, F_cb olds n m, d)
      | None => Some (Rel KPR, F_panic, d)
      end
  | F_cb olds n m, ACWrite => Some (Acq KPW, F_c1 olds n m, d)
  | F_c1 olds n m, ACSwap =>
      Some (LNone, F_c2,
            mkData (log d) (acked d) (obuf d) (fbuf d)
                   (filter (fun p => negb (mem_nat (fst p) olds)) (parts d) ++ [(n, m)])
                   (next_pid d) ((olds, n) :: swaps d))
  | F_c2, ACUnlock => Some (Rel KPW, F_idle, d)
  | _, _ => None
  end.

Definition qtrans (p : qpc) (a : act) (d : data) : option (lockop * qpc * data) :=
  match p, a with
  | Q_idle, AQStart => Some (LNone, Q_start (acked d), d)
  | Q_start k, AQLockFrozen => Some (Acq KFrozen, Q_l1 k, d)
  | Q_l1 k, AQLockParts => Some (Acq KPR, Q_l2 k, d)
  | Q_l2 k, AQLockBuf => Some (Acq KBuffer, Q_l3 k, d)
  | Q_l3 k, AQCopy => Some (LNone, Q_c k (view d), d)
  | Q_c k s, AQUnlockBuf => Some (Rel KBuffer, Q_r1 k s, d)
  | Q_r1 k s, AQUnlockParts => Some (Rel KPR, Q_r2 k s, d)
  | Q_r2 k s, AQUnlockFrozen => Some (Rel KFrozen, Q_done k s, d)
  | Q_done _ _, AQReset => Some (LNone, Q_idle, d)
  | _, _ => None
  end.

(* ---------------------------------------------------------------------------------------------- *)
(* global state and step                                                                            *)

Record state := mkState {
  dat : data; lks : locks;
  ing : list ipc; fl : fpc; qs : list qpc }.

Fixpoint upd {A} (n : nat) (x : A) (l : list A) : list A :=
  match l, n with
  | [], _ => []
  | _ :: r, O => x :: r
  | y :: r, S m => y :: upd m x r
  end.

Definition step (t : thr) (a : act) (st : state) : option state :=
  match t with
  | TI n =>
      match nth_error (ing st) n with
      | None => None
      | Some p =>
          match itrans p a (dat st) with
          | None => None
          | Some (lo, p', d') =>
              match apply_lockop t lo (lks st) with
              | None => None
              | Some l' => Some (mkState d' l' (upd n p' (ing st)) (fl st) (qs st))
              end
          end
      end
  | TF =>
      match ftrans (fl st) a (dat st) with
      | None => None
      | Some (lo, p', d') =>
          match apply_lockop t lo (lks st) with
          | None => None
          | Some l' => Some (mkState d' l' (ing st) p' (qs st))
          end
      end
  | TQ n =>
      match nth_error (qs st) n with
      | None => None
      | Some p =>
          match qtrans p a (dat st) with
          | None => None
          | Some (lo, p', d') =>
              match apply_lockop t lo (lks st) with
              | None => None
              | Some l' => Some (mkState d' l' (ing st) (fl st) (upd n p' (qs st)))
              end
          end
      end
  end.

Definition init_data : data := mkData [] 0 [] [] [] 0 [].
Definition init_locks : locks := mkLocks [] [] [] [] [].
Definition init (ni nq : nat) : state :=
  mkState init_data init_locks (repeat I_idle ni) F_idle (repeat Q_idle nq).

(* the scheduler-driven runner: None as soon as a scheduled step is not enabled *)
Fixpoint run (sched : list (thr * act)) (st : state) : option state :=
  match sched with
  | [] => Some st
  | (t, a) :: r =>
      match step t a st with
      | None => None
      | Some st' => run r st'
      end
  end.

(* same, reporting how many steps were executed before the first disabled one *)
Fixpoint run_trace (sched : list (thr * act)) (st : state) (done : nat) : state * option nat :=
  match sched with
  | [] => (st, None)
  | (t, a) :: r =>
      match step t a st with
      | None => (st, Some done)
      | Some st' => run_trace r st' (S done)
      end
  end.

(* the snapshots that queries are currently running on / have completed *)
Definition q_snapshot (p : qpc) : option (nat * snapshot) :=
  match p with
  | Q_c k s | Q_r1 k s | Q_r2 k s | Q_done k s => Some (k, s)
  | _ => None
  end.
