(* Model of the binary event-buffer message (client -> server ingestion, and the payload of WAL segments):
   locustdb-serialization/src/event_buffer.rs  EventBuffer::{serialize_builder, deserialize_reader},
   at capnp FIELD level (wal_segment.capnp: TableSegmentList / TableSegment / Column / AnyVal); capnp's
   packed byte encoding is not modelled.  Tables and columns live in HashMaps: the lists below are their
   contents in iteration order, keys are byte strings. *)
From Coq Require Import NArith ZArith List Bool.
From LV Require Import Model.Routing Model.EventBuf.
Import ListNotations.

Record table_buf := { tb_len : N; tb_cols : list (str * coldata) }.
Definition event_buf := list (str * table_buf).

(* the `data` union of a Column *)
Inductive data_msg :=
| MF64 (l : list N)
| MSparseF64 (indices : list nat) (values : list N)
| MI64 (l : list Z)
| MString (l : list str)
| MEmpty
| MSparseI64 (indices : list nat) (values : list Z)
| MMixed (l : list anyval).

Record table_msg := { tm_len : N; tm_name : str; tm_cols : list (str * data_msg) }.
Definition event_msg := list table_msg.

(* ---------- writer ---------- *)
Definition ser_data (d : coldata) : data_msg :=
  match d with
  | CEmpty => MEmpty
  | CDense l => MF64 l
  | CSparse l => MSparseF64 (map fst l) (map snd l)       (* iter().cloned().unzip() *)
  | CI64 l => MI64 l
  | CSparseI64 l => MSparseI64 (map fst l) (map snd l)
  | CString l => MString l
  | CMixed l => MMixed l
  end.

Definition ser_table (nt : str * table_buf) : table_msg :=
  {| tm_len := tb_len (snd nt); tm_name := fst nt;
     tm_cols := map (fun kd => (fst kd, ser_data (snd kd))) (tb_cols (snd nt)) |}.

Definition serialize (e : event_buf) : event_msg := map ser_table e.

(* ---------- reader ---------- *)
Definition de_data (m : data_msg) : coldata :=
  match m with
  | MEmpty => CEmpty
  | MF64 l => CDense l
  | MSparseF64 i v => CSparse (combine i v)                 (* indices.iter().zip(values.iter()) *)
  | MI64 l => CI64 l
  | MSparseI64 i v => CSparseI64 (combine i v)
  | MString l => CString l
  | MMixed l => CMixed l
  end.

(* HashMap::insert: a later entry with the same key replaces the earlier one *)
Fixpoint aput {B} (k : str) (v : B) (l : list (str * B)) : list (str * B) :=
  match l with
  | [] => [(k, v)]
  | (k', v') :: r => if str_eqb k k' then (k, v) :: r else (k', v') :: aput k v r
  end.

Fixpoint de_cols (cols : list (str * data_msg)) (acc : list (str * coldata)) : list (str * coldata) :=
  match cols with
  | [] => acc
  | (k, m) :: r => de_cols r (aput k (de_data m) acc)
  end.

Fixpoint de_tables (ts : event_msg) (acc : event_buf) : event_buf :=
  match ts with
  | [] => acc
  | t :: r => de_tables r (aput (tm_name t) {| tb_len := tm_len t; tb_cols := de_cols (tm_cols t) [] |} acc)
  end.

Definition deserialize (g : event_msg) : event_buf := de_tables g [].
