(* Model of the ingestion front end of one column, and the SPECIFICATION of what a plain SELECT must
   return for it.
     src/ingest/input_column.rs   InputColumn::from_column_data
     src/ingest/buffer.rs         Buffer::push_typed_cols (per column), extend_to_largest
   Executable definitions only.

   [expected] never mentions encodings, placeholders or bitmaps: it is the list of supplied cells,
   NULL where nothing was supplied, with the documented degradation of a buffer that received several
   types (int + float -> float via `as f64`; anything + string -> string via to_string). *)
From Coq Require Import ZArith List Bool.
From LV Require Import Model.CodecBase Model.IntEnc Model.FloatEnc Model.StrEnc Model.Codec Model.ColumnBuffer.
Import ListNotations.
Open Scope Z_scope.

(* locustdb_serialization::event_buffer::ColumnData *)
Inductive coldata :=
| CDEmpty
| CDDense (fs : list Z)
| CDSparse (l : list (Z * Z))
| CDI64 (xs : list Z)
| CDSparseI64 (l : list (Z * Z))
| CDString (ss : list str)
| CDMixed (vs : list rawval).

Inductive input_col :=
| ICInt (xs : list Z)
| ICFloat (fs : list Z)
| ICNullableFloat (rows : Z) (l : list (Z * Z))
| ICNullableInt (rows : Z) (l : list (Z * Z))
| ICStr (ss : list str)
| ICNull (n : Z)
| ICMixed (vs : list rawval).

Fixpoint enumerate {A} (i : Z) (l : list A) : list (Z * A) :=
  match l with [] => [] | a :: r => (i, a) :: enumerate (i + 1) r end.

Inductive ingest_error := AssertStringLen | SparseUnderflow.

Definition from_column_data (cd : coldata) (rows : Z) : option input_col :=
  match cd with
  | CDDense fs => Some (if zlen fs <? rows then ICNullableFloat rows (enumerate 0 fs) else ICFloat fs)
  | CDSparse l => Some (ICNullableFloat rows l)
  | CDI64 xs => Some (if zlen xs <? rows then ICNullableInt rows (enumerate 0 xs) else ICInt xs)
  (* History: until /repo 1c4a1c7 `assert!(data.len() == rows)` (finding F11).  Now a string column
     shorter than its batch is padded with NULLs through the Mixed representation; a longer one
     still fails the assertion. *)
  | CDString ss =>
      if zlen ss <? rows then Some (ICMixed (map RStr ss ++ repeat RNull (Z.to_nat (rows - zlen ss))))
      else if zlen ss =? rows then Some (ICStr ss) else None                (* assert!(len <= rows) *)
  | CDEmpty => Some (ICNull rows)
  | CDSparseI64 l => Some (ICNullableInt rows l)
  | CDMixed vs => Some (ICMixed vs)
  end.

(* the NullableFloat / NullableInt arms of push_typed_cols; (i - next_i) and (c - next_i) are u64
   subtractions: None when they would underflow *)
Fixpoint sparse_ops (mk : Z -> push_op) (c next_i : Z) (l : list (Z * Z)) : option (list push_op) :=
  match l with
  | [] => if c <? next_i then None else Some [PNulls (c - next_i)]
  | (i, v) :: r =>
    if i <? next_i then None
    else match sparse_ops mk c (i + 1) r with
         | Some ops => Some (PNulls (i - next_i) :: mk v :: ops)
         | None => None
         end
  end.

Definition ops_of_input (ic : input_col) : option (list push_op) :=
  match ic with
  | ICInt xs => Some [PInts xs None]
  | ICFloat fs => Some [PFloats fs None]
  | ICStr ss => Some [PStrs ss None]
  | ICNull n => Some [PNulls n]
  | ICMixed vs => Some (map op_of_val vs)
  | ICNullableFloat c l => sparse_ops (fun f => PFloats [f] None) c 0 l
  | ICNullableInt c l => sparse_ops (fun i => PInts [i] None) c 0 l
  end.

(* one batch as seen by one column: the column's data (None: the batch does not mention the column)
   and the number of rows of the batch *)
Definition batch_item := (option coldata * Z)%type.

(* the pushes a column buffer receives over the life of one table buffer: a column first mentioned
   after `before` rows starts as ColumnBuffer::null(before) (= push_nulls(before) on an empty buffer);
   a column not mentioned by a batch is extended by extend_to_largest *)
Fixpoint col_ops (created : bool) (before : Z) (items : list batch_item) : option (list push_op) :=
  match items with
  | [] => Some []
  | (cd, rows) :: r =>
    (* /repo 1eb96cd: ingest_efficient skips a table buffer with zero rows (before that: assertion in
       push_typed_cols, finding F12) *)
    if rows =? 0 then col_ops created before r else
    match cd with
    | None =>
      match col_ops created (before + rows) r with
      | Some ops => Some (if created then PNulls rows :: ops else ops)
      | None => None
      end
    | Some cd =>
      match from_column_data cd rows with
      | None => None
      | Some ic =>
        match ops_of_input ic, col_ops true (before + rows) r with
        | Some o1, Some o2 => Some ((if created then [] else [PNulls before]) ++ o1 ++ o2)
        | _, _ => None
        end
      end
    end
  end.

(* ---------------------------------------------------------------------------------------------- *)
(* SPECIFICATION *)

Inductive kind := KEmpty | KInt | KFloat | KStr | KMixed.

Section Spec.
Variable f2s : Z -> str.

Definition mask_new (np : option (list Z)) (cs : list cell) : list cell :=
  match np with None => cs | Some p => mask_cells p 0 cs end.

Definition int_to_float_cell (c : cell) : cell :=
  match c with CInt i => CFloat (i64_to_f64 i) | _ => c end.
Definition to_string_cell (c : cell) : cell :=
  match c with
  | CInt i => CStr (i64_to_string i)
  | CFloat f => CStr (f2s f)
  | _ => c
  end.

Definition spec_push (st : kind * list cell) (op : push_op) : kind * list cell :=
  let '(k, cs) := st in
  match op with
  | PNulls n => (k, cs ++ repeat CNull (Z.to_nat n))
  | PInts xs np =>
    match k with
    | KEmpty | KInt => (KInt, cs ++ mask_new np (map CInt xs))
    | KFloat => (KFloat, cs ++ mask_new np (map (fun i => CFloat (i64_to_f64 i)) xs))
    | KStr | KMixed => (KMixed, cs ++ mask_new np (map (fun i => CStr (i64_to_string i)) xs))
    end
  | PFloats fs np =>
    match k with
    | KEmpty | KFloat => (KFloat, cs ++ mask_new np (map CFloat fs))
    | KInt => (KFloat, map int_to_float_cell cs ++ mask_new np (map CFloat fs))
    | KStr | KMixed => (KMixed, cs ++ mask_new np (map (fun f => CStr (f2s f)) fs))
    end
  | PStrs ss np =>
    match k with
    | KEmpty | KStr => (KStr, cs ++ mask_new np (map CStr ss))
    | KInt | KFloat | KMixed => (KMixed, map to_string_cell cs ++ mask_new np (map CStr ss))
    end
  end.

(* what SELECT must return for a column that received [ops] *)
Definition expected (ops : list push_op) : list cell :=
  snd (fold_left spec_push ops (KEmpty, [])).

(* the implementation under the same pushes *)
Definition stored (ops : list push_op) : result (list cell) :=
  do c <- finalize f2s (run_pushes f2s (colbuf_null 0) ops) ; column_cells c.

End Spec.
