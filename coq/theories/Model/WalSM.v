(* Model of the persistence protocol of a database with a storage directory:
   InnerLocustDB::{new, ingest_efficient, wal_flush, enforce_wal_limit, evict_cache}
   (src/scheduler/inner_locustdb.rs), Storage::{recover, persist_wal_segment, persist_partitions,
   prepare_compact, persist_metastore, delete_orphaned_partitions, delete_wal_segments}
   (src/disk_store/storage.rs), MetaStore (src/disk_store/meta_store.rs: the serialised catalogue
   stores only earliest_unflushed_wal_id, as nextWalId).
   Executable definitions only; proofs in Proofs/WalSM*.v.

   Granularity: one step = one completed API call (ingest, flush, restart), no crash in between;
   the same protocol at the granularity of primitive file effects is Model/CrashSM.v.
   A flush that runs concurrently with ingestion is linearised at its freeze step (both hold the
   WAL lock there); what the flush does afterwards touches only the frozen buffers, the partition
   files, the catalogue file and the segments below the recorded bound, all disjoint from what a
   later ingestion touches.

   Hash-map iteration orders of the code (tables within an event buffer, tables within a flush,
   segment files within the directory listing) are fixed here to list order; the theorems do not
   depend on which order it is only in so far as they are proved for every input list. *)
From Coq Require Import NArith ZArith List Bool.
From LV Require Import Model.TableSM Model.Catalogue.
Import ListNotations.
Open Scope N_scope.

Record cfg := {
  c_factor : N;             (* Options.partition_combine_factor *)
  c_max_wal_files : N;      (* Options.max_wal_files *)
  c_max_wal_bytes : N       (* Options.max_wal_size_bytes *)
}.

Record segment := { sg_bytes : N; sg_data : batch }.

Record db := {
  tabs : list (name * tstate);
  next_wal : N;                     (* MetaStore.next_wal_id *)
  earliest : N;                     (* MetaStore.earliest_unflushed_wal_id *)
  wal_size : N;                     (* InnerLocustDB.wal_size *)
  d_cursor : option N;              (* the catalogue file: None = absent, Some c = stored nextWalId *)
  d_wal : list (N * segment);       (* wal/<id>.wal *)
  acked : list batch                (* ghost: the event buffers of the acknowledged requests, as
                                       written to the log (catalogue rows included) *)
}.

Inductive site :=
| SNonContiguous       (* assert_eq!(wal_segment.id, id, "WAL segments are not contiguous") *)
| SMissingFile         (* load of a partition file that does not exist *)
| SCatalogue           (* query_column_names(..).expect("Failed to query column names") *)
| SOverflow            (* u64 overflow in plan_compaction *)
| SColsNotInit         (* "column names have not been initialized" *)
| SFrozenNotEmpty      (* assert!(frozen_buffer.len() == 0) *)
| SDeleteMissing       (* remove_file(..).unwrap() on a missing file *)
| SPlanRange
| SNoTable.            (* tables.get(..).unwrap() *)

Inductive res (A : Type) :=
| Val (a : A)
| Known (k : known)     (* guarded run: the step would execute a known-defect site *)
| Panic (s : site)
| Blocked               (* ingestion waits: wal_size > max_wal_size_bytes *)
| NotEnabled.           (* a background flush was claimed although its trigger is false *)
Arguments Val {A} a.
Arguments Known {A} k.
Arguments Panic {A} s.
Arguments Blocked {A}.
Arguments NotEnabled {A}.

Definition bind {A B} (r : res A) (f : A -> res B) : res B :=
  match r with
  | Val a => f a
  | Known k => Known k
  | Panic s => Panic s
  | Blocked => Blocked
  | NotEnabled => NotEnabled
  end.
Notation "'do' x <- r ; k" := (bind r (fun x => k)) (at level 200, x pattern, r at level 100, k at level 200).

Definition of_opt {A} (s : site) (o : option A) : res A :=
  match o with Some a => Val a | None => Panic s end.

(* ---------------------------------------------------------------------------------------------- *)
(* the table map *)

Fixpoint lookup (n : name) (l : list (name * tstate)) : option tstate :=
  match l with
  | [] => None
  | (k, v) :: r => if name_eqb n k then Some v else lookup n r
  end.

Fixpoint upd (n : name) (v : tstate) (l : list (name * tstate)) : list (name * tstate) :=
  match l with
  | [] => []
  | (k, w) :: r => if name_eqb n k then (k, v) :: r else (k, w) :: upd n v r
  end.

(* create_if_empty_no_ingest: true when the table was created *)
Definition create_if_empty (seed : name) (n : name) (l : list (name * tstate))
  : list (name * tstate) * bool :=
  match lookup n l with
  | Some _ => (l, false)
  | None => (l ++ [(n, empty_table (seed_cols seed n (Some [])))], true)
  end.

Definition content (s : db) (n : name) : list row :=
  match lookup n (tabs s) with Some t => table_content t | None => [] end.

(* query_column_names + init_column_names when Table.column_names is None *)
Definition ensure_cols (n : name) (l : list (name * tstate)) : res (list (name * tstate)) :=
  match lookup n l with
  | None => Panic SNoTable
  | Some t =>
      match t_cols t with
      | Some _ => Val l
      | None =>
          match lookup (meta_columns_of n) l with
          | None => Panic SCatalogue
          | Some mc =>
              match string_column s_column_name (table_content mc) with
              | None => Panic SCatalogue
              | Some names => Val (upd n (set_cols t (Some (add_names [] names))) l)
              end
          end
      end
  end.

(* ---------------------------------------------------------------------------------------------- *)
(* ingestion *)

(* first loop of ingest_efficient: create tables and their catalogue tables, load column names,
   collect the catalogue rows *)
Fixpoint prepare (seed : name) (b : batch) (l : list (name * tstate)) (created : list name)
         (colrows : batch) : res (list (name * tstate) * list name * batch) :=
  match b with
  | [] => Val (l, created, colrows)
  | tb :: rest =>
      let n := tb_name tb in
      let '(l1, c1) := create_if_empty seed n l in
      let '(l2, c2) := create_if_empty seed (meta_columns_of n) l1 in
      let created' := created ++ (if c1 then [n] else []) ++
                      (if c2 then [meta_columns_of n] else []) in
      do l3 <- ensure_cols n l2;
      match lookup n l3 with
      | None => Panic SNoTable
      | Some t =>
          match t_cols t with
          | None => Panic SColsNotInit
          | Some s =>
              prepare seed rest l3 created'
                      (colrows ++ meta_columns_batch n (new_names s (tb_cols tb)))
          end
      end
  end.

(* second loop: table.ingest_homogeneous for every table of the (augmented) event buffer *)
Fixpoint apply_batch (b : batch) (l : list (name * tstate)) : res (list (name * tstate)) :=
  match b with
  | [] => Val l
  | tb :: rest =>
      match lookup (tb_name tb) l with
      | None => Panic SNoTable
      | Some t =>
          match ingest_rows t (tb_cols tb) (tb_rows tb) with
          | None => Panic SColsNotInit
          | Some t' => apply_batch rest (upd (tb_name tb) t' l)
          end
      end
  end.

Definition ingest (c : cfg) (b : batch) (bytes : N) (s : db) : res db :=
  if c_max_wal_bytes c <? wal_size s then Blocked
  else
    do (l1, created, colrows) <- prepare code_seed b (tabs s) [] [];
    let full := b ++ meta_tables_batch created ++ colrows in
    do l2 <- apply_batch full l1;
    Val {| tabs := l2; next_wal := next_wal s + 1; earliest := earliest s;
           wal_size := wal_size s + bytes; d_cursor := d_cursor s;
           d_wal := d_wal s ++ [(next_wal s, {| sg_bytes := bytes; sg_data := full |})];
           acked := acked s ++ [full] |}.

(* ---------------------------------------------------------------------------------------------- *)
(* WAL flush *)

Definition oracle := list (name * (N * N)).   (* table -> (size of the batched partition,
                                                           size of the merged partition) *)
Fixpoint sizes_for (o : oracle) (n : name) : N * N :=
  match o with
  | [] => (0, 0)
  | (k, v) :: r => if name_eqb n k then v else sizes_for r n
  end.

(* apply a per-table step to every table; a None is the panic at [s] *)
Fixpoint map_tabs (s : site) (f : tstate -> option tstate) (l : list (name * tstate))
  : res (list (name * tstate)) :=
  match l with
  | [] => Val []
  | (n, t) :: r =>
      do t' <- of_opt s (f t);
      do r' <- map_tabs s f r;
      Val ((n, t') :: r')
  end.

Definition freeze_all := map_tabs SFrozenNotEmpty freeze.

Definition lift_t {A} (r : tres A) : res A :=
  match r with TVal a => Val a | TKnown k => Known k | TPanic => Panic SPlanRange end.

(* flush_table_buffer + compact for the table called n *)
Definition flush_table (guard : bool) (c : cfg) (o : oracle) (n : name) (l : list (name * tstate))
  : res (list (name * tstate)) :=
  match lookup n l with
  | None => Panic SNoTable
  | Some t =>
      let szs := sizes_for o n in
      let t1 := batch_table (fst szs) t in
      match plan_compaction (c_factor c) (t_parts t1) with
      | PlanNone => Val (upd n t1 l)
      | PlanOverflow => Panic SOverflow
      | PlanFrom i =>
          (* flush_table_buffer draws the id; compact() then loads the column names if needed *)
          do l1 <- ensure_cols n (upd n t1 l);
          match lookup n l1 with
          | None => Panic SNoTable
          | Some t2 =>
              match t_cols t2 with
              | None => Panic SColsNotInit
              | Some cols =>
                  do t3 <- lift_t (compact guard (snd szs) i cols t2);
                  Val (upd n t3 l1)
              end
          end
      end
  end.

Fixpoint flush_tables (guard : bool) (c : cfg) (o : oracle) (names : list name)
         (l : list (name * tstate)) : res (list (name * tstate)) :=
  match names with
  | [] => Val l
  | n :: rest =>
      do l1 <- flush_table guard c o n l;
      flush_tables guard c o rest l1
  end.

(* Storage::delete_orphaned_partitions *)
Definition delete_orphans := map_tabs SDeleteMissing delete_dead.

(* Storage::delete_wal_segments(start..end) *)
Fixpoint find_seg (id : N) (w : list (N * segment)) : bool :=
  match w with [] => false | (k, _) :: r => (k =? id) || find_seg id r end.

Fixpoint delete_segments (fuel : nat) (id : N) (w : list (N * segment))
  : option (list (N * segment)) :=
  match fuel with
  | O => Some w
  | S f =>
      if find_seg id w
      then delete_segments f (id + 1) (filter (fun x => negb (fst x =? id)) w)
      else None
  end.

Definition bg_enabled (c : cfg) (s : db) : bool :=
  (c_max_wal_bytes c <? wal_size s) || (c_max_wal_files c <? next_wal s - earliest s).

(* the first half of a flush: freeze (under the WAL lock), then batching, partition files and
   compaction; the result is the table map with the in-memory catalogue updated, the merged-away
   partitions' files still in place and recorded in t_dead *)
Definition flush_mid (guard : bool) (c : cfg) (o : oracle) (s : db) : res (list (name * tstate)) :=
  do l0 <- freeze_all (tabs s);
  flush_tables guard c o (map fst l0) l0.

Definition flush (guard : bool) (c : cfg) (o : oracle) (s : db) : res db :=
  (* under the WAL lock: record the unflushed range, freeze every table buffer, reset wal_size *)
  let lo := earliest s in
  let hi := next_wal s in
  (* batching, partition files, compaction (in-memory catalogue updated as they go) *)
  do l1 <- flush_mid guard c o s;
  (* persist_metastore(hi): the catalogue file now holds the cursor and the current partitions *)
  do l2 <- map_tabs SNoTable (fun t => Some (publish_meta t)) l1;
  (* delete_orphaned_partitions, delete_wal_segments(lo..hi) *)
  do l3 <- delete_orphans l2;
  do w <- of_opt SDeleteMissing (delete_segments (N.to_nat (hi - lo)) lo (d_wal s));
  Val {| tabs := l3; next_wal := hi; earliest := hi; wal_size := 0; d_cursor := Some hi;
         d_wal := w; acked := acked s |}.

(* Why the range is recorded in the same critical section as the freeze.  [flush_stale] is the flush
   with the end [hi] of the recorded range given from outside - what wal_flush would do if it read
   storage.unflushed_wal_ids() before taking the ingestion lock and another ingestion got in
   between: the buffers it freezes hold the rows of segments at or above [hi], which stay in the
   log above the new cursor.  With hi = next_wal s it is [flush] (Props/C08.v:
   C08_flush_is_flush_at_next_wal), with a stale hi a restart serves rows twice
   (C08_stale_range_duplicates). *)
Definition flush_stale (guard : bool) (c : cfg) (o : oracle) (s : db) (hi : N) : res db :=
  let lo := earliest s in
  do l1 <- flush_mid guard c o s;
  do l2 <- map_tabs SNoTable (fun t => Some (publish_meta t)) l1;
  do l3 <- delete_orphans l2;
  do w <- of_opt SDeleteMissing (delete_segments (N.to_nat (hi - lo)) lo (d_wal s));
  Val {| tabs := l3; next_wal := next_wal s; earliest := hi; wal_size := 0; d_cursor := Some hi;
         d_wal := w; acked := acked s |}.

(* ---------------------------------------------------------------------------------------------- *)
(* restart: drop(LocustDB) after quiescence, then InnerLocustDB::new on the same directory *)

Fixpoint insert_seg (x : N * segment) (l : list (N * segment)) : list (N * segment) :=
  match l with
  | [] => [x]
  | y :: r => if fst x <=? fst y then x :: y :: r else y :: insert_seg x r
  end.
Definition sort_segs (l : list (N * segment)) : list (N * segment) := fold_right insert_seg [] l.

Fixpoint restore_tables (seed : name) (l : list (name * tstate)) : res (list (name * tstate)) :=
  match l with
  | [] => Val []
  | (n, t) :: r =>
      do r' <- restore_tables seed r;
      match t_meta t with
      | [] => Val r'                                   (* no catalogue entry: the table is gone *)
      | _ => do t' <- of_opt SMissingFile (restore (seed_cols seed n None) t);
             Val ((n, t') :: r')
      end
  end.

Fixpoint replay_batch (seed : name) (b : batch) (l : list (name * tstate))
  : res (list (name * tstate)) :=
  match b with
  | [] => Val l
  | tb :: rest =>
      let '(l1, _) := create_if_empty seed (tb_name tb) l in
      do l2 <- ensure_cols (tb_name tb) l1;
      match lookup (tb_name tb) l2 with
      | None => Panic SNoTable
      | Some t =>
          match ingest_rows t (tb_cols tb) (tb_rows tb) with
          | None => Panic SColsNotInit
          | Some t' => replay_batch seed rest (upd (tb_name tb) t' l2)
          end
      end
  end.

Fixpoint replay (seed : name) (w : list (N * segment)) (expect : option N)
         (l : list (name * tstate)) : res (list (name * tstate)) :=
  match w with
  | [] => Val l
  | (id, sg) :: rest =>
      let ok := match expect with None => true | Some e => id =? e end in
      if ok then
        do l1 <- replay_batch seed (sg_data sg) l;
        replay seed rest (Some (id + 1)) l1
      else Panic SNonContiguous
  end.

Definition recover (c : cfg) (s : db) : res db :=
  let cursor := match d_cursor s with Some k => k | None => 0 end in
  (* Storage::recover: every file of wal/ is loaded; ids below the cursor are deleted, the others
     registered; sorted by id *)
  let keep := sort_segs (filter (fun x => cursor <=? fst x) (d_wal s)) in
  let next := fold_left (fun a x => N.max a (fst x + 1)) keep cursor in
  let size := fold_left (fun a x => a + sg_bytes (snd x)) keep 0 in
  do l0 <- restore_tables code_seed (tabs s);
  let '(l1, _) := create_if_empty code_seed s_meta_tables l0 in
  do l2 <- replay code_seed keep None l1;
  Val {| tabs := l2; next_wal := next; earliest := cursor; wal_size := size;
         d_cursor := d_cursor s; d_wal := keep; acked := acked s |}.

(* ---------------------------------------------------------------------------------------------- *)
(* histories *)

Inductive op :=
| OIngest (b : batch) (bytes : N)
| OFlush (bg : bool) (o : oracle)      (* bg: started by enforce_wal_limit rather than force_flush *)
| OEvict                               (* evict_cache: residency is not part of this model *)
| ORestart.

Definition step (guard : bool) (c : cfg) (s : db) (o : op) : res db :=
  match o with
  | OIngest b bytes => ingest c b bytes s
  | OFlush bg orc => if bg && negb (bg_enabled c s) then NotEnabled else flush guard c orc s
  | OEvict => Val s
  | ORestart => recover c s
  end.

Fixpoint run (guard : bool) (c : cfg) (ops : list op) (s : db) : res db :=
  match ops with
  | [] => Val s
  | o :: rest => do s' <- step guard c s o; run guard c rest s'
  end.

(* a fresh directory: InnerLocustDB::new creates _meta_tables *)
Definition init (c : cfg) : db :=
  {| tabs := [(s_meta_tables, empty_table (seed_cols code_seed s_meta_tables (Some [])))];
     next_wal := 0; earliest := 0; wal_size := 0; d_cursor := None; d_wal := []; acked := [] |}.

(* the acknowledged rows of table n *)
Definition batch_rows (n : name) (b : batch) : list row :=
  flat_map (fun tb => if name_eqb (tb_name tb) n then tb_rows tb else []) b.
Definition acked_rows (log : list batch) (n : name) : list row := flat_map (batch_rows n) log.

(* ---------------------------------------------------------------------------------------------- *)
(* what the correspondence harness observes after a step *)

Record tobs := {
  o_name : name;
  o_parts : list (N * N * N * N);          (* id, start, end, size *)
  o_bufs : N * N;                          (* open, frozen *)
  o_next : N * N;                          (* next_partition_id, next_partition_offset *)
  o_cols : option (list name);
  o_meta : list (N * N * N * N);           (* durable: id, offset, len, size *)
  o_files : list N                         (* durable: ids with a partition file *)
}.

Definition observe_table (nt : name * tstate) : tobs :=
  let t := snd nt in
  {| o_name := fst nt;
     o_parts := map (fun p => (p_id p, p_off p, p_off p + p_len p, p_size p)) (t_parts t);
     o_bufs := (N.of_nat (length (t_buf t)), N.of_nat (length (t_frozen t)));
     o_next := (t_next_id t, t_next_off t);
     o_cols := t_cols t;
     o_meta := map (fun m => (pm_id m, pm_off m, pm_len m, pm_size m)) (t_meta t);
     o_files := map fst (t_files t) |}.

Record obs := {
  ob_content : list (name * list (list cell));   (* per queried table: rows x queried columns *)
  ob_tables : option (list name);                (* SELECT name FROM _meta_tables *)
  ob_columns : list (name * option (list name)); (* SELECT column_name FROM _meta_columns_<t> *)
  ob_layout : list tobs;
  ob_mem : N * N * N;                            (* earliest, next_wal, wal_size *)
  ob_cursor : option N;
  ob_wal : list N
}.

Definition observe (s : db) (spec : list (name * list name)) : obs :=
  {| ob_content := map (fun q => (fst q, map (fun r => map (get r) (snd q)) (content s (fst q)))) spec;
     ob_tables := string_column s_name (content s s_meta_tables);
     ob_columns := map (fun q => (fst q, string_column s_column_name
                                           (content s (meta_columns_of (fst q))))) spec;
     ob_layout := map observe_table (tabs s);
     ob_mem := (earliest s, next_wal s, wal_size s);
     ob_cursor := d_cursor s;
     ob_wal := map fst (d_wal s) |}.

Inductive hop :=
| HOp (o : op)
| HObserve (spec : list (name * list name)).

Inductive hout :=
| HObs (o : obs)
| HStop (why : res unit).      (* the model run ended: Known / Panic / Blocked / NotEnabled *)

Definition forget {A} (r : res A) : res unit :=
  match r with
  | Val _ => Val tt
  | Known k => Known k
  | Panic s => Panic s
  | Blocked => Blocked
  | NotEnabled => NotEnabled
  end.

Fixpoint run_h (guard : bool) (c : cfg) (hs : list hop) (s : db) : list hout :=
  match hs with
  | [] => []
  | HObserve spec :: rest => HObs (observe s spec) :: run_h guard c rest s
  | HOp o :: rest =>
      match step guard c s o with
      | Val s' => run_h guard c rest s'
      | r => [HStop (forget r)]
      end
  end.
