(* Model of src/mem_store/column_buffer.rs: the ColumnBuffer push state machine (type inference,
   coercions, and the null bitmap at byte level) and finalize.
   Executable definitions only.

   f64 Display (`f.to_string()`) is external code: it is the section variable [f2s].  Nothing is
   assumed about it. *)
From Coq Require Import ZArith List Bool.
From LV Require Import Model.CodecBase Model.IntEnc Model.FloatEnc Model.StrEnc.
Import ListNotations.
Open Scope Z_scope.

(* RawVal *)
Inductive rawval := RInt (z : Z) | RFloat (bits : Z) | RStr (s : str) | RNull.

(* i64::to_string *)
Fixpoint dec_digits (fuel : nat) (n : Z) (acc : list Z) : list Z :=
  match fuel with
  | O => acc
  | S f => let acc' := (48 + n mod 10) :: acc in
           if n <? 10 then acc' else dec_digits f (n / 10) acc'
  end.

Definition i64_to_string (i : Z) : str :=
  if i <? 0 then 45 :: dec_digits 20 (- i) [] else dec_digits 20 i [].

Inductive tbuf :=
| TEmpty
| TStr (values : list str)
| TInt (data : list Z) (st : istats)
| TFloat (data : list Z)
| TMixed (data : list rawval).

Record colbuf := mk_colbuf { cb_buf : tbuf; cb_len : Z; cb_present : option (list Z) }.

(* ColumnBuffer::default() / ColumnBuffer::null(length) *)
Definition colbuf_null (len : Z) : colbuf := mk_colbuf TEmpty len None.

Inductive push_op :=
| PInts (xs : list Z) (present : option (list Z))
| PFloats (fs : list Z) (present : option (list Z))
| PStrs (ss : list str) (present : option (list Z))
| PNulls (n : Z).

Section WithFloatDisplay.
Variable f2s : Z -> str.

Definition raw_to_string (v : rawval) : option str :=
  match v with
  | RStr s => Some s
  | RInt i => Some (i64_to_string i)
  | RFloat f => Some (f2s f)
  | RNull => None
  end.

(* fn push_present(&mut self, new_present: Option<&[u8]>, count) *)
Definition push_present (cb : colbuf) (new_present : option (list Z)) (count : nat) : option (list Z) :=
  match cb_present cb with
  | Some all =>
    match new_present with
    | Some np => Some (bv_set_masked all np (cb_len cb) 0 count)
    | None => Some (bv_set_run all (cb_len cb) count)
    end
  | None => None
  end.

(* init_present in the TypedBuffer::Empty arm: vec![0; length / 8]; `assert!(self.present.is_none())`
   holds because no transition sets `present` while the buffer is Empty *)
Definition init_present_empty (cb : colbuf) : option (list Z) :=
  if 0 <? cb_len cb then Some (repeat 0 (Z.to_nat (cb_len cb / 8))) else cb_present cb.

Definition zeros (n : Z) : list Z := repeat 0 (Z.to_nat n).

Definition finish_push (cb : colbuf) (buf : tbuf) (pres0 : option (list Z))
           (new_present : option (list Z)) (count : nat) : colbuf :=
  let cb' := mk_colbuf buf (cb_len cb) pres0 in
  mk_colbuf buf (cb_len cb + Z.of_nat count) (push_present cb' new_present count).

Definition push_ints (cb : colbuf) (xs : list Z) (np : option (list Z)) : colbuf :=
  match cb_buf cb with
  | TEmpty =>
    let data := zeros (cb_len cb) ++ xs in
    finish_push cb (TInt data (istats_push_all istats_init data)) (init_present_empty cb) np (length xs)
  | TInt data st => finish_push cb (TInt (data ++ xs) (istats_push_all st xs)) (cb_present cb) np (length xs)
  | TMixed data => finish_push cb (TMixed (data ++ map RInt xs)) (cb_present cb) np (length xs)
  | TFloat data => finish_push cb (TFloat (data ++ map i64_to_f64 xs)) (cb_present cb) np (length xs)
  | TStr values => finish_push cb (TMixed (map RStr values ++ map RInt xs)) (cb_present cb) np (length xs)
  end.

Definition push_floats (cb : colbuf) (fs : list Z) (np : option (list Z)) : colbuf :=
  match cb_buf cb with
  | TEmpty => finish_push cb (TFloat (zeros (cb_len cb) ++ fs)) (init_present_empty cb) np (length fs)
  | TFloat data => finish_push cb (TFloat (data ++ fs)) (cb_present cb) np (length fs)
  | TInt data _ => finish_push cb (TFloat (map i64_to_f64 data ++ fs)) (cb_present cb) np (length fs)
  | TStr values => finish_push cb (TMixed (map RStr values ++ map RFloat fs)) (cb_present cb) np (length fs)
  | TMixed data => finish_push cb (TMixed (data ++ map RFloat fs)) (cb_present cb) np (length fs)
  end.

Definition push_strings (cb : colbuf) (ss : list str) (np : option (list Z)) : colbuf :=
  match cb_buf cb with
  | TEmpty =>
    finish_push cb (TStr (repeat [] (Z.to_nat (cb_len cb)) ++ ss)) (init_present_empty cb) np (length ss)
  | TStr values => finish_push cb (TStr (values ++ ss)) (cb_present cb) np (length ss)
  | TInt data _ =>
    finish_push cb (TMixed (map (fun i => RStr (i64_to_string i)) data ++ map RStr ss)) (cb_present cb) np (length ss)
  | TFloat data =>
    finish_push cb (TMixed (map (fun f => RStr (f2s f)) data ++ map RStr ss)) (cb_present cb) np (length ss)
  | TMixed data => finish_push cb (TMixed (data ++ map RStr ss)) (cb_present cb) np (length ss)
  end.

(* push_nulls: vec![0xff; length / 8], then set(i) for i in (length / 8) * 8 .. length *)
Definition all_present (len : Z) : list Z :=
  bv_set_run (repeat 255 (Z.to_nat (len / 8))) ((len / 8) * 8) (Z.to_nat (len - (len / 8) * 8)).

Definition push_nulls (cb : colbuf) (count : Z) : colbuf :=
  match cb_buf cb with
  | TEmpty => mk_colbuf TEmpty (cb_len cb + count) (cb_present cb)
  | buf =>
    let present := match cb_present cb with Some p => Some p | None => Some (all_present (cb_len cb)) end in
    let n := Z.to_nat count in
    let buf' := match buf with
                | TInt data st => TInt (data ++ repeat 0 n) (istats_push_all st (repeat 0 n))
                | TFloat data => TFloat (data ++ repeat 0 n)
                | TMixed data => TMixed (data ++ repeat RNull n)
                | TStr values => TStr (values ++ repeat [] n)
                | TEmpty => TEmpty
                end in
    mk_colbuf buf' (cb_len cb + count) present
  end.

Definition push (cb : colbuf) (op : push_op) : colbuf :=
  match op with
  | PInts xs p => push_ints cb xs p
  | PFloats fs p => push_floats cb fs p
  | PStrs ss p => push_strings cb ss p
  | PNulls n => push_nulls cb n
  end.

(* push_val *)
Definition op_of_val (v : rawval) : push_op :=
  match v with
  | RInt i => PInts [i] None
  | RFloat f => PFloats [f] None
  | RStr s => PStrs [s] None
  | RNull => PNulls 1
  end.

(* MixedColBuffer::finalize.
   History: until /repo f5be0e2 the arm was `RawVal::Null => {}`: the cell was skipped, the finished
   column was shorter than the buffer (finding F4).  Now `RawVal::Null => string_col.push("")`. *)
Fixpoint mixed_strings (data : list rawval) : list str :=
  match data with
  | [] => []
  | v :: r => match raw_to_string v with Some s => s :: mixed_strings r | None => [] :: mixed_strings r end
  end.

Definition finalize (cb : colbuf) : result column :=
  match cb_buf cb with
  | TEmpty => Val (column_null (cb_len cb))
  | TInt data st => int_finalize data st (cb_present cb)
  | TFloat data => Val (float_new_boxed data (cb_present cb))
  | TStr values => str_finalize values (cb_present cb)
  | TMixed data => str_finalize (mixed_strings data) (cb_present cb)
  end.

Definition run_pushes (cb : colbuf) (ops : list push_op) : colbuf := fold_left push ops cb.

End WithFloatDisplay.
